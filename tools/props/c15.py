"""C15 - names: total validation, lossless long names, case-insensitive lookup.
Proofs (Props/C15.v) + correspondence of Model/Name.v (validate_long_name, lfn_entries, lfn_assemble, eq_name,
short_name_string) with the real library through create/list/open/rename/remove + direct check of the statement."""
import vlib, namelib
from vlib import hexs
from namelib import spec_validate, units, hex16, fold, short_string, lfn_checksum, parse_dir, Model

PROP_FILES = ["Props/C15.v"]
VARIANTS = ["default", "nounicode"]
D21 = "create of '.' or '..' as a new name in a directory without dot entries is stored without its long name (D21)"
DECOY = "Decoy File.txt"
CONFS = [("12", 1048576, "-"), ("16", 16 * 1048576, "-"), ("32", 40 * 1048576, "512")]


def setup(conf):
    fat, size, bpc = conf
    return ["dev %d 0" % size, "wlog 0", "format - - %s %s - - - - -" % (bpc, fat), "mount 1 0 lossy",
            "create_file 0 %s 0" % hexs(DECOY)]


def alias_bytes_to_str(b):
    return "".join(namelib.oem_lossy(x) for x in b)


def direct_match(query, long_name, alias_str, table):
    fq = fold(query, table)
    return (long_name != "" and fold(long_name, table) == fq) or fold(alias_str, table) == fq


def case_variant(name, table, inv):
    out = []
    for ch in name:
        c = ord(ch)
        if ch.isascii() and ch.isalpha():
            out.append(ch.swapcase())
        elif c in table:
            out.append("".join(chr(x) for x in table[c]))
        elif c in inv:
            out.append(chr(inv[c]))
        else:
            out.append(ch)
    return "".join(out)


class Case:
    __slots__ = ("name", "kind", "queries", "tag", "lines", "i0", "mi")
    def __init__(self, name, kind="file", queries=None, tag=""):
        self.name = name; self.kind = kind; self.queries = queries or []; self.tag = tag


def case_lines(c, exp):
    n = hexs(c.name)
    cr = "create_file" if c.kind == "file" else "create_dir"
    op = "open_file" if c.kind == "file" else "open_dir"
    if exp != "ok":
        return ["wlog 1", "%s 0 %s 0" % (cr, n), "wlog 0"]
    l = ["%s 0 %s 0" % (cr, n), "list 0"]
    for q in c.queries:
        l.append("%s 0 %s 0" % (op, hexs(q)))
    l.append("remove 0 %s" % n)
    return l


def run_cases(rep, cases, conf, variant, table, path, dist, sample_tag=None):
    """runs the cases one after the other in one session (each removes what it created) and judges them"""
    # '.' and '..' (D21) leave an entry behind that cannot be removed by that name: each gets a session of its own
    dots = [c for c in cases if c.name in (".", "..")]
    if dots and len(cases) > 1:
        for c in dots:
            run_cases(rep, [c], conf, variant, table, path, dist)
        cases = [c for c in cases if c.name not in (".", "..")]
    m = Model()
    m.add("upper %s" % path)
    m.add("al %s 50" % hexs(DECOY))
    for c in cases:
        c.mi = m.add("v %s" % hexs(c.name))
    mo = m.run()
    decoy_raw = mo[1].split()[1]
    # second model pass: alias for the names the model accepts; the alias (lower-cased) becomes one more lookup
    m2 = Model(); m2.add("upper %s" % path)
    idx = {}
    for k, c in enumerate(cases):
        if mo[c.mi] == "ok":
            idx[k] = m2.add("al %s 50 %s" % (hexs(c.name), decoy_raw))
    mo2 = m2.run()
    su = setup(conf)
    script = list(su)
    m3 = Model(); m3.add("upper %s" % path)
    qidx = {}
    for k, c in enumerate(cases):
        exp = spec_validate(c.name)
        raw = None
        if k in idx and mo2[idx[k]].startswith("ok "):
            raw = mo2[idx[k]].split()[1]
            if exp == "ok" and c.queries:
                al = short_string(bytes.fromhex(raw)).decode("latin-1").lower()
                c.queries = c.queries + [al] + alias_expansions(al) + ([bit5_twin(al)] if bit5_twin(al) != al else [])
        c.lines = case_lines(c, exp)
        c.i0 = len(script)
        script += c.lines
        if raw is not None:
            for qi, q in enumerate(c.queries):
                qidx[(k, qi)] = m3.add("eq %s %s %s %s" % ("u" if variant != "nounicode" else "a", hex16(units(c.name)), raw, hexs(q)))
    mo3 = m3.run()
    res = vlib.run_scripts([script], variant)[0]
    if not all(r.kind == "ok" for r in res[:len(su)]):
        rep.violation("setup failed (%s, FAT%s)" % (variant, conf[0]), {"script": su}, nofail=True)
        return
    for k, c in enumerate(cases):
        rep.count()
        exp = spec_validate(c.name)
        ops = res[c.i0:c.i0 + len(c.lines)]
        replay = {"script": su + c.lines, "variant": variant, "name_codepoints": [ord(x) for x in c.name][:300]}
        bad = [o for o in ops if o.kind in ("panic", "hang", "bad")]
        if bad:
            rep.violation("%s: %r on name %r" % (variant, bad[0], c.name[:40]), replay)
            return   # the rest of the script was skipped
        mv = mo[c.mi]
        mexp = "ok" if mv == "ok" else mv.split()[-1]
        dist["outcome"][exp] = dist["outcome"].get(exp, 0) + 1
        if exp != "ok":
            cr = ops[1]
            got = cr.payload.split()[0] if cr.kind == "err" else cr.kind
            if got != exp:
                rep.violation("%s: %s(%r...) returned %s, the name rules say %s" % (variant, c.kind, c.name[:30], got, exp), replay)
                continue
            if cr.writes():
                rep.violation("%s: rejected name %r caused device writes" % (variant, c.name[:30]), replay)
                continue
            if mexp != exp:
                rep.violation("validate_long_name model says %s, implementation %s for %r" % (mexp, got, c.name[:30]),
                              dict(replay, theorem_or_correspondence="C15_validate_spec / Model.Name.validate_long_name"), nofail=True)
                continue
            rep.distinct(("rej", c.kind, c.name))
            continue
        # accepted name
        cr, ls = ops[0], ops[1]
        if cr.kind != "ok":
            rep.violation("%s: %s of valid name %r failed: %s %s" % (variant, c.kind, c.name[:30], cr.kind, cr.payload), replay)
            continue
        if mexp != "ok":
            rep.violation("validate_long_name model rejects %r (%s), implementation accepts" % (c.name[:30], mexp),
                          dict(replay, theorem_or_correspondence="C15_validate_spec / Model.Name.validate_long_name"), nofail=True)
            continue
        ents = [e for e in ls.extra if bytes.fromhex(e[8]).decode("utf-8", "replace") != DECOY]
        if ls.kind != "ok" or len(ents) != 1:
            rep.violation("%s: after creating %r the listing has %d new entries" % (variant, c.name[:30], len(ents)), replay)
            continue
        e = ents[0]
        want = hex16(units(c.name))
        if e[0] != want:
            if c.name in (".", "..") and e[0] == "-":
                rep.known_finding(D21)
                dist["d21"] = dist.get("d21", 0) + 1
                continue
            rep.violation("%s: name %r is listed as units %s, created with %s (not lossless)" % (variant, c.name[:30], e[0][:80], want[:80]), replay)
            continue
        if variant != "noalloc" and e[8] != hexs(c.name):
            rep.violation("%s: file_name() of %r returns %s" % (variant, c.name[:30], e[8][:80]), replay)
            continue
        alias_str = alias_bytes_to_str(bytes.fromhex(e[1]))
        malias = mo2[idx[k]].split()
        if malias[0] != "ok" or short_string(bytes.fromhex(malias[1])).hex() != e[1]:
            rep.violation("alias_for model gives %s, implementation lists alias %s for %r" % (malias, e[1], c.name[:30]),
                          dict(replay, theorem_or_correspondence="Model.ShortName.alias_for (C16)"), nofail=True)
            continue
        okc = True
        for qi, q in enumerate(c.queries):
            o = ops[2 + qi]
            want_m = direct_match(q, c.name, alias_str, table)
            got_m = o.kind == "ok"
            if o.kind == "err" and o.payload.split()[0] != "NotFound":
                rep.violation("%s: lookup %r of entry %r: %s" % (variant, q[:30], c.name[:30], o.payload), replay); okc = False; break
            dist["lookup"]["match" if want_m else "nomatch"] += 1
            if got_m != want_m:
                rep.violation("%s: lookup of %r in a directory holding %r (alias %s): %s, but comparing the case-folded names says %s"
                              % (variant, q[:30], c.name[:30], alias_str, "found" if got_m else "NotFound", "match" if want_m else "no match"), replay)
                okc = False; break
            if (mo3[qidx[(k, qi)]] == "1") != got_m:
                rep.violation("eq_name model says %s, implementation %s for query %r on %r" % (mo3[qidx[(k, qi)]], got_m, q[:30], c.name[:30]),
                              dict(replay, theorem_or_correspondence="C15_lookup_sound / Model.Name.eq_name"), nofail=True)
                okc = False; break
        if not okc:
            continue
        if ops[-1].kind != "ok":
            rep.violation("%s: remove of %r failed: %s" % (variant, c.name[:30], ops[-1].payload), replay)
            continue
        rep.distinct(("acc", c.kind, c.name, tuple(c.queries)))
        rep.cov["traces_validated_against_impl"] += 1
        if sample_tag and c.tag == sample_tag:
            rep.sample({"name_codepoints": [ord(x) for x in c.name][:12], "listed_units": e[0][:60], "alias": alias_str,
                        "lookups": [[[ord(x) for x in q][:12], ops[2 + qi].kind] for qi, q in enumerate(c.queries)][:4]})
            sample_tag = None


def alias_expansions(al):
    """spellings of an (ASCII, lower-cased) alias through characters whose upper-case mapping is ASCII (long s, dotless i, sharp s,
    the ff/fi/fl/st ligatures): they match the alias ignoring case in a Unicode-aware build, need more UTF-8 bytes than the 12 of an
    8.3 name, and match nothing in a build without Unicode folding (direct_match decides with the build's own table)"""
    out = []
    for a, b in (("fi", "\ufb01"), ("fl", "\ufb02"), ("ff", "\ufb00"), ("st", "\ufb06"), ("ss", "\u00df"), ("s", "\u017f"), ("i", "\u0131")):
        if a in al:
            v = al.replace(a, b)
            if v not in out:
                out.append(v)
    if len(out) > 1:
        v = al.replace("s", "\u017f").replace("i", "\u0131")
        if v not in out:
            out.append(v)
    return out[:3]


BIT5 = {"^": "~", "~": "^", "@": "`", "`": "@", "[": "{", "{": "[", "]": "}", "}": "]"}
def bit5_twin(q):
    """ASCII punctuation that differs from another legal name character only in bit 5 (the case bit of letters) swapped: a
    different name, which must not match"""
    return "".join(BIT5.get(c, c) for c in q)


def std_queries(name, table, inv, alias=True):
    """same name, a case-changed spelling, a near miss (different name)"""
    qs = [name, case_variant(name, table, inv)]
    if bit5_twin(name) != name and spec_validate(bit5_twin(name)) == "ok":
        qs.append(bit5_twin(name))
    other = name + "x" if len(name.encode()) < 255 else name[:-1]
    if other:
        qs.append(other)
    return qs


def gen_length_cases(table, inv):
    cs = []
    for L in range(0, 301):
        cs.append(Case("x" * L, "file", std_queries("x" * L, table, inv) if 1 <= L <= 255 else [], "len"))
        # multi-byte compositions hitting exactly L bytes: 3-byte and 2-byte characters, one ASCII filler
        if L >= 2:
            a, r = divmod(L, 3)
            n = "€" * a + ("é" if r == 2 else "z" * r)
            cs.append(Case(n, "dir" if L % 2 else "file", [n, n + "x"] if L <= 255 else [], "len"))
            b, r2 = divmod(L, 2)
            n2 = "ä" * b + "q" * r2
            cs.append(Case(n2, "file", [n2, case_variant(n2, table, inv)] if L <= 255 else [], "len"))
    return cs


def gen_ascii_cases(table, inv):
    cs = []
    for c in range(0, 128):
        if c == 0x2F:
            continue      # '/' is the path separator: covered by slash_cases
        ch = chr(c)
        for n in (ch, ch + "mid", "ab" + ch + "cd", "tail" + ch):
            cs.append(Case(n, "file" if c % 2 else "dir", std_queries(n, table, inv) if spec_validate(n) == "ok" else [], "ascii"))
    return cs


def gen_aliasx_cases(table, inv):
    """long names whose generated aliases contain s / i / f / l / t in every position: run_cases looks each of them up through the
    lower-cased alias AND through the spellings of alias_expansions"""
    cs = []
    for n in ("filesystem report.txt", "final list of items.text", "strasse und fluss.doc", "first fish sticks.sit", "missing files list.ini",
              "stiff staff stuff.fst", "ss long name one.sss", "is it in this list.iii", "flush fill flip flop.fl", "sift lists first.sfi",
              "ff leading ligature.ffi", "a fish is listed.ist", "still missing.s", "infinite fission.fis"):
        cs.append(Case(n, "file", std_queries(n, table, inv), "aliasx"))
        cs.append(Case(n.upper().replace(" ", "_") + "x", "dir", std_queries(n.upper().replace(" ", "_") + "x", table, inv), "aliasx"))
    return cs


def gen_ffff_cases(table, inv):
    """U+FFFF (a legal name character, and the padding value of long-name slots) at the end / start / middle of names whose
    length is and is not a multiple of 13 (no terminator is stored at a multiple of 13)"""
    cs = []
    F = "\uffff"
    for L in (1, 2, 12, 13, 14, 25, 26, 27, 38, 39, 40, 52, 247, 248, 255):
        for n in ("a" * (L - 1) + F, "a" * max(0, L - 2) + F * min(2, L), F + "b" * (L - 1), "c" * (L // 2) + F + "c" * (L - L // 2 - 1), F * min(L, 13) + "d" * max(0, L - 13)):
            if 1 <= len(n) <= 255:
                cs.append(Case(n, "file", [n, n + "x", n[:-1] if len(n) > 1 else "q"], "ffff"))
    return cs


def gen_dotspace_cases(table, inv):
    cs = []
    def rec(p, d):
        if p:
            yield p
        if d:
            for ch in ". ":
                yield from rec(p + ch, d - 1)
    for n in rec("", 5):
        cs.append(Case(n, "file", [n, n + "x", n.strip(". ") or "q"], "dots"))
    for n in (" a", "a ", ".a", "a.", "a..", "a. .", ". a .", "a.b.", " . a . b . ", ".. ..a", "a" + "." * 200, " " * 255, "." * 255, "." * 256,
              " " * 256, "a b", "a.b c.d"):
        cs.append(Case(n, "dir" if len(n) % 2 else "file", std_queries(n, table, inv) if spec_validate(n) == "ok" else [], "dots"))
    return cs


def gen_scalar_cases(tier, rng, table, inv):
    cs = []
    for cp in range(0x80, 0x10000):
        if 0xD800 <= cp <= 0xDFFF:
            continue
        ch = chr(cp)
        poss = (0, 1, 2) if tier == "thorough" else (cp % 3,)
        for p in poss:
            n = (ch + "ab", "a" + ch + "b", "ab" + ch)[p]
            cs.append(Case(n, "file", [n, case_variant(n, table, inv), "ab" + chr(cp ^ 1) if p == 2 else n + "x"], "bmp"))
    astral = [0x10000, 0x10001, 0x1F600, 0x10428, 0x10400, 0x1E921, 0xFFFFF, 0x100000, 0x10FFFF, 0x2F800]
    for _ in range(200 if tier == "quick" else 5000):
        astral.append(rng.range(0x10000, 0x10FFFF))
    for cp in astral:
        ch = chr(cp)
        for n in (ch, ch + "ab", "a" + ch + "b", "ab" + ch):
            cs.append(Case(n, "file", [], "astral"))
    return cs


def gen_random_cases(tier, rng, table, inv):
    """mostly valid structured names (random length and character classes) plus a malformed stream (one or more characters
    outside the set, over-long)"""
    cs = []
    valid_ascii = "abcdefghijklmnopqrstuvwxyzABCDEFGHIJKLMNOPQRSTUVWXYZ0123456789$%'-_@~`!(){}.+,;=[]^#& "
    invalid_ascii = '"*:<>?\\|\x7f\x00\x01\x1f\t\n'
    def pick(kind):
        r = rng.below(10)
        if kind == "bad" and r == 0:
            return rng.choice(invalid_ascii) if rng.below(3) else chr(rng.range(0x10000, 0x10FFFF))
        if r < 5:
            return rng.choice(valid_ascii)
        if r < 7:
            return rng.choice(". ")
        if r < 9:
            c = rng.range(0x80, 0xFFFF)
            return chr(c) if not (0xD800 <= c <= 0xDFFF) else "ÿ"
        return rng.choice("ßŉǰΐάЖж€ﬁİı")
    for i in range(2500 if tier == "quick" else 120000):
        kind = "bad" if i % 5 == 4 else "good"
        L = rng.choice([1, 2, 3, 5, 8, 9, 12, 13, 14, 20, 26, 27, 40, 85, 86, 127, 128, 254, 255, 256, 300]) if rng.below(3) == 0 else rng.range(1, 24)
        n = "".join(pick(kind) for _ in range(L))
        if kind == "bad" and spec_validate(n) == "ok":
            j = rng.below(len(n)); n = n[:j] + rng.choice(invalid_ascii) + n[j + 1:]
        if "/" in n or n in (".", ".."):
            continue
        cs.append(Case(n, "dir" if rng.below(5) == 0 else "file", std_queries(n, table, inv) if spec_validate(n) == "ok" else [], "random"))
    return cs


def gen_casepair_cases(table, inv, variant):
    """every row of the dumped to_uppercase table: the lower-case spelling stored, looked up by the upper-case expansion
    and vice versa; plus spellings that must not match"""
    cs = []
    rows = sorted(table.items())
    if variant == "nounicode":
        rows = rows + [(0xE9, [0xC9]), (0xDF, [0x53, 0x53]), (0x149, [0x2BC, 0x4E]), (0x3C9, [0x3A9]), (0x10428, [0x10400])]
    for cp, ups in rows:
        lo = chr(cp); up = "".join(chr(u) for u in ups)
        if spec_validate("a" + lo + "b") == "ok":
            qs = ["A" + up + "B", "a" + up.lower() + "b", "a" + lo + "b", "a" + up + up + "b", "A" + up[:1] + "B"]
            cs.append(Case("a" + lo + "b", "file", qs, "case"))
        if spec_validate(up + ".x") == "ok":
            cs.append(Case(up + ".x", "file", [lo + ".X", up + ".x", lo + lo + ".x"], "case"))
    return cs


def slash_cases(rep, variant, dist):
    """'/' separates path components: leading/trailing separators are trimmed, an inner one walks into a directory"""
    su = setup(CONFS[0])
    probes = [("/", "InvalidFileNameLength"), ("//", "InvalidFileNameLength"), ("a/b", "NotFound"), ("nodir/x:y", "NotFound"),
              ("/ok1", "ok"), ("ok2/", "ok"), ("/ok3//", "ok")]
    script = list(su) + ["wlog 1"]
    for p, _ in probes:
        script.append("create_file 0 %s 0" % hexs(p))
    script.append("list 0")
    res = vlib.run_scripts([script], variant)[0]
    for (p, want), o in zip(probes, res[len(su) + 1:]):
        rep.count()
        got = "ok" if o.kind == "ok" else (o.payload.split()[0] if o.kind == "err" else o.kind)
        if got != want or (want != "ok" and o.writes()):
            rep.violation("%s: create_file(%r) -> %s (writes=%d), expected %s without writes" % (variant, p, got, len(o.writes()), want),
                          {"script": su + ["wlog 1", o.line]})
        else:
            rep.distinct(("slash", p))
    names = sorted(bytes.fromhex(e[8]).decode() for e in res[-1].extra)
    if names != sorted([DECOY, "ok1", "ok2", "ok3"]):
        rep.violation("%s: separators not trimmed as documented: listing %r" % (variant, names), {"script": script})
    dist["slash_probes"] = len(probes)


def case_only_rename_probe(rep, variant, dist):
    """OBSERVATION ONLY (reported to the coordinator, no verdict until it is classified): renaming an entry to a spelling that
    differs only in case, or to its own alias, returns Ok because check_for_existence finds "the same entry"; nothing is
    written and the listing keeps the old spelling."""
    su = setup(CONFS[0])
    sc = su + ["wlog 1", "create_file 0 %s 0" % hexs("Readme File.txt"), "rename 0 %s 0 %s" % (hexs("Readme File.txt"), hexs("README FILE.TXT")), "list 0"]
    res = vlib.run_scripts([sc], variant)[0]
    rn, ls = res[-2], res[-1]
    names = [bytes.fromhex(e[8]).decode("utf-8", "replace") for e in ls.extra]
    dist.setdefault("observations", {})["case_only_rename:" + variant] = {
        "result": rn.kind + " " + rn.payload, "writes": len(rn.writes()), "listed_after": [n for n in names if n != DECOY]}


def rename_and_frame(rep, rng, variant, table, inv, names, dist):
    """rename to valid and invalid names; invalid names must leave the image untouched (device pages compared) and keep the source"""
    su = setup(CONFS[0]) + ["create_file 0 %s 0" % hexs("src.txt"), "create_dir 0 %s 0" % hexs("srcdir")]
    script = list(su); plan = []
    for n in names:
        exp = spec_validate(n)
        if exp == "ok" and n in (".", ".."):
            continue
        i0 = len(script)
        if exp == "ok":
            script += ["rename 0 %s 0 %s" % (hexs("src.txt"), hexs(n)), "list 0", "rename 0 %s 0 %s" % (hexs(n), hexs("src.txt"))]
        else:
            script += ["pages", "wlog 1", "rename 0 %s 0 %s" % (hexs("src.txt"), hexs(n)), "rename 0 %s 0 %s" % (hexs("srcdir"), hexs(n)),
                       "create_dir 0 %s 0" % hexs(n), "create_file 0 %s 0" % hexs(n), "wlog 0", "pages", "open_file 0 %s 0" % hexs("src.txt"),
                       "open_dir 0 %s 0" % hexs("srcdir")]
        plan.append((n, exp, i0, len(script)))
    res = vlib.run_scripts([script], variant)[0]
    for n, exp, i0, i1 in plan:
        rep.count()
        ops = res[i0:i1]
        replay = {"script": su + script[i0:i1], "variant": variant, "name_codepoints": [ord(x) for x in n][:300]}
        bad = [o for o in ops if o.kind in ("panic", "hang", "bad")]
        if bad:
            rep.violation("%s: %r" % (variant, bad[0]), replay); return
        if exp == "ok":
            ents = [e[0] for e in ops[1].extra]
            if ops[0].kind != "ok" or hex16(units(n)) not in ents or hex16(units("src.txt")) in ents or ops[2].kind != "ok":
                rep.violation("%s: rename to valid name %r: %s, listed units %r" % (variant, n[:30], ops[0].kind + " " + ops[0].payload, [x[:40] for x in ents]), replay)
            else:
                rep.distinct(("ren-ok", n)); dist["rename"]["ok"] += 1
        else:
            outs = [(o.payload.split()[0] if o.kind == "err" else o.kind) for o in ops[2:6]]
            wr = sum(len(o.writes()) for o in ops[2:6])
            if outs != [exp] * 4:
                rep.violation("%s: rename/create with invalid name %r -> %r, expected %s" % (variant, n[:30], outs, exp), replay)
            elif wr or ops[0].payload != ops[7].payload:
                rep.violation("%s: rejected name %r changed the image (%d writes, pages %s)" % (variant, n[:30], wr, "differ" if ops[0].payload != ops[7].payload else "equal"), replay)
            elif ops[8].kind != "ok" or ops[9].kind != "ok":
                rep.violation("%s: source entry lost after a rejected rename to %r" % (variant, n[:30]), replay)
            else:
                rep.distinct(("ren-rej", n)); dist["rename"][exp] = dist["rename"].get(exp, 0) + 1


def crafted_entries(rep, rng, tier, variant, table, path, dist):
    """long-name slot runs written straight into the root directory (model's lfn_entries encoding of arbitrary UTF-16 unit
    lists incl. surrogate pairs, unpaired surrogates, 0xFFFF, embedded NUL, lengths around multiples of 13): the listing
    must equal the model's lfn_assemble and lookups must equal the model's eq_name and the direct folding rule"""
    su0 = ["dev 1048576 0", "wlog 0", "format - - - 12 - - - - -", "dump 0 512"]
    g = namelib.geom_of(vlib.run_scripts([su0], variant)[0][3].payload)
    nscripts = 12 if tier == "quick" else 500
    pool = [0x41, 0x61, 0xDF, 0xE9, 0xC9, 0x149, 0x2BC, 0x4E, 0x3C9, 0x3A9, 0xFFFF, 0xFFFE, 0x20, 0x2E, 0x30, 0x7A, 0x17F, 0x53, 0x73, 0x1F0, 0xFB00]
    scripts = []; metas = []
    m = Model(); m.add("upper %s" % path)
    for s in range(nscripts):
        ents = []
        for k in range(rng.range(1, 6)):
            L = rng.choice([1, 2, 5, 12, 13, 14, 25, 26, 27, 39, 40, 255, rng.range(1, 60)])
            us = []
            while len(us) < L:
                r = rng.below(20)
                if r == 0 and len(us) + 2 <= L:
                    cp = rng.choice([0x10428, 0x10400, 0x1F600, rng.range(0x10000, 0x10FFFF)]) - 0x10000
                    us += [0xD800 + (cp >> 10), 0xDC00 + (cp & 0x3FF)]
                elif r == 1:
                    us.append(rng.range(0xD800, 0xDFFF))      # unpaired surrogate
                elif r == 2 and len(us) > 0 and rng.below(4) == 0:
                    us.append(0)                               # embedded NUL: the reader cuts the name here
                elif r < 8:
                    us.append(rng.choice(pool))
                else:
                    us.append(rng.range(0x21, 0x7E) if rng.below(2) else rng.range(0x80, 0xFFFF))
            sfn = ("E%07d" % (s * 10 + k)).encode() + b"BIN"
            ents.append((us, sfn, m.add("le %s %d" % (hex16(us), lfn_checksum(sfn)))))
        metas.append(ents)
    mo = m.run()
    m2 = Model(); m2.add("upper %s" % path)
    qplan = []
    for s, ents in enumerate(metas):
        sc = list(su0[:3]); off = g.root_off; la = []
        for us, sfn, mi in ents:
            slots = mo[mi].split()[1:]
            for sl in slots:
                sc.append("poke %d %s" % (off, sl)); off += 32
            sc.append("poke %d %s" % (off, (sfn + bytes([0x20]) + bytes(20)).hex())); off += 32
            la.append(m2.add("la %s %s" % (sfn.hex(), " ".join(slots))))
        sc += ["mount 1 0 lossy", "list 0"]
        qs = []
        for us, sfn, mi in ents:
            cut = us[:us.index(0)] if 0 in us else us
            try:
                dec = b"".join(u.to_bytes(2, "big") for u in cut).decode("utf-16-be")
            except UnicodeDecodeError:
                dec = None
            if dec is not None and dec != "":
                qs += [dec, dec.swapcase(), "".join(chr(x) for x in fold(dec, table)), dec + "x"]
            else:
                qs += ["".join(chr(u) if not (0xD800 <= u <= 0xDFFF) else "?" for u in cut) or "zz"]
            qs.append(sfn[:8].decode() + "." + sfn[8:].decode().lower())
        qs = [q for q in qs if "/" not in q and q != ""]
        for q in qs:
            sc.append("open_file 0 %s 0" % hexs(q))
        scripts.append(sc); qplan.append((la, qs))
    mo2 = m2.run()
    res = vlib.run_scripts(scripts, variant)
    m3 = Model(); m3.add("upper %s" % path)
    eqi = []
    for s, (ents, (la, qs)) in enumerate(zip(metas, qplan)):
        row = []
        for q in qs:
            row.append([m3.add("eq %s %s %s %s" % ("u" if variant != "nounicode" else "a", mo2[la[k]].split()[1] if mo2[la[k]].startswith("ok ") else "-",
                                                    sfn.hex(), hexs(q))) for k, (us, sfn, mi) in enumerate(ents)])
        eqi.append(row)
    mo3 = m3.run()
    for s, (ents, (la, qs), rs, sc) in enumerate(zip(metas, qplan, res, scripts)):
        rep.count()
        bad = [o for o in rs if o.kind in ("panic", "hang", "bad")]
        if bad:
            rep.violation("%s: crafted long-name runs: %r" % (variant, bad[0]), {"script": sc, "variant": variant}); continue
        nq = len(qs)
        ls = rs[len(rs) - nq - 1]
        listed = [e[0] for e in ls.extra]
        model_listed = [mo2[i].split()[1] if mo2[i].startswith("ok ") else mo2[i] for i in la]
        if ls.kind != "ok" or listed != model_listed:
            rep.violation("lfn_assemble model gives %r, implementation lists %r" % ([x[:50] for x in model_listed], [x[:50] for x in listed]),
                          {"script": sc, "variant": variant, "theorem_or_correspondence": "C15_lfn_roundtrip / Model.Name.lfn_assemble"}, nofail=True)
            continue
        # direct: a run whose units contain no NUL and at most 255 units is listed unit for unit
        for (us, sfn, mi), got in zip(ents, listed):
            if 0 not in us and got != hex16(us):
                rep.violation("%s: a well-formed long-name run of %d units is listed as %s" % (variant, len(us), got[:60]), {"script": sc, "variant": variant})
        ok = True
        for qi, q in enumerate(qs):
            o = rs[len(rs) - nq + qi]
            got = o.kind == "ok"
            mm = any(mo3[i] == "1" for i in eqi[s][qi])
            # direct folding rule on the listed names
            dm = False
            for (us, sfn, mi), lu in zip(ents, listed):
                try:
                    ln = bytes.fromhex(lu).decode("utf-16-be") if lu != "-" else ""
                except UnicodeDecodeError:
                    ln = ""
                if direct_match(q, ln, alias_bytes_to_str(short_string(sfn)), table):
                    dm = True
            dist["lookup"]["match" if dm else "nomatch"] += 1
            if got != dm:
                rep.violation("%s: lookup %r among crafted entries: %s, folding rule says %s" % (variant, q[:30], o.kind + " " + o.payload, dm),
                              {"script": sc[:len(sc) - nq] + [o.line], "variant": variant}); ok = False; break
            if got != mm:
                rep.violation("eq_name model says %s, implementation %s for %r among crafted entries" % (mm, got, q[:30]),
                              {"script": sc[:len(sc) - nq] + [o.line], "variant": variant, "theorem_or_correspondence": "C15_lookup_sound / Model.Name.eq_name"}, nofail=True)
                ok = False; break
        if ok:
            rep.distinct(("crafted", s, tuple(tuple(e[0]) for e in ents)))
            rep.cov["traces_validated_against_impl"] += 1
    dist["crafted_scripts"] = dist.get("crafted_scripts", 0) + nscripts


def slots_on_disk(rep, variant, names, dist):
    """the long-name slots the library writes for a name = the model's lfn_entries(utf16, checksum of the alias), byte for byte,
    and the reader's result on them = the model's lfn_assemble"""
    su = ["dev 1048576 0", "wlog 0", "format - - - 12 - - - - -", "dump 0 512", "mount 1 0 lossy"]
    script = list(su)
    for n in names:
        script += ["create_file 0 %s 0" % hexs(n), "dump @ROOT 1024", "list 0", "remove 0 %s" % hexs(n)]
    g = namelib.geom_of(vlib.run_scripts([su[:4]], variant)[0][3].payload)
    script = [l.replace("@ROOT", str(g.root_off)) for l in script]
    res = vlib.run_scripts([script], variant)[0]
    m = Model(); plan = []
    for i, n in enumerate(names):
        ops = res[len(su) + 4 * i: len(su) + 4 * i + 4]
        if any(o.kind != "ok" for o in ops):
            rep.violation("%s: create/list/remove of %r failed: %r" % (variant, n[:30], [o for o in ops if o.kind != "ok"][0]), {"script": su + script[len(su) + 4 * i: len(su) + 4 * i + 4]})
            return
        ents = parse_dir(bytes.fromhex(ops[1].payload))
        if len(ents) != 1:
            rep.violation("%s: raw root directory holds %d live entries after one create" % (variant, len(ents)), {"script": su + script[len(su) + 4 * i: len(su) + 4 * i + 2]}); return
        e = ents[0]
        sfn = e["sfn"][:11]
        plan.append((n, e, ops[2].extra[0][0], m.add("le %s %d" % (hex16(units(n)), lfn_checksum(sfn))),
                     m.add("la %s %s" % (sfn.hex(), " ".join(s.hex() for s in e["lfn"]))), m.add("u16 %s" % hexs(n))))
    mo = m.run()
    for n, e, listed, i_le, i_la, i_u in plan:
        rep.count()
        want = mo[i_le].split()[1:]
        got = [s.hex() for s in e["lfn"]]
        rp = {"script": su + ["create_file 0 %s 0" % hexs(n), "dump %d 1024" % g.root_off, "list 0"], "variant": variant}
        if mo[i_u] != hex16(units(n)):
            rep.violation("utf16_encode model differs from str::encode_utf16 for %r" % n[:30], dict(rp, theorem_or_correspondence="C15_utf16_roundtrip / Model.Str.utf16_encode"), nofail=True)
        elif got != want:
            rep.violation("lfn_entries model differs from the slots on disk for %r: model %r disk %r" % (n[:30], want[:2], got[:2]),
                          dict(rp, theorem_or_correspondence="C15_lfn_roundtrip / Model.Name.lfn_entries"), nofail=True)
        elif mo[i_la] != "ok " + listed:
            rep.violation("lfn_assemble model %s differs from the listing %s for %r" % (mo[i_la][:60], listed[:60], n[:30]),
                          dict(rp, theorem_or_correspondence="C15_lfn_roundtrip / Model.Name.lfn_assemble"), nofail=True)
        else:
            rep.distinct(("slots", n)); rep.cov["traces_validated_against_impl"] += 1
    dist["slot_images_compared"] = dist.get("slot_images_compared", 0) + len(plan)


def run(rep, tier, seed):
    rng = vlib.Rng(seed)
    dist = {"outcome": {}, "lookup": {"match": 0, "nomatch": 0}, "rename": {"ok": 0}, "by_tag": {}, "name_bytes": {}}
    for variant in VARIANTS:
        table, path = namelib.upper_table(variant)
        inv = {}
        for cp, ups in table.items():
            if len(ups) == 1:
                inv.setdefault(ups[0], cp)
        streams = []
        lens = gen_length_cases(table, inv)
        asc = gen_ascii_cases(table, inv)
        dots = gen_dotspace_cases(table, inv)
        cases = gen_casepair_cases(table, inv, variant)
        if variant == "default":
            streams = [("len", lens, CONFS[0]), ("ascii", asc, CONFS[0]), ("dots", dots, CONFS[0]), ("case", cases, CONFS[0]),
                       ("aliasx", gen_aliasx_cases(table, inv), CONFS[0]), ("aliasx32", gen_aliasx_cases(table, inv), CONFS[2]),
                       ("ffff", gen_ffff_cases(table, inv), CONFS[0]), ("ffff32", gen_ffff_cases(table, inv), CONFS[2]),
                       ("bmp", gen_scalar_cases(tier, rng, table, inv), CONFS[0]),
                       ("random", gen_random_cases(tier, rng, table, inv), CONFS[1]),
                       ("len16", lens[::3], CONFS[1]), ("dots32", dots, CONFS[2]), ("ascii32", asc[::2], CONFS[2])]
            if tier == "thorough":
                streams += [("case16", cases, CONFS[1]), ("len32", lens, CONFS[2])]
        else:
            streams = [("case", cases, CONFS[0]), ("ascii", asc[::2], CONFS[0]), ("len", lens[::5], CONFS[0]), ("aliasx", gen_aliasx_cases(table, inv), CONFS[0]), ("ffff", gen_ffff_cases(table, inv), CONFS[0]),
                       ("random", gen_random_cases("quick", rng, table, inv)[::3 if tier == "quick" else 1], CONFS[2])]
        for tag, cs, conf in streams:
            # keep scripts moderate: chunks of 20000 cases
            for i in range(0, len(cs), 20000):
                run_cases(rep, cs[i:i + 20000], conf, variant, table, path, dist, sample_tag=cs[0].tag if i == 0 and variant == "default" else None)
            dist["by_tag"][variant + ":" + tag] = len(cs)
            for c in cs[:: max(1, len(cs) // 2000)]:
                b = len(c.name.encode())
                k = "0" if b == 0 else "1-8" if b <= 8 else "9-64" if b <= 64 else "65-255" if b <= 255 else "256+"
                dist["name_bytes"][k] = dist["name_bytes"].get(k, 0) + 1
        slash_cases(rep, variant, dist)
        rn = [c.name for c in dots[::3]] + [c.name for c in asc[::5]] + [c.name for c in lens[::17]] + ["", "x" * 256, "\U0001F600", "ok name.txt", "ß", "a\u0000"]
        rename_and_frame(rep, rng, variant, table, inv, [n for n in rn if "/" not in n], dist)
        crafted_entries(rep, rng, tier, variant, table, path, dist)
        case_only_rename_probe(rep, variant, dist)
        sl = ["a", "x" * 12, "x" * 13, "x" * 14, "y" * 26, "z" * 255, "abc￿", "￿" * 13, "￿" * 26, "e￿￿", "€" * 85, "ä" * 127 + "b",
              "Mixed Case.Name.txt", ".hidden", "a.", "..."] + ["n" * L for L in range(1, 80)]
        slots_on_disk(rep, variant, sl, dist)
    rep.cov["distribution"] = dist
    rep.cov["rule"] = ("one case = one candidate name driven through create_file/create_dir (+ list, 3-5 lookups, remove) or rename in a directory holding "
                       "a decoy entry; distinct = distinct (name, kind, lookup set) that passed the direct statement (outcome = name rules, no device write "
                       "for a rejected name, listing = UTF-16 units of the name, lookup result = equality of case-folded spellings with the long name or "
                       "the alias) AND the model comparison (validate_long_name, alias_for, eq_name, lfn_entries bytes on disk, lfn_assemble). Streams: every "
                       "byte length 0..300 (ASCII, 2-byte and 3-byte compositions), every ASCII character alone/first/middle/last, all strings of dots and "
                       "spaces up to 5 plus long ones, every BMP scalar value (quick: one of first/middle/last by cp mod 3, thorough: all three), astral sample, "
                       "every row of the executor's to_uppercase table incl. multi-character expansions (nounicode build: ASCII table + non-ASCII pairs that must "
                       "not match), path-separator probes, rename/create_dir frame checks with device page comparison, crafted long-name slot runs")
