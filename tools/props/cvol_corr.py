"""Whole-DEVICE correspondence of the fixed root directory operations (coq/Model/VolDir.v: vol_create_empty_file_root,
vol_remove_empty_file_root, vol_rename_in_root = the slot layer of Model/DirSlots.v embedded into images; theorems C01_vol_* /
C03_vol_* of Props/C01.v, Props/C03.v) with the real library.  NOT a registered property: a helper stream called from
tools/props/c01.py (like cdir_corr.py, which compares only the directory region).

Per history: a small FAT12 / FAT16 volume (root directory filling whole sectors: Proofs/VolDirProofs.fixed_root_geom) is
formatted by the REAL format_volume on a device with some fill byte; the model formats the same request (Model/FormatImage.v) and
from then on works on ITS OWN image only.  Every operation runs in its own mount .. unmount bracket (so the dirty bit of the
status byte, Model/Flags.v, is set and cleared again) and afterwards EVERY 4096-byte page of the device that holds a byte other
than the fill byte (`pages`) is compared with the model's image (md5 per page): boot sector, both FAT copies, root region,
data area.  Outcomes are compared too (Ok / existing file / error kind).
So that FAT and data area are not trivially blank, a prelude and occasional later steps let the library do things this model does
not cover (a file with data, a sub-directory, a file written later); after such a step, and after an operation the model declines
("na": the entry owns clusters or is a directory), the model is re-synchronised on the library's own pages (`img`).  Files WITH
clusters are renamed by the model (rename does not touch the FAT).
At the end of a history the model's image is decoded by Spec/Abs.abs and its root names are compared with the library's own `list`.
Directly on the implementation, independent of the model: an operation the model covers must leave every page outside the root
region byte-identical (after unmount) - the frame theorem C01_vol_frame evaluated on the device.
RESPELL WITH A SECOND MATCH (D27, fixed by 7e5011a): the deterministic families of cdir_corr.RESPELL run here too, on whole
devices (the aimed rename must answer AlreadyExists and leave every page as it was; theorem C03_vol_rename_keeps_wf_closed).
Model-independent: the library's final listing must not show two long names equal under the executor's case folding.
A disagreement with the model is reported nofail=True (theorem_or_correspondence); a frame failure on the device or a
duplicate in the final listing is a failing input (replay = the script).

SUB-DIRECTORY WITHOUT GROWTH (run_sub_stream; Model/VolChainDir.v, theorems C01_volchain_*): histories of create_file / remove /
rename inside ONE sub-directory "sub" of the root (created by the library in the prelude; its chain is read from the model's
decode of the library's pages), with few short names so that the directory stays inside its first cluster.  After every op
(own mount .. unmount bracket) the whole device is compared with the model's image as above.  The chain model leaves out the
write-back of the directory's own entry in its parent (modification stamp): the 32 bytes of that root slot are taken from the
library's page (`poke`) before the comparison, and checked directly instead: the root region may change ONLY in that slot, and
there only in the access-date / modification time / date fields (bytes 18-19, 22-25).  Directly on the device as well
(independent of the model): every other byte outside the clusters of the directory's chain is unchanged - the frame theorem
C01_volchain_frame.  An op the model declines ("na": the directory would grow, the entry owns clusters or is a directory)
re-synchronises the model on the library's pages.

SUB-DIRECTORY WITH GROWTH AND OUT-OF-SPACE (run_grow_stream; Model/VolChainGrow.v vol_create_file_grow, theorems C01_volchain_grow_*,
C03_volchain_grow_*, C05_volchain_grow_*): small FAT12 volumes (geometry through the library's own boot-sector hook,
vlib.sectors_for_clusters) and one FAT16 volume; create_file of names needing 2 .. 21 slots inside "sub" until the directory has grown
several times ("grow" sessions), until the volume is full with 0 .. 3 clusters left for the directory ("full" sessions: both the
success and the NotEnoughSpace-after-a-prefix-of-the-run outcomes, also a 21-slot run that needs TWO clusters when one is left), and
with several creates inside ONE mount (the FS-info hint carried from one allocation to the next).  After every mount .. unmount
bracket the whole device is compared with the model's image (as above: parent-entry stamp poked and checked on the device), the
outcomes are compared, and Spec/Wf.wf_issues is evaluated on the device image: no issue after successes; after NotEnoughSpace at
most ONE issue, an orphan long-name run in that directory (the recorded class `nospace-during-entry-write`, which the model
reproduces byte for byte: C03_volchain_grow_nospace_residue) - anything else is a failing input.

ROOT DIRECTORY OF A FAT32 VOLUME, WITHOUT GROWTH (run_root32_stream; Model/Vol32Root.v): volumes of >= 65525 clusters (34 .. 69 MB
devices filled with 0, so only the handful of non-zero 4096-byte pages travels), create_file / remove / rename in the ROOT, whose
chain starts at BPB_RootClus and has no parent entry.  Histories: plain, "fill" (distinct long names until the root must grow - the
model declines, "na"), "bigroot" (the library first grows the root to 2 .. 3 clusters, allocated after a data file, and leaves holes),
"owners" (a data file and a sub-directory in the root: remove of them is declined).  Before every call the model is re-based on the
library's previous pages (`imgq`); the root chain read from the device's FAT by this module must be the model's root32_chain; after
the call (own mount .. unmount bracket) outcome and EVERY non-zero page are compared, and directly on the device every byte outside
the clusters of the root chain must be unchanged - including the status byte at offset 65 (set by the first write, cleared by
unmount) and the FS-info sector (not written: nothing was allocated or freed); nothing is excluded.
GROWTH OF THE FAT32 ROOT: every create is also run through Vol32Root.vol32_root_create_grow (model r32grow: the FS-info latch read from
the image by VolFsInfo.vol32_mount, the create with allocation + zero fill, then the FS-info write-back of unmount applied in the glue by
VolFsInfo.vol32_flush_fs_info).  A create the no-growth model declines is compared through it: outcome, every non-zero page (so also
the FS-info sector as the library's unmount rewrote it), the root chain afterwards (device FAT vs model), the FS-info free / next
words vs the model's latch; directly on the device: only the clusters of the new root chain, the FAT entries (every copy) of the old
last and the new clusters and the two FS-info hint words may change.  A create that fits must get the same answer from both models.
Renames that make the root grow, removes / renames of entries owning clusters or of directories stay "na" (counted)."""
import hashlib
import vlib, namelib, fatimg
from vlib import hexs
from props import cdir_corr

# (name, device bytes, the 9 format tokens (executor `format` = model `fmt`), fill byte)
CONFS = [
    ("fat12-64s-root16", 64 * 512, "512 64 512 12 16 2 - - -", 0),
    ("fat12-400s-root32-label", 400 * 512 + 4096, "512 400 512 12 32 2 - - 4d59564f4c554d45202020", 0xD1),
    ("fat16-5000s-root512", 5000 * 512, "512 5000 512 16 512 2 - - -", 0),
    ("fat12-120s-root16-1fat", 120 * 512, "512 120 512 12 16 1 240 305419896 -", 0xE5),
    ("fat12-1k-sectors-root32", 200 * 1024, "1024 200 1024 12 32 2 - - -", 0xFF),
    ("fat16-18000s-2k-clusters-root64", 18000 * 512, "512 18000 2048 16 64 2 - - 2020202020202020202020", 0),
]
STATUS_OFF_1216 = 0x25
CORR = "Model/VolDir.v vol_create_empty_file_root / vol_remove_empty_file_root / vol_rename_in_root (model cvol; C01_vol_frame, C01_vol_create_decodes, C01_vol_format_create_decodes) vs src/dir.rs + src/fs.rs on the whole device image"

NAMES = cdir_corr.NAMES
BAD = cdir_corr.BAD
CLOCK0 = (2024, 2, 29, 13, 37, 59, 990)


def gen_history(rng, nops, small_root):
    """-> prelude lines (library only), ops.  op = ("clock", ...) | ("create", name) | ("remove", name) | ("rename", src, dst)
    | ("write", name) (library only: a new file with data).  A light shadow of names aims removes / renames."""
    prelude = []
    live, owners, dirs = [], set(), set()
    if rng.chance(2, 3):
        prelude += ["create_file 0 %s 5" % hexs("data.bin"), "write_pat 5 %d 7" % rng.choice([1, 511, 512, 1500, 4000]), "drop_file 5"]
        live.append("data.bin"); owners.add("data.bin")
    if rng.chance(1, 2):
        prelude += ["create_dir 0 %s 6" % hexs("sub"), "create_file 6 %s 7" % hexs("inner.txt"), "write_pat 7 300 1", "drop_file 7", "drop_dir 6"]
        live.append("sub"); dirs.add("sub")
    names = [n for n in NAMES if len(n) <= (60 if small_root else 300)]
    ops = []
    wserial = 0
    for _ in range(nops):
        r = rng.below(100)
        nm = rng.choice(names) if rng.chance(92, 100) else rng.choice(BAD)
        if r < 6:
            ops.append(("clock", 1980 + rng.below(128), 1 + rng.below(12), 1 + rng.below(28), rng.below(24), rng.below(60), rng.below(60), rng.below(1000)))
        elif r < 10:
            wserial += 1
            w = "w%d.dat" % wserial
            ops.append(("write", w, rng.choice([1, 700, 1024, 2500]))); live.append(w); owners.add(w)
        elif r < 52 or not live:
            ops.append(("create", nm)); live.append(nm)
        elif r < 72:
            t = rng.choice(live) if rng.chance(85, 100) else nm
            if rng.chance(30, 100):
                t = t.upper() if rng.chance(1, 2) else t.lower()
            ops.append(("remove", t))
            for x in [x for x in live if x.upper() == t.upper()]:
                live.remove(x); owners.discard(x); dirs.discard(x)
        else:
            s = rng.choice(live) if rng.chance(88, 100) else nm
            how = rng.below(100)
            d = nm if how < 60 else cdir_corr.case_variant(rng, s) if how < 85 else rng.choice(live) if how < 95 else s
            ops.append(("rename", s, d))
            if s in live and d not in live and rng.chance(2, 3):
                live.remove(s); live.append(d)
                if s in owners:
                    owners.discard(s); owners.add(d)
                if s in dirs:
                    dirs.discard(s); dirs.add(d)
    return prelude, ops


def build_script(conf, prelude, ops):
    """-> lines, index of the `pages` after format, index of the `pages` after the prelude (or None), marks per op
    (result line index, pages line index; clock: (None, None)), index of the final `list`"""
    name, dev, fmt, fill = conf
    lines = ["dev %d %d" % (dev, fill), "wlog 0", "format " + fmt, "pages", "clock %d %d %d %d %d %d %d" % CLOCK0]
    p_format = 3
    p_prelude = None
    if prelude:
        lines += ["mount 1 0 lossy"] + prelude + ["unmount", "pages"]
        p_prelude = len(lines) - 1
    lines.append("wlog 1")        # the device writes of the operations: was the status byte written (Model/VolStatus.v)?
    marks = []
    h = 10
    for op in ops:
        if op[0] == "clock":
            lines.append("clock %d %d %d %d %d %d %d" % op[1:])
            marks.append((None, None))
            continue
        lines.append("mount 1 0 lossy")
        if op[0] == "create":
            lines.append("create_file 0 %s %d" % (hexs(op[1]), h)); ri = len(lines) - 1
            lines.append("drop_file %d" % h); h += 1
        elif op[0] == "write":
            lines.append("create_file 0 %s %d" % (hexs(op[1]), h)); ri = len(lines) - 1
            lines += ["write_pat %d %d %d" % (h, op[2], h), "drop_file %d" % h]; h += 1
        elif op[0] == "remove":
            lines.append("remove 0 %s" % hexs(op[1])); ri = len(lines) - 1
        else:
            lines.append("rename 0 %s 0 %s" % (hexs(op[1]), hexs(op[2]))); ri = len(lines) - 1
        lines += ["unmount", "pages"]
        marks.append((ri, len(lines) - 1))
    lines += ["mount 1 0 lossy", "list 0", "unmount"]
    return lines, p_format, p_prelude, marks, len(lines) - 2


def pages_of(res):
    """`pages` payload -> {off: hex}"""
    t = res.payload.split(" ") if res.payload else []
    return {int(t[i]): t[i + 1] for i in range(0, len(t) - 1, 2)}


def md5s(pages):
    return {o: hashlib.md5(bytes.fromhex(h)).hexdigest() for o, h in pages.items()}


def parse_digest(tokens):
    return {int(x.split(":")[0]): x.split(":")[1] for x in tokens if ":" in x}


def img_line(fill, pages):
    return "img %d %s" % (fill, " ".join("%d %s" % (o, pages[o]) for o in sorted(pages)))


def outside_root_same(before, after, g, fill):
    """every byte outside the root region equal (pages as {off: hex}); -> None or the first differing device offset"""
    lo, hi = g.root_off, g.root_off + g.root_entries * 32
    blank = "%02x" % fill * 4096
    for o in sorted(set(before) | set(after)):
        a, b = before.get(o, blank), after.get(o, blank)
        if a == b:
            continue
        for i in range(4096):
            if a[2 * i:2 * i + 2] != b[2 * i:2 * i + 2] and not (lo <= o + i < hi):
                return o + i
    return None


def run_stream(rep, tier, seed):
    rng = vlib.Rng(seed * 104729 + 71)
    nhist = 6 if tier == "quick" else 60
    nops = 24 if tier == "quick" else 45
    jobs = []
    for i in range(nhist):
        conf = CONFS[i % len(CONFS)]
        prelude, ops = gen_history(rng, nops, "root16" in conf[0])
        lines, pf, pp, marks, li = build_script(conf, prelude, ops)
        jobs.append((conf, prelude, ops, lines, pf, pp, marks, li))
    # respell-with-a-second-match histories (D27): one per family, ending right after the aimed renames
    nrespell = 0
    for fi, fam in enumerate(cdir_corr.RESPELL):
        conf = CONFS[fi % len(CONFS)]
        rops, aimed = cdir_corr.respell_ops(fam, "")
        ops = [("create" if o[0] == "create_file" else o[0],) + tuple(o[1:]) for o in rops[:max(aimed) + 1]]
        lines, pf, pp, marks, li = build_script(conf, [], ops)
        jobs.append((conf, [], ops, lines, pf, pp, marks, li))
        nrespell += 1
    results = vlib.run_scripts([j[3] for j in jobs])
    utable, table = namelib.upper_table("default")
    ndup = 0
    for ji, (conf, prelude, ops, lines, pf, pp, marks, li) in enumerate(jobs):
        if results[ji][li].kind == "ok":
            d = cdir_corr.dup_long(results[ji][li].extra, utable)
            if d is not None:
                ndup += 1
                rep.violation("[cvol] %s: at the end of the history the root lists two entries whose long names are equal under case "
                              "folding (%r and %r): duplicate names (C03 WDupLong; D27)" % (conf[0], d[0], d[1]), {"script": lines})
    resync_after = set()         # (job, op index): the model declined this op ("na") - it is re-synchronised on the library's pages
    geoms = []
    for ji, (conf, prelude, ops, lines, pf, pp, marks, li) in enumerate(jobs):
        p0 = pages_of(results[ji][pf]) if results[ji][pf].kind == "ok" else {}
        geoms.append(fatimg.Geom(bytes.fromhex(p0[0])[:64]) if 0 in p0 else None)
    for _pass in range(4):
        mlines = ["upper " + table]
        plan = []            # per model line after the first: (job index, what, op index)
        for ji, (conf, prelude, ops, lines, pf, pp, marks, li) in enumerate(jobs):
            res = results[ji]
            fill = conf[3]
            mlines.append("fmt %s %d" % (conf[2], fill)); plan.append((ji, "fmt", None))
            if pp is not None and res[pp].kind == "ok":
                mlines.append(img_line(fill, pages_of(res[pp]))); plan.append((ji, "img", None))
            clock = CLOCK0
            for oi, op in enumerate(ops):
                ri, pi = marks[oi]
                if op[0] == "clock":
                    clock = op[1:]
                    continue
                if res[ri].kind in ("skipped", "bad", "hang", "panic") or res[pi].kind != "ok":
                    break
                if op[0] == "write":
                    mlines.append(img_line(fill, pages_of(res[pi]))); plan.append((ji, "img", oi))
                    continue
                if op[0] == "create":
                    mlines.append("create %s %d %d %d %d %d %d %d" % ((hexs(op[1]),) + tuple(clock)))
                elif op[0] == "remove":
                    mlines.append("remove %s" % hexs(op[1]))
                else:
                    mlines.append("rename %s %s" % (hexs(op[1]), hexs(op[2])))
                plan.append((ji, "op", oi))
                if (ji, oi) in resync_after:
                    mlines.append(img_line(fill, pages_of(res[pi]))); plan.append((ji, "img", oi))
            mlines.append("root"); plan.append((ji, "root", None))
        out = vlib.model_run("cvol", "\n".join(mlines) + "\n")[1:]
        assert len(out) == len(plan), (len(out), len(plan))
        declined = set((ji, oi) for k, (ji, what, oi) in enumerate(plan) if what == "op" and out[k].split(" ")[0] == "na")
        if declined <= resync_after:
            break
        resync_after |= declined
    # ---- evaluation
    nviol = ncmp = nna = nstale = nframe = 0
    nmark = [0, 0]               # operations whose status write was compared / of them marked by the library
    kinds = {}
    chained = {}                 # longest run of compared ops per history on the model's own image (no resync in between)
    resync_needed = {}           # job -> op index after which the model declined: later comparisons are "stale"
    pages_total = 0
    for k, (ji, what, oi) in enumerate(plan):
        conf, prelude, ops, lines, pf, pp, marks, li = jobs[ji]
        res = results[ji]
        fill = conf[3]
        mo = out[k].split(" ")
        if what == "fmt":
            rep.count()
            lib = md5s(pages_of(res[pf])) if res[pf].kind == "ok" else None
            if mo[0] != "ok" or lib is None or parse_digest(mo[2:]) != lib:
                nviol += 1
                rep.violation("[cvol] %s: the formatted device differs from the model's formatted image" % conf[0],
                              {"theorem_or_correspondence": CORR, "script": lines[:pf + 1]}, nofail=True)
            chained[ji] = [0, 0]
            continue
        if what == "img":
            chained[ji][1] = 0
            continue
        if what == "root":
            # decoded root of the MODEL's image vs the library's own listing of ITS device
            if mo[0] == "stale" or res[li].kind != "ok":
                continue
            head, _, ents = out[k].partition(": ")
            ments = [e for e in ents.split(";") if e]
            mlfn = sorted(e.split(",")[0].lower() for e in ments if e.split(",")[0] != "-")
            llfn = sorted(e[0].lower() for e in res[li].extra if e and e[0] != "-")
            rep.count()
            if head.split()[1] != "0" or mlfn != llfn or len(ments) != len(res[li].extra):
                nviol += 1
                rep.violation("[cvol] %s: the root decoded from the model's image (Spec/Abs.abs: %d long names, %s issues) is not what the "
                              "library lists (%d long names)" % (conf[0], len(mlfn), head.split()[1], len(llfn)),
                              {"theorem_or_correspondence": CORR, "script": lines}, nofail=True)
            continue
        op = ops[oi]
        ri, pi = marks[oi]
        ir = res[ri]
        rep.count()
        if mo[0] == "na":
            nna += 1
            resync_needed[ji] = oi
            kinds["na (entry owns clusters / is a directory)"] = kinds.get("na (entry owns clusters / is a directory)", 0) + 1
            continue
        if mo[0] == "stale":
            nstale += 1
            continue
        ncmp += 1
        # model outcome
        if mo[0] == "ok" and op[0] == "create":
            mtag, dg = "ok", mo[3:]
        elif mo[0] in ("ok", "exists"):
            mtag, dg = "ok", mo[1:]
        elif mo[0] == "err":
            mtag, dg = "err " + mo[1], mo[2:]
        else:
            mtag, dg = mo[0], mo[1:]
        itag = "ok" if ir.kind == "ok" else (ir.kind + " " + ir.payload.split()[0] if ir.payload else ir.kind)
        kinds[op[0] + " " + (mo[0] if mo[0] != "err" else mtag)] = kinds.get(op[0] + " " + (mo[0] if mo[0] != "err" else mtag), 0) + 1
        lib_pages = pages_of(res[pi])
        pages_total += len(lib_pages)
        lib = md5s(lib_pages)
        mod = parse_digest(dg)
        chained[ji][1] += 1
        chained[ji][0] = max(chained[ji])
        if mtag != itag or lib != mod:
            nviol += 1
            diff = sorted(o for o in set(lib) | set(mod) if lib.get(o) != mod.get(o))
            if nviol <= 3:
                rep.violation("[cvol] %s: model and implementation disagree on %s %r: outcome model %s / library %s; %d device page(s) differ%s"
                              % (conf[0], op[0], op[1:], mtag, itag, len(diff), (" (first at offset %d)" % diff[0]) if diff else ""),
                              {"theorem_or_correspondence": CORR, "script": lines[:pi + 1]}, nofail=True)
            continue
        # ---- the dirty flag (Model/VolStatus.v vols_*; C12_vol_create / _remove_empty / _rename): the library wrote the status byte
        # during this call iff the model's mounted operation did
        mk = [t for t in mo if t in ("mark0", "mark1")]
        if mk:
            lib_marked = any(off == STATUS_OFF_1216 for off, _, _ in ir.writes())
            nmark[0] += 1; nmark[1] += int(lib_marked)
            if (mk[0] == "mark1") != lib_marked:
                nviol += 1
                rep.violation("[cvol] %s: %s %r: the library %s the status byte (offset 0x25) during the call, the mounted model operation %s"
                              % (conf[0], op[0], op[1:], "wrote" if lib_marked else "did not write", "marks" if mk[0] == "mark1" else "does not mark"),
                              {"theorem_or_correspondence": "Model/VolStatus.v vols_create_empty_file_root / vols_remove_empty_file_root / "
                               "vols_rename_in_root (C12_vol_create, C12_vol_remove_empty, C12_vol_rename)", "script": lines[:pi + 1]}, nofail=True)
                continue
        # ---- frame, directly on the device (independent of the model): nothing outside the root region changed
        prev_pi = None
        for oj in range(oi - 1, -1, -1):
            if marks[oj][1] is not None:
                prev_pi = marks[oj][1]; break
        if prev_pi is None:
            prev_pi = pp if pp is not None else pf
        g = geoms[ji]
        if g is not None and res[prev_pi].kind == "ok":
            bad = outside_root_same(pages_of(res[prev_pi]), lib_pages, g, fill)
            if bad is not None:
                nframe += 1
                rep.violation("[cvol] %s: %s %r (an operation on a root entry without clusters / a rename of a file) changed device byte %d, "
                              "which lies outside the root directory region [%d, %d)" % (conf[0], op[0], op[1:], bad, g.root_off, g.root_off + g.root_entries * 32),
                              {"script": lines[:pi + 1]})
        rep.distinct(("cvol", conf[0], op[0], mtag, op[1:], lib.get(max(lib)) if lib else None))
    rep.cov["cvol_correspondence"] = {
        "histories": nhist + nrespell, "respell_second_match_histories_D27": nrespell, "duplicate_long_names_in_final_listing": ndup, "configs": [c[0] for c in CONFS[:min(nhist, len(CONFS))]], "ops_compared_whole_device": ncmp,
        "disagreements": nviol, "frame_failures_on_device": nframe, "declined_by_model_na": nna, "skipped_stale": nstale,
        "model_outcomes": kinds, "device_pages_compared": pages_total, "status_write_compared_ops": nmark[0], "status_write_marked": nmark[1],
        "longest_model_only_chain_per_history": [chained[j][0] for j in sorted(chained)]}
    nviol += run_sub_stream(rep, tier, seed)
    nviol += run_root32_stream(rep, tier, seed)
    nviol += run_grow_stream(rep, tier, seed)
    from props import cvoltree_corr          # directories in the fixed root (Model/VolDirTree.v): create_dir / remove
    nviol += cvoltree_corr.run_tree_stream(rep, tier, seed)
    return nviol


# ---------------------------------------------------------------------------------------------------------------------------
SUB_CONFS = [
    ("fat12-400s-root32-sub", 400 * 512 + 4096, "512 400 512 12 32 2 - - -", 0xD1),
    ("fat16-9000s-1k-clusters-root512-sub", 9000 * 512, "512 9000 1024 16 512 2 - - -", 0),
    ("fat12-1k-sectors-root32-sub", 200 * 1024, "1024 200 1024 12 32 2 - - -", 0xFF),
]
SUB_NAMES = ["a", "B", "b", "file.txt", "File.TXT", "x" * 13, "straße", "é.x", "s s", "ß~1", "ss~1", "~tilde", "lower.c", "q.q"]
SUB_SFN = b"SUB        "
CORR_SUB = ("Model/VolChainDir.v vol_create_empty_file_chain / vol_remove_empty_file_chain / vol_rename_in_chain (model cvol ccreate / "
            "cremove / crename; C01_volchain_frame, C01_volchain_create_decodes, C01_volchain_create_in_root_decodes_partial) vs "
            "src/dir.rs + src/file.rs on the whole device image")


def gen_sub_history(rng, nops):
    live = []
    ops = []
    for _ in range(nops):
        r = rng.below(100)
        nm = rng.choice(SUB_NAMES) if rng.chance(94, 100) else rng.choice(BAD)
        if nm == "":
            nm = "bad:name"        # "sub/" is the path of the directory itself (split_path trims '/'): not a name of this layer
        if r < 6:
            ops.append(("clock", 1980 + rng.below(128), 1 + rng.below(12), 1 + rng.below(28), rng.below(24), rng.below(60), rng.below(60), rng.below(1000)))
        elif r < 45 or not live:
            ops.append(("create", nm)); live.append(nm)
        elif r < 68:
            t = rng.choice(live) if rng.chance(85, 100) else nm
            if rng.chance(30, 100):
                t = t.upper() if rng.chance(1, 2) else t.lower()
            ops.append(("remove", t))
            for x in [x for x in live if x.upper() == t.upper()]:
                live.remove(x)
        else:
            s_ = rng.choice(live) if rng.chance(90, 100) else nm
            how = rng.below(100)
            d = nm if how < 55 else cdir_corr.case_variant(rng, s_) if how < 85 else rng.choice(live) if how < 95 else s_
            ops.append(("rename", s_, d))
            if s_ in live and d not in live and rng.chance(2, 3):
                live.remove(s_); live.append(d)
    return ops


def build_sub_script(conf, ops):
    name, dev, fmt, fill = conf
    lines = ["dev %d %d" % (dev, fill), "wlog 0", "format " + fmt, "pages", "clock %d %d %d %d %d %d %d" % CLOCK0,
             "mount 1 0 lossy", "create_dir 0 %s 1" % hexs("sub"), "drop_dir 1", "unmount", "pages"]
    pp = len(lines) - 1
    marks = []
    h = 10
    for op in ops:
        if op[0] == "clock":
            lines.append("clock %d %d %d %d %d %d %d" % op[1:]); marks.append((None, None)); continue
        lines.append("mount 1 0 lossy")
        if op[0] == "create":
            lines.append("create_file 0 %s %d" % (hexs("sub/" + op[1]), h)); ri = len(lines) - 1
            lines.append("drop_file %d" % h); h += 1
        elif op[0] == "remove":
            lines.append("remove 0 %s" % hexs("sub/" + op[1])); ri = len(lines) - 1
        else:
            lines.append("rename 0 %s 0 %s" % (hexs("sub/" + op[1]), hexs("sub/" + op[2]))); ri = len(lines) - 1
        lines += ["unmount", "pages"]
        marks.append((ri, len(lines) - 1))
    lines += ["mount 1 0 lossy", "open_dir 0 %s 2" % hexs("sub"), "list 2", "unmount"]
    return lines, 3, pp, marks, len(lines) - 2


def dev_bytes(pages, fill, off, n):
    """n bytes of the device at off, from a {page off: hex} map"""
    out = bytearray()
    while n > 0:
        pg = off - off % 4096
        h = pages.get(pg)
        k = min(n, pg + 4096 - off)
        out += bytes.fromhex(h[2 * (off - pg):2 * (off - pg + k)]) if h is not None else bytes([fill]) * k
        off += k; n -= k
    return bytes(out)


def sub_slot_off(pages, fill, g):
    """device offset of the root slot holding the short entry SUB, or None"""
    root = dev_bytes(pages, fill, g.root_off, g.root_entries * 32)
    for k in range(0, len(root), 32):
        if root[k] == 0:
            break
        if root[k:k + 11] == SUB_SFN and root[k + 11] & 0x3f != 0x0f and root[k + 11] & 0x10:
            return g.root_off + k
    return None


def run_sub_stream(rep, tier, seed):
    rng = vlib.Rng(seed * 15485863 + 29)
    nhist = 3 if tier == "quick" else 36
    nops = 14 if tier == "quick" else 22
    jobs = []
    for i in range(nhist):
        conf = SUB_CONFS[i % len(SUB_CONFS)]
        ops = gen_sub_history(rng, nops)
        lines, pf, pp, marks, li = build_sub_script(conf, ops)
        jobs.append((conf, ops, lines, pf, pp, marks, li))
    results = vlib.run_scripts([j[2] for j in jobs])
    utable, table = namelib.upper_table("default")
    # ---- model input: every op is predicted from the library's OWN previous pages (img), so one divergence does not cascade;
    #      the chain of "sub" is looked up by the model in its decode of those pages
    mlines = ["upper " + table]
    plan = []
    for ji, (conf, ops, lines, pf, pp, marks, li) in enumerate(jobs):
        res = results[ji]
        fill = conf[3]
        if res[pp].kind != "ok" or 0 not in pages_of(res[pp]):
            rep.violation("[cvol-sub] %s: the prelude (format, create_dir sub) failed" % conf[0],
                          {"theorem_or_correspondence": CORR_SUB, "script": lines[:pp + 1]}, nofail=True)
            continue
        prev = pp
        clock = CLOCK0
        g = fatimg.Geom(bytes.fromhex(pages_of(res[pp])[0])[:64])
        for oi, op in enumerate(ops):
            ri, pi = marks[oi]
            if op[0] == "clock":
                clock = op[1:]; continue
            if res[ri].kind in ("skipped", "bad", "hang", "panic") or res[pi].kind != "ok":
                break
            before, after = pages_of(res[prev]), pages_of(res[pi])
            mlines.append(img_line(fill, before)); plan.append(None)
            mlines.append("cdir " + SUB_SFN.hex()); plan.append(None)
            if op[0] == "create":
                mlines.append("ccreate %s %d %d %d %d %d %d %d" % ((hexs(op[1]),) + tuple(clock)))
            elif op[0] == "remove":
                mlines.append("cremove %s" % hexs(op[1]))
            else:
                mlines.append("crename %s %s" % (hexs(op[1]), hexs(op[2])))
            plan.append(None)
            so = sub_slot_off(after, fill, g)
            mlines.append("poke %d %s" % (so if so is not None else g.root_off, dev_bytes(after, fill, so, 32).hex() if so is not None else ""))
            plan.append((ji, oi, prev, g, so))
            prev = pi
    out = vlib.model_run("cvol", "\n".join(mlines) + "\n")[1:]
    assert len(out) == len(plan), (len(out), len(plan))
    ncmp = nviol = nna = nframe = nstamp = 0
    kinds = {}
    for k, pl in enumerate(plan):
        if pl is None:
            continue
        ji, oi, prev, g, so = pl
        conf, ops, lines, pf, pp, marks, li = jobs[ji]
        res = results[ji]
        fill = conf[3]
        op = ops[oi]
        ri, pi = marks[oi]
        ir = res[ri]
        rep.count()
        chain_line, mo, po = out[k - 2].split(" "), out[k - 1].split(" "), out[k].split(" ")
        itag = "ok" if ir.kind == "ok" else (ir.kind + " " + ir.payload.split()[0] if ir.payload else ir.kind)
        if chain_line[0] != "ok":
            nviol += 1
            rep.violation("[cvol-sub] %s: the model's decode of the library's device does not show the directory SUB in the root" % conf[0],
                          {"theorem_or_correspondence": CORR_SUB, "script": lines[:pi + 1]}, nofail=True)
            continue
        chain = [int(x) for x in chain_line[1].split(",")]
        before, after = pages_of(res[prev]), pages_of(res[pi])
        # ---- directly on the device (independent of the model): the frame of an operation inside the directory
        if so is not None:
            lo = [g.cluster_off(c) for c in chain]
            bad = None
            blank = "%02x" % fill * 4096
            for o in sorted(set(before) | set(after)):
                a, b = before.get(o, blank), after.get(o, blank)
                if a == b:
                    continue
                for i in range(4096):
                    if a[2 * i:2 * i + 2] != b[2 * i:2 * i + 2]:
                        x = o + i
                        if any(c0 <= x < c0 + g.cluster_size for c0 in lo):
                            continue
                        if so <= x < so + 32 and (x - so) in (18, 19, 22, 23, 24, 25):
                            nstamp += 1
                            continue
                        bad = x
                        break
                if bad is not None:
                    break
            if bad is not None and mo[0] != "na":
                nframe += 1
                rep.violation("[cvol-sub] %s: %s %r inside the directory sub (chain %s, no growth) changed device byte %d, which lies neither "
                              "in a cluster of the directory nor in the time-stamp fields of its own entry in the root (slot at %d)"
                              % (conf[0], op[0], op[1:], chain, bad, so), {"script": lines[:pi + 1]})
        if mo[0] == "na":
            nna += 1
            kinds["na (would grow / entry owns clusters / is a directory)"] = kinds.get("na (would grow / entry owns clusters / is a directory)", 0) + 1
            continue
        ncmp += 1
        if mo[0] == "ok" and op[0] == "create":
            mtag = "ok"
        elif mo[0] in ("ok", "exists"):
            mtag = "ok"
        elif mo[0] == "err":
            mtag = "err " + mo[1]
        else:
            mtag = mo[0]
        kinds[op[0] + " " + (mo[0] if mo[0] != "err" else mtag)] = kinds.get(op[0] + " " + (mo[0] if mo[0] != "err" else mtag), 0) + 1
        lib = md5s(after)
        mod = parse_digest(po[1:])
        if mtag != itag or lib != mod:
            nviol += 1
            diff = sorted(o for o in set(lib) | set(mod) if lib.get(o) != mod.get(o))
            if nviol <= 3:
                rep.violation("[cvol-sub] %s: model and implementation disagree on %s %r inside the directory sub: outcome model %s / library %s; "
                              "%d device page(s) differ%s" % (conf[0], op[0], op[1:], mtag, itag, len(diff), (" (first at offset %d)" % diff[0]) if diff else ""),
                              {"theorem_or_correspondence": CORR_SUB, "script": lines[:pi + 1]}, nofail=True)
            continue
        rep.distinct(("cvol-sub", conf[0], op[0], mtag, op[1:], lib.get(max(lib)) if lib else None))
    ndup = 0
    for ji, (conf, ops, lines, pf, pp, marks, li) in enumerate(jobs):
        if results[ji][li].kind == "ok":
            d = cdir_corr.dup_long(results[ji][li].extra, utable)
            if d is not None:
                ndup += 1
                rep.violation("[cvol-sub] %s: at the end of the history the directory sub lists two entries whose long names are equal under "
                              "case folding (%r and %r)" % (conf[0], d[0], d[1]), {"script": lines})
    rep.cov["cvol_subdirectory_correspondence"] = {
        "histories": nhist, "configs": [c[0] for c in SUB_CONFS[:min(nhist, len(SUB_CONFS))]], "ops_compared_whole_device": ncmp,
        "disagreements": nviol, "frame_failures_on_device": nframe, "declined_by_model_na": nna, "model_outcomes": kinds,
        "parent_stamp_bytes_changed_by_library": nstamp, "duplicate_long_names_in_final_listing": ndup}
    return nviol


# ---------------------------------------------------------------------------------------------------------------------------
CORR_GROW = ("Model/VolChainGrow.v vol_create_file_grow (model cvol cgrow; C01_volchain_grow_create_decodes, C03_volchain_grow_keeps_wf, "
             "C03_volchain_grow_nospace_residue, C05_volchain_grow_accounting) vs src/dir.rs write_entry + src/file.rs File::write + "
             "src/fs.rs alloc_cluster(zero) on the whole device image")
GROW_LENS = [1, 5, 12, 13, 14, 26, 27, 40, 66, 130, 200, 247, 248, 255]
_grow_geoms = {}


def grow_conf(bps, bpc, clusters, fill):
    """(name, device bytes, format tokens, fill) of a volume with exactly [clusters] data clusters (library's own sizing)"""
    key = (bps, bpc, clusters)
    if key not in _grow_geoms:
        _grow_geoms[key] = vlib.sectors_for_clusters(bps, bpc, clusters, max(16, clusters * (bpc // bps)))
    r = _grow_geoms[key]
    if r is None:
        return None
    ts, bits = r
    return ("fat%d-%dclusters-%db-grow" % (bits, clusters, bpc), ts * bps + 4096, "%d %d %d - - - - - -" % (bps, ts, bpc), fill)


def grow_name(serial, n):
    base = "g%03d" % serial
    return base if n <= len(base) else base + "-" + "x" * (n - len(base) - 1)


def gen_grow_session(rng, kind, conf_clusters, cluster_size):
    """-> prelude lines (inside one mount, after create_dir sub), brackets = list of lists of ops; op = ("create", name) |
    ("remove", name) | ("clock", ...)"""
    prelude = []
    brackets = []
    serial = [0]
    live = []
    def create(n):
        serial[0] += 1
        nm = grow_name(serial[0], n)
        live.append(nm)
        return ("create", nm)
    if kind == "grow":
        n = 16 + rng.below(14)
        for _ in range(n):
            r = rng.below(100)
            if r < 8:
                brackets.append([("clock", 1980 + rng.below(128), 1 + rng.below(12), 1 + rng.below(28), rng.below(24), rng.below(60), rng.below(60), rng.below(1000))])
            elif r < 20 and live:
                t = rng.choice(live); live.remove(t)
                brackets.append([("remove", t.upper() if rng.chance(1, 3) else t)])
            elif r < 26 and live:
                brackets.append([("create", rng.choice(live).upper())])          # exists: Ok, nothing written
            else:
                brackets.append([create(rng.choice(GROW_LENS))])
    elif kind == "partial":
        # deterministic family: ONE cluster left, the directory filled to 14 of its 16 slots (512-byte clusters), then a 21-slot run:
        # the first allocation succeeds, the second fails - NotEnoughSpace after the directory has grown by a cluster
        prelude = ["create_file 0 %s 5" % hexs("filler.bin"), "write_pat 5 %d 3" % ((conf_clusters - 2) * cluster_size), "drop_file 5"]
        per = cluster_size // 32
        for _ in range((per - 2) // 3):
            brackets.append([create(14)])
        brackets.append([create(255)])
        brackets.append([create(255)])
        brackets.append([create(1)])
    elif kind == "multi":
        for _ in range(5 + rng.below(4)):
            brackets.append([create(rng.choice([13, 26, 40, 66, 130, 255])) for _ in range(2 + rng.below(3))])
    else:                                # "full": leave k clusters free behind the filler
        k = rng.below(4)
        used_by_sub = 1
        filler = conf_clusters - used_by_sub - k
        prelude = ["create_file 0 %s 5" % hexs("filler.bin"), "write_pat 5 %d 3" % (filler * cluster_size), "drop_file 5"]
        slots_per_cluster = cluster_size // 32
        # fill the directory up to a random distance from the end of its last cluster, then long runs
        for _ in range((k + 1) * slots_per_cluster // 3 + 2 + rng.below(4)):
            r = rng.below(100)
            if r < 10 and live:
                t = rng.choice(live); live.remove(t)
                brackets.append([("remove", t)])
            elif r < 45:
                brackets.append([create(rng.choice([14, 26, 27, 40]))])
            elif r < 75:
                brackets.append([create(rng.choice([66, 130, 200]))])
            else:
                brackets.append([create(rng.choice([247, 248, 255]))])
        for _ in range(4):
            brackets.append([create(rng.choice([5, 13, 26, 130, 255]))])
    return prelude, brackets


def build_grow_script(conf, prelude, brackets):
    name, dev, fmt, fill = conf
    lines = ["dev %d %d" % (dev, fill), "wlog 0", "format " + fmt, "pages", "clock %d %d %d %d %d %d %d" % CLOCK0,
             "mount 1 0 lossy", "create_dir 0 %s 1" % hexs("sub"), "drop_dir 1"] + prelude + ["unmount", "pages"]
    pp = len(lines) - 1
    marks = []                    # per bracket: ([result line index per op or None for clock], pages line index or None)
    h = 10
    for br in brackets:
        if br[0][0] == "clock":
            lines.append("clock %d %d %d %d %d %d %d" % br[0][1:]); marks.append(([None], None)); continue
        lines.append("mount 1 0 lossy")
        ris = []
        for op in br:
            if op[0] == "create":
                lines.append("create_file 0 %s %d" % (hexs("sub/" + op[1]), h)); ris.append(len(lines) - 1)
                lines.append("drop_file %d" % h); h += 1
            else:
                lines.append("remove 0 %s" % hexs("sub/" + op[1])); ris.append(len(lines) - 1)
        lines += ["unmount", "pages"]
        marks.append((ris, len(lines) - 1))
    lines += ["mount 1 0 lossy", "open_dir 0 %s 2" % hexs("sub"), "list 2", "unmount"]
    return lines, 3, pp, marks, len(lines) - 2


def run_grow_stream(rep, tier, seed):
    rng = vlib.Rng(seed * 32452843 + 17)
    plan_kinds = (["partial", "grow", "full", "multi", "full", "grow", "full"] if tier == "quick" else
                  ["partial", "partial"] + ["grow", "full", "multi", "full"] * 15)
    confs = [c for c in (grow_conf(512, 512, 9, 0xD1), grow_conf(512, 512, 14, 0), grow_conf(512, 1024, 7, 0xFF),
                         grow_conf(1024, 1024, 11, 0), grow_conf(512, 512, 23, 0xE5)) if c is not None]
    big = grow_conf(512, 512, 4200, 0)          # FAT16: growth only
    jobs = []
    for i, kind in enumerate(plan_kinds):
        conf = confs[i % len(confs)]
        if kind == "grow" and big is not None and i % 8 == 4:
            conf = big
        ncl = int(conf[0].split("-")[1].replace("clusters", ""))
        csz = int(conf[0].split("-")[2].replace("b", ""))
        prelude, brackets = gen_grow_session(rng, kind, ncl, csz)
        lines, pf, pp, marks, li = build_grow_script(conf, prelude, brackets)
        jobs.append((conf, kind, brackets, lines, pf, pp, marks, li))
    results = vlib.run_scripts([j[3] for j in jobs])
    utable, table = namelib.upper_table("default")
    mlines = ["upper " + table]
    plan = []
    for ji, (conf, kind, brackets, lines, pf, pp, marks, li) in enumerate(jobs):
        res = results[ji]
        fill = conf[3]
        if res[pp].kind != "ok" or 0 not in pages_of(res[pp]):
            rep.violation("[cvol-grow] %s: the prelude (format, create_dir sub, filler) failed" % conf[0],
                          {"theorem_or_correspondence": CORR_GROW, "script": lines[:pp + 1]}, nofail=True)
            continue
        prev = pp
        clock = CLOCK0
        g = fatimg.Geom(bytes.fromhex(pages_of(res[pp])[0])[:64])
        # the model is synchronised on the library's device ONCE (after the prelude) and from then on works on its own image: the
        # sessions compare CHAINS of calls; the first disagreement ends the evaluation of a session (no cascade)
        mlines.append(img_line(fill, pages_of(res[pp]))); plan.append(None)
        mlines.append("cdir " + SUB_SFN.hex()); plan.append(("chain", ji, 0))
        for bi, br in enumerate(brackets):
            ris, pi = marks[bi]
            if br[0][0] == "clock":
                clock = br[0][1:]; continue
            if any(res[ri].kind in ("skipped", "bad", "hang", "panic") for ri in ris) or res[pi].kind != "ok":
                break
            after = pages_of(res[pi])
            mlines.append("fi - -"); plan.append(None)
            for oi, op in enumerate(br):
                if op[0] == "create":
                    mlines.append("cgrow %s %d %d %d %d %d %d %d" % ((hexs(op[1]),) + tuple(clock)))
                else:
                    mlines.append("cremove %s" % hexs(op[1]))
                plan.append(("op", ji, bi, oi))
            so = sub_slot_off(after, fill, g)
            mlines.append("poke %d %s" % (so if so is not None else g.root_off, dev_bytes(after, fill, so, 32).hex() if so is not None else ""))
            plan.append(("cmp", ji, bi, prev, g, so))
            mlines.append("wf"); plan.append(("wf", ji, bi))
            prev = pi
    out = vlib.model_run("cvol", "\n".join(mlines) + "\n")[1:]
    assert len(out) == len(plan), (len(out), len(plan))
    ncmp = nviol = nops = ngrow = ngrow2 = nnospace = nresidue = nframe = nna = nwf = npartial = 0
    kinds = {}
    chains = {}
    grown_per_session = {}
    state = {}                     # (ji, bi) -> dict
    for k, pl in enumerate(plan):
        if pl is None:
            continue
        tag, ji, bi = pl[0], pl[1], pl[2]
        conf, kind, brackets, lines, pf, pp, marks, li = jobs[ji]
        res = results[ji]
        fill = conf[3]
        ris, pi = marks[bi]
        sess = state.setdefault(("sess", ji), {"bad": False, "chain": None})
        mo = out[k].split(" ")
        if mo and mo[0] == "stale":
            mo = mo[1:]
        st = None if tag == "chain" else state.setdefault((ji, bi), {"nospace": False, "na": False, "chain0": sess["chain"], "chain1": sess["chain"]})
        if tag == "chain":
            if mo[0] != "ok":
                sess["bad"] = True; nviol += 1
                rep.violation("[cvol-grow] %s: the model's decode of the library's device does not show the directory SUB in the root" % conf[0],
                              {"theorem_or_correspondence": CORR_GROW, "script": lines[:pi + 1]}, nofail=True)
            else:
                sess["chain"] = [int(x) for x in mo[1].split(",")]
            continue
        if sess["bad"]:
            continue
        if tag == "op":
            oi = pl[3]
            op = brackets[bi][oi]
            ir = res[ris[oi]]
            rep.count(); nops += 1
            itag = "ok" if ir.kind == "ok" else (ir.kind + " " + ir.payload.split()[0] if ir.payload else ir.kind)
            if mo[0] == "na":
                st["na"] = True; sess["bad"] = True; nna += 1          # cremove of something this model does not cover: the chain of calls ends
                continue
            if mo[0] in ("ok", "exists"):
                mtag = "ok"
            elif mo[0] == "err":
                mtag = "err " + mo[1]
            else:
                mtag = mo[0]
            kinds[op[0] + " " + (mo[0] if mo[0] != "err" else mtag)] = kinds.get(op[0] + " " + (mo[0] if mo[0] != "err" else mtag), 0) + 1
            ch = [t for t in mo if t.startswith("chain=")]
            if ch:
                newchain = [int(x) for x in ch[0][6:].split(",")]
                d = len(newchain) - len(st["chain1"])
                if d >= 1:
                    ngrow += 1; grown_per_session[ji] = grown_per_session.get(ji, 0) + d
                if d >= 2:
                    ngrow2 += 1
                st["chain1"] = newchain; sess["chain"] = newchain
            if mtag == "err NotEnoughSpace":
                st["nospace"] = True; nnospace += 1
                if ch and d >= 1:
                    npartial += 1
            if mtag != itag:
                sess["bad"] = True; nviol += 1
                if nviol <= 3:
                    rep.violation("[cvol-grow] %s (%s session): model and implementation disagree on the outcome of %s %r inside the directory sub: "
                                  "model %s / library %s" % (conf[0], kind, op[0], op[1][:40], mtag, itag),
                                  {"theorem_or_correspondence": CORR_GROW, "script": lines[:pi + 1]}, nofail=True)
            continue
        if tag == "cmp":
            prev, g, so = pl[3], pl[4], pl[5]
            if st["na"]:
                continue
            before, after = pages_of(res[prev]), pages_of(res[pi])
            ncmp += 1
            lib = md5s(after)
            mod = parse_digest(mo[1:])
            if lib != mod:
                sess["bad"] = True; nviol += 1
                diff = sorted(o for o in set(lib) | set(mod) if lib.get(o) != mod.get(o))
                if nviol <= 3:
                    rep.violation("[cvol-grow] %s (%s session): after %r inside the directory sub (chain %s -> %s) %d device page(s) differ between "
                                  "model and library%s" % (conf[0], kind, [(o[0], o[1][:24]) for o in brackets[bi]], st["chain0"], st["chain1"], len(diff),
                                                           (" (first at offset %d)" % diff[0]) if diff else ""),
                                  {"theorem_or_correspondence": CORR_GROW, "script": lines[:pi + 1]}, nofail=True)
                continue
            # ---- directly on the device: outside the FAT copies, the clusters of the directory's chain AFTERWARDS and the stamp fields
            # of its own entry nothing changes (frame clause of C01_volchain_grow_create_decodes)
            lo = [g.cluster_off(c) for c in st["chain1"]]
            fat_lo, fat_hi = g.fat_off, g.root_off
            blank = "%02x" % fill * 4096
            bad = None
            for o in sorted(set(before) | set(after)):
                a, b = before.get(o, blank), after.get(o, blank)
                if a == b:
                    continue
                for i in range(4096):
                    if a[2 * i:2 * i + 2] != b[2 * i:2 * i + 2]:
                        x = o + i
                        if fat_lo <= x < fat_hi or any(c0 <= x < c0 + g.cluster_size for c0 in lo):
                            continue
                        if so is not None and so <= x < so + 32 and (x - so) in (18, 19, 22, 23, 24, 25):
                            continue
                        bad = x; break
                if bad is not None:
                    break
            if bad is not None:
                nframe += 1
                rep.violation("[cvol-grow] %s: creates inside the directory sub (chain %s -> %s) changed device byte %d, which lies neither in a FAT "
                              "copy, nor in a cluster of the directory, nor in the stamp fields of its own entry" % (conf[0], st["chain0"], st["chain1"], bad),
                              {"script": lines[:pi + 1]})
            rep.distinct(("cvol-grow", conf[0], kind, tuple(o[1] for o in brackets[bi]), tuple(st["chain1"]), lib.get(max(lib)) if lib else None))
            continue
        if tag == "wf":
            if st["na"]:
                continue
            nwf += 1
            n = int(mo[0])
            issues = [x for x in mo[2:] if x]
            dirc = st["chain0"][0]
            allowed = 1 if st["nospace"] else 0
            orphan_here = [x for x in issues if x.startswith("OrphanLfn(%d," % dirc)]
            # orphan runs left by EARLIER out-of-space failures of this session stay (nothing removes them): count per bracket
            prev_orphans = state.get(("orph", ji), 0)
            if len(issues) != len(orphan_here) or len(orphan_here) > prev_orphans + allowed:
                nviol += 1
                rep.violation("[cvol-grow] %s (%s session): after %r inside the directory sub the device has well-formedness issues %s "
                              "(allowed: orphan long-name runs of the directory, at most one new one per NotEnoughSpace)"
                              % (conf[0], kind, [(o[0], o[1][:24]) for o in brackets[bi]], issues[:6]), {"script": lines[:pi + 1]})
            if len(orphan_here) > prev_orphans:
                nresidue += 1
            state[("orph", ji)] = len(orphan_here)
    rep.cov["cvol_growth_correspondence"] = {
        "sessions": len(jobs), "kinds": {k_: plan_kinds.count(k_) for k_ in set(plan_kinds)}, "configs": sorted(set(j[0][0] for j in jobs)),
        "calls_compared": nops, "brackets_compared_whole_device": ncmp, "disagreements": nviol, "frame_failures_on_device": nframe,
        "creates_that_grew_the_directory": ngrow, "creates_that_grew_by_two_clusters": ngrow2,
        "clusters_grown_per_session": [grown_per_session.get(j, 0) for j in range(len(jobs))],
        "not_enough_space_outcomes": nnospace, "not_enough_space_after_the_directory_grew_by_a_cluster": npartial,
        "brackets_leaving_a_new_orphan_run": nresidue, "wf_evaluations_on_device": nwf,
        "declined_by_model_na": nna, "model_outcomes": kinds}
    return nviol


# ---------------------------------------------------------------------------------------------------------------------------
# ROOT DIRECTORY OF A FAT32 VOLUME (run_root32_stream; Model/Vol32Root.v vol32_root_create / vol32_root_remove / vol32_root_rename,
# model commands r32chain / r32create / r32remove / r32rename).  FAT32 needs >= 65525 clusters: the devices are 34 .. 69 MB, filled
# with 0 so that the zeroed FATs and the untouched data area are not shipped: `pages` returns only the pages holding a non-fill byte
# (boot sector + FS-info + backup boot, the head of each FAT copy, the directory clusters in use, data written by the prelude).
# Every op is predicted by the model from the library's OWN previous pages (`img`), then every page is compared.
ROOT32_CONFS = [
    ("fat32-67000s-512b-clusters", 67000 * 512, "512 67000 512 32 - 2 - - -", 0),
    ("fat32-134000s-1k-clusters-label", 134000 * 512, "512 134000 1024 32 - 2 248 305419896 524f4f5433322020202020", 0),
    ("fat32-1k-sectors-67000s-1fat", 67000 * 1024, "1024 67000 1024 32 - 1 - - -", 0),
]
# 1 slot (short, upper / lower through the NT case bits), 2 slots (mixed case, 13 chars, non-OEM), 3 .. 6 slots (14 .. 65 chars);
# names equal under case folding (a/A, file.txt/File.TXT, straße ...), the alias collisions of cdir_corr.RESPELL (ß~1 / ss~1)
ROOT32_NAMES = ["a", "A", "B", "b", "UPPER", "lower.c", "file.txt", "File.TXT", "FILE.TXT", "MiXed.Txt", "x" * 13, "y" * 14, "z" * 26, "w" * 27,
                "name.with.many.dots.ext", "straße", "STRASSE", "é.x", "s s", "ß~1", "ss~1", "~tilde", "Жук.txt", " lead", "tr.", "e5å",
                "forty characters long name 0123456789.bi", "m" * 52, "n" * 53, "sixty-five characters is the longest name of six slots 0123456.bin"]
CORR_ROOT32 = ("Model/Vol32Root.v root32_chain / vol32_root_create / vol32_root_remove / vol32_root_rename (model cvol r32chain / r32create / "
               "r32remove / r32rename) vs src/fs.rs root_dir() + src/dir.rs + src/file.rs on the whole device image of a FAT32 volume")
R32_NA = "na (would grow / entry owns clusters / is a directory)"


def r32_slots(name):
    """slots a create of this name takes (approximation used for the DISTRIBUTION only): 1 when the name is its own 8.3 name up to
    the NT case bits, else 1 + ceil(utf-16 length / 13)"""
    base, dot, ext = name.rpartition(".") if "." in name[1:] else (name, "", "")
    ok = lambda s: all(c.isascii() and (c.isalnum() or c in "~!#$%&'()-@^_`{}") for c in s) and (s == s.upper() or s == s.lower())
    if 1 <= len(base) <= 8 and len(ext) <= 3 and ok(base) and ok(ext) and not (dot and not ext):
        return 1
    return 1 + (len(name.encode("utf-16-le")) // 2 + 12) // 13


def gen_root32_history(rng, nops, kind):
    """kind: "plain" | "owners" (the library first makes a file with data and a sub-directory: entries the model declines to remove)
    | "bigroot" (the library first grows the root over a second cluster, allocated AFTER a data file, and leaves holes) | "fill"
    (mostly creates of distinct long names: the root must grow, which the no-growth model declines and vol32_root_create_grow covers)
    | "fill2" (fill after a fixed prefix aimed at creates that need two new 512-byte clusters at once).  -> prelude lines, live names, ops"""
    prelude, live = [], []
    if kind in ("owners", "bigroot"):
        prelude += ["create_file 0 %s 5" % hexs("data.bin"), "write_pat 5 %d 7" % rng.choice([1, 512, 1500, 4000]), "drop_file 5"]
        live.append("data.bin")
    if kind == "owners":
        prelude += ["create_dir 0 %s 6" % hexs("sub"), "create_file 6 %s 7" % hexs("inner.txt"), "write_pat 7 300 1", "drop_file 7", "drop_dir 6"]
        live.append("sub")
    if kind == "bigroot":
        fillers = ["prelude filler name %02d.txt" % k for k in range(12)]       # 3 slots each
        for k, f in enumerate(fillers):
            prelude += ["create_file 0 %s %d" % (hexs(f), 20 + k), "drop_file %d" % (20 + k)]
        gone = [f for k, f in enumerate(fillers) if k % 2 == 1 or rng.chance(1, 4)]
        prelude += ["remove 0 %s" % hexs(f) for f in gone]
        live += [f for f in fillers if f not in gone]
    ops = []
    serial = 0
    if kind == "fill2":
        # aimed at a create that needs TWO new 512-byte clusters at once: 5 x 3 slots, then 21 slots with 1 slot left (20 more: 2 clusters),
        # 10 slots, then 21 slots with 2 slots left
        for n in (14, 15, 16, 17, 18, 255, 110, 254):
            serial += 1
            nm = ("two %02d " % serial) + "t" * (n - 7)
            ops.append(("create", nm)); live.append(nm)
        kind = "fill"
        nops = max(0, nops - len(ops))
    for _ in range(nops):
        r = rng.below(100)
        nm = rng.choice(ROOT32_NAMES) if rng.chance(93, 100) else rng.choice(BAD)
        if kind == "fill" and rng.chance(2, 3):
            serial += 1
            nm = ("fill %02d " % serial) + "f" * rng.choice([1, 8, 20, 33, 46, 57, 58, 100, 150, 200, 247])     # up to 21 slots: two 512-byte clusters at once
        if r < 5:
            ops.append(("clock", 1980 + rng.below(128), 1 + rng.below(12), 1 + rng.below(28), rng.below(24), rng.below(60), rng.below(60), rng.below(1000)))
        elif r < (76 if kind == "fill" else 42) or not live:
            ops.append(("create", nm)); live.append(nm)
        elif r < (84 if kind == "fill" else 66):
            t = rng.choice(live) if rng.chance(85, 100) else nm
            if rng.chance(30, 100):
                t = t.upper() if rng.chance(1, 2) else t.lower()
            ops.append(("remove", t))
            for x in [x for x in live if x.upper() == t.upper()]:
                live.remove(x)
        else:
            s_ = rng.choice(live) if rng.chance(88, 100) else nm
            how = rng.below(100)
            d = nm if how < 50 else cdir_corr.case_variant(rng, s_) if how < 78 else rng.choice(live) if how < 94 else s_
            ops.append(("rename", s_, d))
            if s_ in live and d not in live and rng.chance(2, 3):
                live.remove(s_); live.append(d)
    return prelude, ops


def build_root32_script(conf, prelude, ops):
    name, dev, fmt, fill = conf
    lines = ["dev %d %d" % (dev, fill), "wlog 0", "format " + fmt, "pages", "clock %d %d %d %d %d %d %d" % CLOCK0]
    pp = 3
    if prelude:
        lines += ["mount 1 0 lossy"] + prelude + ["unmount", "pages"]
        pp = len(lines) - 1
    marks = []
    h = 40
    for op in ops:
        if op[0] == "clock":
            lines.append("clock %d %d %d %d %d %d %d" % op[1:]); marks.append((None, None)); continue
        lines.append("mount 1 0 lossy")
        if op[0] == "create":
            lines.append("create_file 0 %s %d" % (hexs(op[1]), h)); ri = len(lines) - 1
            lines.append("drop_file %d" % h); h += 1
        elif op[0] == "remove":
            lines.append("remove 0 %s" % hexs(op[1])); ri = len(lines) - 1
        else:
            lines.append("rename 0 %s 0 %s" % (hexs(op[1]), hexs(op[2]))); ri = len(lines) - 1
        lines += ["unmount", "pages"]
        marks.append((ri, len(lines) - 1))
    lines += ["mount 1 0 lossy", "list 0", "unmount"]
    return lines, 3, pp, marks, len(lines) - 2


def root32_chain_py(pages, fill, g):
    """the root chain read directly from the first FAT copy of the device pages (28-bit links), or None (bad link / loop)"""
    out, c = [], g.root_cluster
    while True:
        if c < 2 or c >= g.clusters + 2 or c in out or len(out) > 4096:
            return None
        out.append(c)
        c = int.from_bytes(dev_bytes(pages, fill, g.fat_off + 4 * c, 4), "little") & 0x0FFFFFFF
        if c >= 0x0FFFFFF8:
            return out


def run_root32_stream(rep, tier, seed):
    rng = vlib.Rng(seed * 32452843 + 13)
    quick = tier == "quick"
    kinds_plan = ["plain", "fill2", "bigroot", "owners", "bigroot", "fill"] if quick else ["plain", "fill2", "bigroot", "owners", "plain", "fill", "bigroot", "owners"] * 3
    nops = 16 if quick else 24
    nconf = 2 if quick else len(ROOT32_CONFS)
    jobs = []
    for i, kind in enumerate(kinds_plan):
        conf = ROOT32_CONFS[0] if quick and i < 4 else ROOT32_CONFS[1] if quick else ROOT32_CONFS[(i // 4 + i) % nconf]
        prelude, ops = gen_root32_history(rng, nops * 2 if kind in ("fill", "fill2") and conf is ROOT32_CONFS[0] else nops, kind)
        lines, pf, pp, marks, li = build_root32_script(conf, prelude, ops)
        jobs.append((conf, kind, ops, lines, pf, pp, marks, li))
    results = vlib.run_scripts([j[3] for j in jobs])
    utable, table = namelib.upper_table("default")
    mlines = ["upper " + table]
    plan = []
    geoms = {}
    max_pages = 0
    for ji, (conf, kind, ops, lines, pf, pp, marks, li) in enumerate(jobs):
        res = results[ji]
        fill = conf[3]
        p0 = pages_of(res[pp]) if res[pp].kind == "ok" else {}
        g = fatimg.Geom(bytes.fromhex(p0[0])[:64]) if 0 in p0 else None
        if g is None or g.bits != 32 or not g.is32 or any(r.kind != "ok" for r in res[:pp + 1]):
            rep.violation("[cvol-root32] %s: the prelude (format as FAT32%s) failed" % (conf[0], ", library-only steps" if pp != pf else ""),
                          {"theorem_or_correspondence": CORR_ROOT32, "script": lines[:pp + 1]}, nofail=True)
            continue
        geoms[ji] = g
        prev = pp
        clock = CLOCK0
        for oi, op in enumerate(ops):
            ri, pi = marks[oi]
            if op[0] == "clock":
                clock = op[1:]; continue
            if res[ri].kind in ("skipped", "bad", "hang", "panic") or res[pi].kind != "ok":
                break
            before = pages_of(res[prev])
            max_pages = max(max_pages, len(before))
            mlines.append("imgq" + img_line(fill, before)[3:]); plan.append(None)
            mlines.append("r32chain"); plan.append(None)
            if op[0] == "create":
                mlines.append("r32create %s %d %d %d %d %d %d %d" % ((hexs(op[1]),) + tuple(clock)))
            elif op[0] == "remove":
                mlines.append("r32remove %s" % hexs(op[1]))
            else:
                mlines.append("r32rename %s %s" % (hexs(op[1]), hexs(op[2])))
            kop = len(plan)           # index of the op's answer in the model output
            if op[0] == "create":
                # the same create INCLUDING growth, from the same re-based image, with the FS-info write-back of unmount
                plan.append(None)
                mlines.append("r32grow %s %d %d %d %d %d %d %d" % ((hexs(op[1]),) + tuple(clock)))
            plan.append((ji, oi, prev, kop))
            prev = pi
    out = vlib.model_run("cvol", "\n".join(mlines) + "\n")[1:]
    assert len(out) == len(plan), (len(out), len(plan))
    ncmp = nviol = nna = nframe = npages = nchain_ok = nclean = ngrow = ngrow_frame = nboth = nfsi = nfsw = 0
    kinds, slots, chain_lens, hist_kinds, na_by_op, grow_kinds, grow_chain_after, grow_added, grow_slots = {}, {}, {}, {}, {}, {}, {}, {}, {}
    def bump(d, k):
        d[k] = d.get(k, 0) + 1
    for k, pl in enumerate(plan):
        if pl is None:
            continue
        ji, oi, prev, kop = pl
        conf, kind, ops, lines, pf, pp, marks, li = jobs[ji]
        res = results[ji]
        fill = conf[3]
        g = geoms[ji]
        op = ops[oi]
        ri, pi = marks[oi]
        ir = res[ri]
        rep.count()
        chain_line, mo = out[kop - 1].split(" "), out[kop].split(" ")
        mg = out[k].split(" ") if k != kop else None          # the r32grow answer of a create
        itag = "ok" if ir.kind == "ok" else (ir.kind + " " + ir.payload.split()[0] if ir.payload else ir.kind)
        before, after = pages_of(res[prev]), pages_of(res[pi])
        chain = root32_chain_py(before, fill, g)
        mchain = [int(x) for x in chain_line[1].split(",")] if chain_line[0] == "ok" and len(chain_line) > 1 else None
        if chain != mchain or chain is None:
            nviol += 1
            if nviol <= 3:
                rep.violation("[cvol-root32] %s: the root chain read from the device's FAT (%s) is not the model's root32_chain (%s) before %s %r"
                              % (conf[0], chain, mchain, op[0], op[1:]), {"theorem_or_correspondence": CORR_ROOT32, "script": lines[:marks[oi][0]]}, nofail=True)
            continue
        nchain_ok += 1
        bump(chain_lens, len(chain))
        # ---- directly on the device (independent of the model's answer bytes): the frame of an operation inside the FAT32 root.
        #      NOTHING is excluded: the bracket's own writes (status byte 65 set at the first write, cleared by unmount; the FS-info
        #      sector only when an allocation made it dirty) must cancel out for an operation that allocates / frees nothing.
        lo = [g.cluster_off(c) for c in chain]
        bad = None
        blank = "%02x" % fill * 4096
        for o in sorted(set(before) | set(after)):
            a, b = before.get(o, blank), after.get(o, blank)
            if a == b:
                continue
            for i in range(4096):
                if a[2 * i:2 * i + 2] != b[2 * i:2 * i + 2] and not any(c0 <= o + i < c0 + g.cluster_size for c0 in lo):
                    bad = o + i
                    break
            if bad is not None:
                break
        if dev_bytes(after, fill, g.status_off, 1)[0] & 3 == 0:
            nclean += 1
        if mo[0] == "na" and mg is not None and mg[0] not in ("na", "nomount"):
            # ---- a create the no-growth model declines: compared through vol32_root_create_grow (+ the FS-info write-back of unmount)
            ngrow += 1
            gtag = "ok" if mg[0] in ("ok", "exists") else ("err " + mg[1]) if mg[0] == "err" else mg[0]
            bump(grow_kinds, "create " + (mg[0] if mg[0] != "err" else gtag))
            gchain = [int(x) for t in mg if t.startswith("chain=") and len(t) > 6 for x in t[6:].split(",")]
            gfi = [t[3:].split(",") for t in mg if t.startswith("fi=")]
            chain_after = root32_chain_py(after, fill, g)
            bump(grow_chain_after, len(chain_after) if chain_after else -1); bump(grow_added, (len(chain_after) - len(chain)) if chain_after else -1)
            bump(grow_slots, r32_slots(op[1]))
            fso = int.from_bytes(bytes.fromhex(before[0])[48:50], "little") * g.bps
            words = [int.from_bytes(dev_bytes(after, fill, fso + x, 4), "little") for x in (488, 492)]
            fi_ok = bool(gfi) and len(gfi[0]) == 3 and [("-" if w == 0xFFFFFFFF else str(w)) for w in words] == gfi[0][:2]
            nfsi += 1 if fi_ok else 0
            nfsw += 1 if dev_bytes(before, fill, fso + 488, 8) != dev_bytes(after, fill, fso + 488, 8) else 0
            # directly on the device: a growing create may change only the clusters of the root chain afterwards, the FAT entries (every
            # copy) of the old last cluster and of the new clusters, and the two hint words of the FS-info sector
            allowed = [(g.cluster_off(c), g.cluster_size) for c in (chain_after or chain)]
            for c in [chain[-1]] + [c for c in (chain_after or []) if c not in chain]:
                allowed += [(g.fat_off + f * g.spf * g.bps + 4 * c, 4) for f in range(g.fats)]
            allowed.append((fso + 488, 8))
            gbad = None
            for o in sorted(set(before) | set(after)):
                a, b = before.get(o, blank), after.get(o, blank)
                if a == b:
                    continue
                for i in range(4096):
                    if a[2 * i:2 * i + 2] != b[2 * i:2 * i + 2] and not any(x0 <= o + i < x0 + n for x0, n in allowed):
                        gbad = o + i
                        break
                if gbad is not None:
                    break
            if gbad is not None or chain_after is None or chain_after[:len(chain)] != chain:
                ngrow_frame += 1
                rep.violation("[cvol-root32] %s: create %r growing the root directory of a FAT32 volume (root chain %s -> %s) changed device byte %s, "
                              "which lies neither in a cluster of the root chain, nor in the FAT entries of the old last / the new clusters, nor in "
                              "the hint words of the FS-info sector (or the old chain is not a prefix of the new one)"
                              % (conf[0], op[1:], chain, chain_after, gbad), {"script": lines[:pi + 1]})
            lib = md5s(after)
            mod = parse_digest(mg[1:])
            npages += len(lib)
            if gtag != itag or lib != mod or gchain != chain_after or not fi_ok:
                nviol += 1
                diff = sorted(o for o in set(lib) | set(mod) if lib.get(o) != mod.get(o))
                if nviol <= 3:
                    rep.violation("[cvol-root32] %s: model (vol32_root_create_grow + FS-info write-back) and implementation disagree on create %r growing the "
                                  "root of a FAT32 volume: outcome model %s / library %s; root chain before %s, after: model %s / device %s; FS-info "
                                  "free,next: model %s / device %s; %d device page(s) differ%s"
                                  % (conf[0], op[1:], gtag, itag, chain, gchain, chain_after, gfi, words, len(diff), (" (first at offset %d)" % diff[0]) if diff else ""),
                                  {"theorem_or_correspondence": CORR_ROOT32, "script": lines[:pi + 1]}, nofail=True)
                continue
            rep.distinct(("cvol-root32-grow", conf[0], op[1:], tuple(chain_after), lib.get(lo[0] - lo[0] % 4096)))
            continue
        if mo[0] == "na":
            nna += 1
            bump(kinds, R32_NA); bump(na_by_op, "%s -> library %s%s" % (op[0], itag, ", root chain grew" if root32_chain_py(after, fill, g) != chain else ""))
            continue
        if bad is not None:
            nframe += 1
            rep.violation("[cvol-root32] %s: %s %r in the root directory of a FAT32 volume (root chain %s, no growth, no clusters owned) changed "
                          "device byte %d, which lies in no cluster of the root chain" % (conf[0], op[0], op[1:], chain, bad), {"script": lines[:pi + 1]})
        ncmp += 1
        mtag = "ok" if mo[0] in ("ok", "exists") else ("err " + mo[1]) if mo[0] == "err" else mo[0]
        bump(kinds, op[0] + " " + (mo[0] if mo[0] != "err" else mtag))
        bump(hist_kinds, kind)
        if op[0] == "create" and mo[0] == "ok":
            bump(slots, r32_slots(op[1]))
        lib = md5s(after)
        mod = parse_digest(mo[1:])
        npages += len(lib)
        if mg is not None:
            # a create inside the slots the root has: vol32_root_create_grow (clean latch, so no FS-info write) must say the same
            nboth += 1
            gtag = "ok" if mg[0] in ("ok", "exists") else ("err " + mg[1]) if mg[0] == "err" else mg[0]
            gchain = [int(x) for t in mg if t.startswith("chain=") and len(t) > 6 for x in t[6:].split(",")]
            if gtag != mtag or parse_digest(mg[1:]) != mod or gchain != chain:
                nviol += 1
                if nviol <= 3:
                    rep.violation("[cvol-root32] %s: the models vol32_root_create (%s) and vol32_root_create_grow (%s, chain %s) disagree on a create %r "
                                  "that fits the root chain %s" % (conf[0], mtag, gtag, gchain, op[1:], chain),
                                  {"theorem_or_correspondence": CORR_ROOT32, "script": lines[:pi + 1]}, nofail=True)
                continue
        if mtag != itag or lib != mod:
            nviol += 1
            diff = sorted(o for o in set(lib) | set(mod) if lib.get(o) != mod.get(o))
            if nviol <= 3:
                rep.violation("[cvol-root32] %s: model and implementation disagree on %s %r in the root directory of a FAT32 volume (root chain %s): "
                              "outcome model %s / library %s; %d device page(s) differ%s"
                              % (conf[0], op[0], op[1:], chain, mtag, itag, len(diff), (" (first at offset %d)" % diff[0]) if diff else ""),
                              {"theorem_or_correspondence": CORR_ROOT32, "script": lines[:pi + 1]}, nofail=True)
            continue
        rep.distinct(("cvol-root32", conf[0], op[0], mtag, op[1:], tuple(chain), lib.get(lo[0] - lo[0] % 4096)))
    ndup = 0
    for ji, (conf, kind, ops, lines, pf, pp, marks, li) in enumerate(jobs):
        if results[ji][li].kind == "ok":
            d = cdir_corr.dup_long(results[ji][li].extra, utable)
            if d is not None:
                ndup += 1
                rep.violation("[cvol-root32] %s: at the end of the history the FAT32 root lists two entries whose long names are equal under "
                              "case folding (%r and %r)" % (conf[0], d[0], d[1]), {"script": lines})
    rep.cov["cvol_root32_correspondence"] = {
        "histories": len(jobs), "history_kinds": kinds_plan if quick else {x: kinds_plan.count(x) for x in set(kinds_plan)},
        "configs": sorted(set(j[0][0] for j in jobs)), "calls": sum(1 for p in plan if p is not None), "ops_compared_whole_device": ncmp,
        "compared_ops_per_history_kind": hist_kinds, "disagreements": nviol, "frame_failures_on_device": nframe, "declined_by_model_na": nna,
        "declined_by_op_and_library_outcome": na_by_op, "model_outcomes": kinds, "created_entries_by_slots_needed": slots,
        "root_chain_length_before_op": chain_lens, "root_chain_device_fat_equals_model_decoder": nchain_ok,
        "status_byte_clean_after_bracket": nclean, "device_pages_compared": npages, "most_pages_shipped_per_call": max_pages,
        "duplicate_long_names_in_final_listing": ndup,
        "growing_creates_compared_whole_device": ngrow, "growing_create_outcomes": grow_kinds, "growing_create_frame_failures_on_device": ngrow_frame,
        "root_chain_length_after_growing_create": grow_chain_after, "clusters_added_by_growing_create": grow_added,
        "growing_creates_by_slots_needed": grow_slots, "fsinfo_words_on_device_equal_model_latch": nfsi, "fsinfo_words_rewritten_by_the_library_at_unmount": nfsw,
        "non_growing_creates_also_through_create_grow": nboth,
        "growth": "a create the no-growth model declines is compared through Vol32Root.vol32_root_create_grow (model r32grow): latch read from the image "
                  "by VolFsInfo.vol32_mount, FS-info sector written back by VolFsInfo.vol32_flush_fs_info in the glue (what unmount does), then outcome, "
                  "EVERY non-zero page, the root chain afterwards (device FAT vs model) and the FS-info free / next words (device vs model latch); "
                  "NotEnoughSpace is not reachable on these volumes",
        "excluded_from_comparison": "nothing in a compared call: all non-zero 4096-byte pages of the device (boot sector with the status byte at 65, "
                                    "FS-info sector, backup boot, both FAT copies, every data cluster) are compared and framed; the model is re-based on the "
                                    "library's own pages before EVERY call, so the FS-info sector / status byte as left by earlier brackets (growth, prelude) are "
                                    "inputs, not predictions; calls the models decline (na: remove / rename of an entry owning clusters or of a directory) are only counted"}
    return nviol
