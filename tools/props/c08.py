"""C08 - any specification-valid volume made by someone else is read faithfully and modified conservatively.
Images come from an independent specification-driven builder (tools/imgbuilder.py) that uses the encoding freedoms the
library's own writer never exercises; its tree is the ground truth for what the library must list and read.  The same image
is also decoded by the independent Coq decoder.  Then the volume is modified through the library and everything it was not
asked to change must be byte-identical (FAT entries, FAT copies, reserved high bits, other files and slots)."""
import os
import vlib, sessions, imgbuilder
from vlib import hexs
from props import sess_common as sc

PROP_FILES = ["Props/C08.v"]

def fmt_c(t): return "%d-%d-%d/%d:%d:%d.%d" % t
def fmt_m(t): return "%d-%d-%d/%d:%d:%d.0" % t
def fmt_a(t): return "%d-%d-%d" % t

def walk(b, d, path, out_dirs, out_files):
    out_dirs.append((path, d))
    for n in d.children:
        p = path + [b.display_name(n)]
        if n.kind == "dir":
            walk(b, n, p, out_dirs, out_files)
        else:
            out_files.append((p, n))

def snapshot(b, d):
    return {b.display_name(n): (n.attr, len(n.content) if n.kind == "file" else 0, 1 if n.kind == "dir" else 0, fmt_c(n.ctime), fmt_m(n.mtime),
                                fmt_a(n.adate), b.sfn_display(n, lower=False)) for n in d.children}

def traversal(b, base_h=100, extra=None, optional=frozenset()):
    """extra: {dir path tuple: set of names the library added there}"""
    dirs, files = [], []
    walk(b, b.root, [], dirs, files)
    lines = []; expect = []
    h = base_h
    for path, d in dirs:
        ex = (extra or {}).get(tuple(path), set())
        if path:
            h += 1
            lines += ["open_dir 0 %s %d" % (hexs("/".join(path)), h), "list %d" % h, "drop_dir %d" % h]
            expect += [None, ("list", snapshot(b, d), False, ex, optional), None]
        else:
            lines += ["list 0"]; expect += [("list", snapshot(b, d), True, ex, optional)]
    for path, n in files:
        h += 1
        lines += ["open_file 0 %s %d" % (hexs("/".join(path)), h), "read_all %d 4000000" % h, "extents %d" % h, "drop_file %d" % h]
        expect += [None, ("read", n), ("extents", n), None]
    return lines, expect

def check_traversal(rep, b, ops, expect, script, label):
    for o, ex in zip(ops, expect):
        if o.kind in ("panic", "hang"):
            rep.violation("[C08 %s] %s -> %s on a specification-valid foreign volume" % (label, sc.short(o.line, 60), o.kind), {"script": script}); return False
        if o.kind != "ok":
            rep.violation("[C08 %s] %s -> %s %s on a specification-valid foreign volume" % (label, sc.short(o.line, 60), o.kind, o.payload[:40]), {"script": script}); return False
        if ex is None:
            continue
        if ex[0] == "list":
            want, is_root, added, optional = ex[1], ex[2], ex[3], ex[4]
            got = {}
            for e in o.extra:
                nm = bytes.fromhex(e[8]).decode("utf-8") if e[8] != "-" else ""
                got[nm] = e
            extra = set(got) - set(want) - ({".", ".."} if not is_root else set()) - added - set(optional)
            if added - set(got):
                rep.violation("[C08 %s] objects created through the library are not listed: %r" % (label, sorted(added - set(got))), {"script": script}); return False
            if extra or set(want) - set(got):
                rep.violation("[C08 %s] listing differs from the builder's ground truth: unexpected %r, missing %r"
                              % (label, sorted(extra)[:3], sorted(set(want) - set(got))[:3]), {"script": script}); return False
            for nm, exp in want.items():
                e = got[nm]
                short = bytes.fromhex(e[9]).decode("utf-8") if e[9] != "-" else ""
                fields = (int(e[2]), int(e[3]), int(e[4]), e[5], e[6], e[7], short)
                if e[4] == "1" and exp[2] == 1:
                    # a directory that received new entries has a new modification time: compare the rest
                    fields = fields[:4] + (exp[4],) + fields[5:]
                if fields != exp:
                    rep.violation("[C08 %s] entry %r: library reports (attr,size,dir,created,modified,accessed,short) %r, ground truth %r"
                                  % (label, nm, fields, exp), {"script": script}); return False
        elif ex[0] == "read":
            data = bytes.fromhex(o.payload) if o.payload not in ("", "-") else b""
            if data != ex[1].content:
                rep.violation("[C08 %s] file content read through the library differs from the ground truth (%d vs %d bytes)"
                              % (label, len(data), len(ex[1].content)), {"script": script}); return False
        elif ex[0] == "extents":
            n = ex[1]
            exp = []
            left = len(n.content)
            for c in n.chain:
                exp.append("%d:%d" % (b.cluster_off(c), min(b.cs, left))); left -= min(b.cs, left)
            if o.payload.split() != exp:
                rep.violation("[C08 %s] extents %s differ from the ground-truth chain %s" % (label, o.payload[:80], " ".join(exp)[:80]), {"script": script}); return False
    return True

def fat_entries(b, raw):
    n = b.clusters + 2
    if b.bits == 12:
        return [((raw[c + c // 2] | (raw[c + c // 2 + 1] << 8)) >> (4 if c % 2 else 0)) & 0xFFF for c in range(n)]
    if b.bits == 16:
        return [int.from_bytes(raw[2 * c:2 * c + 2], "little") for c in range(n)]
    return [int.from_bytes(raw[4 * c:4 * c + 4], "little") for c in range(n)]

def run(rep, tier, seed):
    rng = vlib.Rng(seed)
    n = 40 if tier == "quick" else 600
    cache = os.path.join(vlib.ROOT, ".cache", "c08"); os.makedirs(cache, exist_ok=True)
    kinds = {}
    scripts = []; metas = []
    for i in range(n):
        # the first two volumes of every run: exactly maximal FAT12 / FAT16 volumes with a chain through the highest cluster number
        # the third and fourth: FAT32 volumes whose information sector stores a free count smaller than reality (0 / 2)
        # the fifth and sixth: fixed roots used up to their very last slot
        b = imgbuilder.Builder(rng, force_top={0: 12, 1: 16}.get(i), stale_count={2: 0, 3: 2}.get(i), full_root=i in (4, 5)).build()
        path = os.path.join(cache, "img%d.txt" % i)
        open(path, "w").write(b.sparse_text())
        key = "fat%d bps%d spc%d fats%d %s" % (b.bits, b.bps, b.spc, b.fats, "mirror" if b.mirror else "active%d" % b.active)
        kinds[key] = kinds.get(key, 0) + 1
        fat_len = b.spf * b.bps
        dumps = ["dump %d %d" % ((b.reserved + k * b.spf) * b.bps, fat_len) for k in range(b.fats)]
        t1, e1 = traversal(b)
        # modification through the library: new objects only, plus removal of one existing file
        dirs, files = [], []
        walk(b, b.root, [], dirs, files)
        dpath = rng.choice(dirs)[0]
        if b.full_root:
            # the root has no free slot: the new objects go into a sub-directory (there is one: see below), the victim is not in the root
            sub = [d_ for d_ in dirs if d_[0]]
            dpath = sub[0][0] if sub else dpath
        newf = "/".join(dpath + ["added by the library (long name).bin"])
        newd = "/".join(dpath + ["NEWDIR"])
        victim = rng.choice(files) if files and rng.chance(2, 3) else None
        if b.force_top:
            victim = [f for f in files if f[0][-1].upper() == "TOPCHAIN.BIN"][0]
        if b.full_root:
            inner = [f for f in files if len(f[0]) > 1]
            victim = inner[0] if inner else None
        mut = ["create_file 0 %s 90" % hexs(newf), "write_pat 90 %d 3" % rng.range(1, 3 * b.cs), "drop_file 90",
               "create_dir 0 %s 0" % hexs(newd), "create_file 0 %s 91" % hexs(newd + "/x.txt"), "write_pat 91 10 1", "drop_file 91"]
        if victim:
            mut.append("remove 0 %s" % hexs("/".join(victim[0])))
        if b.nearfull:
            # more than what is left: the scan must reach the end of the table and report NotEnoughSpace, nothing else
            victim = None
            mut = ["create_file 0 %s 90" % hexs(newf), "write_pat 90 %d 3" % (40 * b.cs), "drop_file 90"]
        head = ["dev %d 0" % (b.vol_bytes + 4096), "wlog 0", "load %s" % path, "pages", "wlog 1"] + dumps + ["mount 1 0 table", "label_root"]
        s = head + t1 + ["stats"] + mut + ["drop_all", "unmount"] + dumps + ["mount 1 0 table"]
        # second traversal against the updated truth
        if victim:
            for pth, d in dirs:
                if victim[1] in d.children:
                    d.children.remove(victim[1])
        t2, e2 = traversal(b, base_h=500, extra={tuple(dpath): ({"added by the library (long name).bin", "NEWDIR"} if not b.nearfull else set())},
                           optional={"added by the library (long name).bin"} if b.nearfull else set())
        s += t2 + ["unmount"]
        scripts.append(s)
        metas.append((b, len(head), len(t1), e1, len(mut), e2, victim, key, dpath == []))
    judged = sessions.run_judged(scripts, flags=("regions", "wfs", "infos"), shards=16)
    for jd, (b, nhead, nt1, e1, nmut, e2, victim, key, in_root) in zip(judged, metas):
        rep.count()
        label = key
        ops = jd.ops
        bad = [o for o in ops[:nhead] if o.kind != "ok"]
        if bad:
            rep.violation("[C08 %s] specification-valid foreign volume is not accepted: %s -> %s %s" % (label, bad[0].line[:40], bad[0].kind, bad[0].payload[:40]),
                          {"script": jd.script[:nhead]}); continue
        if b.has_label and ops[nhead - 1].payload != b"FOREIGN VOL".hex():
            rep.violation("[C08 %s] volume label in the root directory not found: %s" % (label, ops[nhead - 1].payload), {"script": jd.script[:nhead]}); continue
        if not check_traversal(rep, b, ops[nhead:nhead + nt1], e1, jd.script[:nhead + nt1], label):
            continue
        st = ops[nhead + nt1]
        want_free = b.free_count if b.stale_count is None else min(b.stale_count, b.free_count)      # a stored count is taken as it is
        if st.kind == "ok" and int(st.payload.split()[2]) != want_free:
            rep.violation("[C08 %s] stats reports %s free clusters, the builder left %d free" % (label, st.payload.split()[2], want_free),
                          {"script": jd.script[:nhead + nt1 + 1]}); continue
        m0 = nhead + nt1 + 1
        mops = ops[m0:m0 + nmut + 2]
        # lines the executor rejected because an earlier (failed) create produced no handle are not calls of the library
        no_handle = lambda o: o.kind == "bad" and b"handle" in bytes.fromhex(o.payload or "")
        bad = [o for o in mops if o.kind != "ok" and not no_handle(o) and not (b.nearfull and o.kind == "err" and o.payload.startswith("NotEnoughSpace"))]
        # nothing may be written outside the volume's structures, whatever the outcome
        stray = [(oi, r) for oi in range(m0, m0 + nmut + 2) for r in jd.regions.get(oi, []) if r[0].split(":")[0] in ("outside", "tail", "boot") or r[1].split(":")[0] in ("outside", "tail", "boot")]
        if stray:
            oi, r = stray[0]
            rep.violation("[C08 %s] %s writes %d bytes at device offset %d: %s" % (label, sc.short(ops[oi].line, 50), r[4], r[3], r[0]), {"script": jd.script[:oi + 1]}); continue
        if bad and bad[0].kind == "err" and bad[0].payload.split(" ")[0] == "NotEnoughSpace":
            # out of space on a small image: justified when the raw table has no (not enough) free cluster left, or when the
            # destination is the fixed root and no run of free slots is long enough; nothing more is claimed for such an image
            oi_bad = m0 + mops.index(bad[0])
            info = jd.info.get(oi_bad)
            nm = sc.opname(bad[0])
            if nm in ("create_file", "create_dir", "rename"):
                msg = sc.unjustified_nospace(jd, oi_bad, bad[0]) if info is not None else "no decode available"
            else:
                msg = None if (info is not None and int(info["free"]) == 0) else "the raw table still has %s free clusters" % (info["free"] if info else "?")
            if msg is None:
                rep.cov["out_of_space_images"] = rep.cov.get("out_of_space_images", 0) + 1
                continue
            rep.violation("[C08 %s] %s -> NotEnoughSpace is not justified: %s" % (label, sc.short(bad[0].line, 50), msg), {"script": jd.script[:oi_bad + 1]}); continue
        if bad:
            rep.violation("[C08 %s] modifying the foreign volume failed: %s -> %s %s" % (label, sc.short(bad[0].line, 50), bad[0].kind, bad[0].payload[:40]),
                          {"script": jd.script[:m0 + nmut + 2]}); continue
        # conservative modification: no new structural issue; FAT copies / reserved bits / unrelated entries untouched
        wf_before = set(jd.wf.get(nhead - 1, []))
        last_m = m0 + nmut + 1
        wf_after = set(jd.wf.get(last_m, []))
        new_issues = {i for i in wf_after - wf_before if not i.startswith("DotDot")}
        if new_issues:
            rep.violation("[C08 %s] after the modification the volume has new structural issues: %s" % (label, sorted(new_issues)[:4]),
                          {"script": jd.script[:last_m + 1]}); continue
        nd = b.fats
        before = [bytes.fromhex(ops[5 + k].payload) for k in range(nd)]
        after = [bytes.fromhex(ops[last_m + 1 + k].payload) for k in range(nd)]
        ok = True
        for k in range(nd):
            if b.mirror:
                if after[k] != after[0]:
                    rep.violation("[C08 %s] FAT copy %d differs from copy 0 after the modification (mirroring enabled)" % (label, k), {"script": jd.script[:last_m + 3]}); ok = False; break
            elif k != b.active and after[k] != before[k]:
                rep.violation("[C08 %s] inactive FAT copy %d was written although mirroring is disabled (active copy %d)" % (label, k, b.active),
                              {"script": jd.script[:last_m + 3]}); ok = False; break
        if not ok:
            continue
        act = b.active if not b.mirror else 0
        eb = fat_entries(b, before[act]); ea = fat_entries(b, after[act])
        victim_chain = set(victim[1].chain) if victim else set()
        mask = {12: 0xFFF, 16: 0xFFFF, 32: 0x0FFFFFFF}[b.bits]
        for c in range(len(eb)):
            if b.bits == 32 and (eb[c] >> 28) != (ea[c] >> 28):
                rep.violation("[C08 %s] reserved high bits of FAT32 entry %d changed: %08x -> %08x" % (label, c, eb[c], ea[c]), {"script": jd.script[:last_m + 3]}); ok = False; break
            if (eb[c] & mask) != (ea[c] & mask):
                was_free = (eb[c] & mask) == 0
                if c < 2 or not (was_free or c in victim_chain):
                    rep.violation("[C08 %s] FAT entry %d (value %x, not free and not part of the removed file) was changed to %x" % (label, c, eb[c], ea[c]),
                                  {"script": jd.script[:last_m + 3]}); ok = False; break
        if ok:
            nbytes = {12: ((b.clusters + 2) * 3 + 1) // 2, 16: (b.clusters + 2) * 2, 32: (b.clusters + 2) * 4}[b.bits]
            if before[act][nbytes + 1:] != after[act][nbytes + 1:]:
                rep.violation("[C08 %s] spare FAT entries after the last cluster (%d) were written" % (label, b.clusters + 1), {"script": jd.script[:last_m + 3]}); ok = False
        if not ok:
            continue
        t2_start = last_m + 1 + nd + 1
        if not check_traversal(rep, b, ops[t2_start:t2_start + len(e2)], e2_with_new(e2), jd.script, label + " after modification"):
            continue
        rep.distinct(jd.script[2])
    rep.cov["image_kinds"] = kinds
    rep.cov["traces_validated_against_impl"] = len(judged)
    rep.cov["rule"] = ("images from the independent builder: FAT12/16/32, sector 512-4096, 1-3 FAT copies, FAT32 mirroring off with any active "
                       "copy (other copies garbage), oversized FATs, fragmented out-of-order chains, random legal EOC markers, random FAT32 high "
                       "nibbles, bad-cluster marks, deleted / deleted-LFN / orphan-LFN slots, SFN-only entries with lowercase flags, 0x05 lead byte, "
                       "OEM bytes, label anywhere in the root, all attribute bits; full traversal vs ground truth; then create/write/mkdir/remove "
                       "through the library and raw comparison of FAT copies, high bits, entries, plus a second traversal; distinct = images passing")
    b0 = metas[0][0]
    rep.sample({"image": metas[0][7], "clusters": b0.clusters, "root": [b0.display_name(n) for n in b0.root.children][:6]})

def e2_with_new(e2):
    return e2
