"""C10 - FAT copies and reserved table bits.  Proof: Props/C10.v (byte-level FAT12/16/32 codecs over a mirrored slice).
Check: operation histories on formatted volumes (1 and 2 FAT copies, all widths) and on crafted volumes the library's own
format cannot produce (3 copies, FAT32 mirroring disabled with each active copy, non-zero reserved high nibbles):
  direct  - after every call all mirrored copies are byte-identical (own tracking of the device writes + the judge's copies=),
            with mirroring off every write into the FAT region lies inside the active copy, the raw reserved entries 0/1 of
            every copy never change, no write touches the reserved or the padding entries, FAT32 high nibbles survive,
            data read back stays correct (judge tree/file verdicts, structural chain checks on a subset);
  model   - every table update observed in the write log is replayed through Model/Fat.v fat_set (mode c10 of the model
            runner) on the bytes before the call; the model's bytes for all copies must equal what the library wrote."""
import collections
import vlib, sessions, fatimg
from vlib import hexs
from props import sess_common as sc

PROP_FILES = ["Props/C10.v"]

def le(b, o, n):
    return int.from_bytes(b[o:o + n], "little")

# ---------------------------------------------------------------- pages <-> python
def parse_pages(payload):
    t = payload.split(" ")
    return [(int(t[i]), bytes.fromhex(t[i + 1])) for i in range(0, len(t) - 1, 2)]

class Sparse:
    """device image as page dict (only used to craft volumes)"""
    def __init__(self, pages):
        self.d = {}
        for off, b in pages:
            self.write(off, b)
    def write(self, off, b):
        for i, x in enumerate(b):
            if x != 0 or (off + i) in self.d:
                self.d[off + i] = x
    def read(self, off, n):
        return bytes(self.d.get(off + i, 0) for i in range(n))
    def zero(self, off, n):
        for a in [a for a in self.d if off <= a < off + n]:
            del self.d[a]
    def pokes(self):
        """poke lines for all non-zero bytes, grouped in runs"""
        out = []; run = None; start = None
        for a in sorted(self.d):
            if run is not None and a == start + len(run) and len(run) < 4096:
                run.append(self.d[a])
            else:
                if run: out.append("poke %d %s" % (start, bytes(run).hex()))
                start = a; run = bytearray([self.d[a]])
        if run: out.append("poke %d %s" % (start, bytes(run).hex()))
        return out

# ---------------------------------------------------------------- crafted volumes
def craft_3copies_fixed_root(sp):
    """FAT12/16 formatted with 2 copies -> 3 copies: the third copy takes the first sectors of the (empty) root directory"""
    g = fatimg.Geom(sp.read(0, 512))
    fb = g.spf * g.bps
    e2 = g.root_entries - fb // 32
    assert g.fats == 2 and e2 >= 16 and not g.is32
    root_len = g.root_entries * 32
    assert sp.read(g.root_off, root_len) == bytes(root_len), "root directory not empty after format"
    sp.write(g.root_off, sp.read(g.fat_off, fb))
    sp.write(16, bytes([3])); sp.write(17, e2.to_bytes(2, "little"))
    g2 = fatimg.Geom(sp.read(0, 512))
    assert g2.data_off == g.data_off and g2.clusters == g.clusters and g2.bits == g.bits

def craft_3copies_fat32(sp, clusters=65530, spf2=512):
    """FAT32 formatted with 2 big copies -> 3 copies of spf2 sectors in the same space, fewer clusters"""
    g = fatimg.Geom(sp.read(0, 512))
    assert g.fats == 2 and g.is32 and g.bps == 512 and g.spc == 1
    r2 = g.reserved + 2 * g.spf - 3 * spf2
    assert r2 >= g.reserved and spf2 * 128 >= clusters + 2
    fat = bytearray(sp.read(g.fat_off, spf2 * 512))
    for c in range(clusters + 2, spf2 * 128):
        fat[4 * c:4 * c + 4] = (0x0FFFFFFF).to_bytes(4, "little")
    sp.zero(g.fat_off, 2 * g.spf * 512)
    for k in range(3):
        sp.write((r2 + k * spf2) * 512, bytes(fat))
    total = g.first_data + clusters
    for base in (0, 6 * 512):
        sp.write(base + 14, r2.to_bytes(2, "little")); sp.write(base + 16, bytes([3]))
        sp.write(base + 32, total.to_bytes(4, "little")); sp.write(base + 36, spf2.to_bytes(4, "little"))
    fsi = le(sp.read(0, 512), 48, 2) * 512
    sp.d.update({fsi + 488 + i: 0xFF for i in range(8)})     # free count / next free unknown
    g2 = fatimg.Geom(sp.read(0, 512))
    assert g2.data_off == g.data_off and g2.clusters == clusters and g2.bits == 32 and g2.fats == 3

def craft_ext_flags(sp, mirroring_off, active):
    sp.write(40, ((0x80 if mirroring_off else 0) | active).to_bytes(2, "little"))

def craft_backup_last_reserved(sp):
    """another formatter's reserved area: the backup boot sector in the LAST reserved sector (directly in front of the first
    FAT copy), the information sector where it was - every field valid (each below the reserved count)"""
    g = fatimg.Geom(sp.read(0, 512))
    old = int.from_bytes(sp.read(50, 2), "little")
    new = g.reserved - 1
    sp.write(50, new.to_bytes(2, "little"))
    bs = sp.read(0, g.bps)
    if old:
        sp.zero(old * g.bps, g.bps)
    sp.zero(new * g.bps, g.bps)
    sp.write(new * g.bps, bs)

def craft_high_nibbles(sp, rng, same_in_all_copies):
    """non-zero reserved high nibbles in FAT32 entries (entry 0, the root chain, free, padding entries)"""
    g = fatimg.Geom(sp.read(0, 512))
    fb = g.spf * g.bps
    ents = [0, 2, 3, 4, 5] + [rng.range(6, 400) for _ in range(120)] + [g.clusters + 2, g.clusters + 3]
    for c in set(ents):
        if 4 * c + 4 > fb: continue
        nib = rng.range(1, 15)
        for k in range(g.fats):
            a = g.fat_off + k * fb + 4 * c + 3
            n = nib if same_in_all_copies else ((nib + k * 3 - 1) % 15) + 1
            sp.write(a, bytes([(sp.read(a, 1)[0] & 0x0F) | (n << 4)]))

def set_raw(bits, buf, base, c, raw):
    if bits == 12:
        o = base + c + c // 2
        w = buf[o] | (buf[o + 1] << 8)
        w = ((w & 0xF000) | raw) if c % 2 == 0 else ((w & 0x000F) | (raw << 4))
        buf[o] = w & 0xFF; buf[o + 1] = w >> 8
    elif bits == 16:
        buf[base + 2 * c:base + 2 * c + 2] = raw.to_bytes(2, "little")
    else:
        buf[base + 4 * c:base + 4 * c + 4] = raw.to_bytes(4, "little")

def craft_zeropad_nearfull(sp, keep):
    """foreign-style table: padding entries past the last cluster are zero (look free), all but `keep` data clusters are
    already marked as end-of-chain, so that a few writes exhaust the volume and the allocator scans up to the very end"""
    g = fatimg.Geom(sp.read(0, 512))
    fb = g.spf * g.bps
    for k in range(g.fats):
        buf = bytearray(sp.read(g.fat_off + k * fb, fb))
        top = {12: 0xFFF, 16: 0xFFFF, 32: 0x0FFFFFFF}[g.bits]
        first = 3 if g.bits == 32 else 2
        for c in range(first + keep, g.clusters + 2):
            set_raw(g.bits, buf, 0, c, top)
        for c in range(g.clusters + 2, fb * 8 // g.bits):
            set_raw(g.bits, buf, 0, c, 0)
        sp.zero(g.fat_off + k * fb, fb)
        sp.write(g.fat_off + k * fb, bytes(buf))
    if g.bits == 32:
        fsi = le(sp.read(0, 512), 48, 2) * 512
        sp.d.update({fsi + 488 + i: 0xFF for i in range(8)})

def fill_body(rng, cluster, keep):
    lines = []; h = 1
    for rnd in range(3):
        lines += ["create_file 0 %s %d" % (hexs("big%d" % rnd), h), "write_pat %d %d %d" % (h, (keep + 6) * cluster, rng.below(256)),
                  "drop_file %d" % h]; h += 1
        lines += ["create_file 0 %s %d" % (hexs("more%d" % rnd), h), "write_pat %d %d %d" % (h, 2 * cluster + 1, rng.below(256)), "drop_file %d" % h]; h += 1
        lines += ["create_dir 0 %s 0" % hexs("dir%d" % rnd), "stats"]
        lines += ["remove 0 %s" % hexs("big%d" % rnd)]
        if rng.chance(1, 2): lines += ["remove 0 %s" % hexs("more%d" % rnd)]
    return lines

# ---------------------------------------------------------------- tracking the FAT region from the write log
class Tracker:
    def __init__(self, pages):
        bs = b""
        for off, b in pages:
            if off == 0: bs = b[:512]
        self.g = g = fatimg.Geom(bs)
        self.bits = g.bits
        self.fb = g.spf * g.bps; self.nf = g.fats; self.start = g.fat_off; self.end = self.start + self.nf * self.fb
        ext = le(bs, 40, 2) if g.is32 else 0
        self.mirror = (ext & 0x80) == 0
        self.active = 0 if self.mirror else (ext & 0x0F)
        self.first = self.active
        self.mirrors = self.nf if self.mirror else 1
        self.region = bytearray(self.nf * self.fb)
        for off, b in pages:
            self.apply(off, b)
        self.initial = bytes(self.region)
        self.elen = 4 if self.bits == 32 else 2
        self.res_len = {12: 3, 16: 4, 32: 8}[self.bits]
        last = g.clusters + 1                      # last data cluster
        self.data_end = self.eoff(last) + self.elen     # first byte after the entry of the last data cluster
    def eoff(self, c):
        return c + c // 2 if self.bits == 12 else (2 * c if self.bits == 16 else 4 * c)
    def apply(self, off, b):
        """applies a device write; returns the list of (copy, rel, bytes) pieces inside the FAT region"""
        out = []
        lo = max(off, self.start); hi = min(off + len(b), self.end)
        if lo >= hi: return out
        self.region[lo - self.start:hi - self.start] = b[lo - off:hi - off]
        a = lo
        while a < hi:
            k = (a - self.start) // self.fb
            e = min(hi, self.start + (k + 1) * self.fb)
            out.append((k, a - self.start - k * self.fb, b[a - off:e - off]))
            a = e
        return out
    def copy(self, k, buf=None):
        buf = self.region if buf is None else buf
        return bytes(buf[k * self.fb:(k + 1) * self.fb])
    def raw(self, buf, k, c):
        o = k * self.fb + self.eoff(c)
        if self.bits == 12:
            w = le(buf, o, 2); return (w & 0xFFF) if c % 2 == 0 else (w >> 4)
        return le(buf, o, self.elen)
    def nentries(self):
        return self.fb * 8 // self.bits

def value_of(bits, raw):
    top = {12: 0xFFF, 16: 0xFFFF, 32: 0x0FFFFFFF}[bits]
    if bits == 32: raw &= 0x0FFFFFFF
    if raw == 0: return "F"
    if raw == top - 8: return "B"
    if raw >= top - 7: return "E"
    return "D%d" % raw

def merge_windows(ws):
    ws = sorted(ws); out = []
    for a, b in ws:
        if out and a <= out[-1][1]: out[-1][1] = max(out[-1][1], b)
        else: out.append([a, b])
    return out

# ---------------------------------------------------------------- evaluation of one judged script
class Eval:
    def __init__(self, rep, stats, label):
        self.rep = rep; self.stats = stats; self.label = label
        self.model_cases = []     # (line, expected output, script prefix, description)

    def viol(self, text, jd, oi):
        self.rep.violation("[C10] %s: %s" % (self.label, text), {"script": sc.script_prefix(jd, oi), "op_index": oi})
        return False

    def run(self, jd, want_model):
        st = self.stats
        pi = next((i for i, o in enumerate(jd.ops) if sc.opname(o) == "pages" and o.kind == "ok"), None)
        if pi is None:
            self.rep.violation("[C10] %s: setup failed (no pages)" % self.label, {"script": jd.script[:8]}, nofail=True); return False
        tr = Tracker(parse_pages(jd.ops[pi].payload))
        mount = next((o for o in jd.ops[pi:] if sc.opname(o) == "mount"), None)
        if mount is None or mount.kind != "ok" or int(mount.payload.split(" ")[0]) != tr.bits:
            self.rep.violation("[C10] %s: setup failed: mount -> %s %s" % (self.label, mount and mount.kind, mount and mount.payload),
                               {"script": jd.script[:pi + 4]}, nofail=True); return False
        f = sc.Findings(jd)
        upto = f.stop_at if f.stop_at is not None else len(jd.ops)
        res_first = None
        ok = True
        for oi in range(pi + 1, len(jd.ops)):
            o = jd.ops[oi]
            if o.kind in ("skipped",): break
            name = sc.opname(o)
            pieces = []; pre = None
            for off, hx, depth in o.writes():
                b = bytes.fromhex(hx)
                if off < tr.end and off + len(b) > tr.start:
                    if pre is None: pre = bytes(tr.region)
                    if off < tr.start or off + len(b) > tr.end:
                        return self.viol("%s: device write %d+%d straddles the boundary of the FAT region" % (sc.short(o.line, 60), off, len(b)), jd, oi)
                    ps = tr.apply(off, b)
                    if len(ps) != 1:
                        return self.viol("%s: device write %d+%d crosses a FAT copy boundary" % (sc.short(o.line, 60), off, len(b)), jd, oi)
                    pieces.append(ps[0])
            if name == "dump" and o.kind == "ok" and o.line.split(" ")[1] == str(tr.start):
                st["dumps_compared"] += 1
                if bytes.fromhex(o.payload) != bytes(tr.region):
                    self.rep.violation("[C10] %s: tracked FAT region differs from the device dump (harness/tracking error)" % self.label,
                                       {"script": jd.script}, nofail=True)
                    return False
            if pieces:
                st["ops_with_fat_writes"] += 1
                st["fat_writes"] += len(pieces)
                # (i) which copies were written
                for k, rel, b in pieces:
                    if not tr.mirror and k != tr.active:
                        return self.viol("%s: mirroring is disabled (active copy %d) but copy %d was written at +%d" %
                                         (sc.short(o.line, 60), tr.active, k, rel), jd, oi)
                    # reserved entries / padding entries are never written
                    if rel < tr.res_len:
                        return self.viol("%s: write at +%d of copy %d touches the reserved entries 0/1" % (sc.short(o.line, 60), rel, k), jd, oi)
                    if rel + len(b) > tr.data_end:
                        return self.viol("%s: write at +%d..+%d of copy %d reaches past the entry of the last cluster %d (padding entry)" %
                                         (sc.short(o.line, 60), rel, rel + len(b), k, tr.g.clusters + 1), jd, oi)
                # FAT32 high nibbles of every touched entry, every copy
                if tr.bits == 32:
                    for k, rel, b in pieces:
                        for c in range(rel // 4, (rel + len(b) + 3) // 4):
                            for kk in range(tr.nf):
                                if (tr.raw(tr.region, kk, c) ^ tr.raw(pre, kk, c)) & 0xF0000000:
                                    return self.viol("%s: reserved high nibble of FAT32 entry %d (copy %d) changed %08x -> %08x" %
                                                     (sc.short(o.line, 60), c, kk, tr.raw(pre, kk, c), tr.raw(tr.region, kk, c)), jd, oi)
                            st["nibble_entries_checked"] += 1
                if want_model:
                    self.add_model_case(tr, pre, pieces, jd, oi)
            # after every call: copies identical (mirroring on), reserved entries as formatted
            if tr.mirror and tr.nf > 1 and (pieces or oi == pi + 1):
                c0 = tr.copy(0)
                for k in range(1, tr.nf):
                    if tr.copy(k) != c0:
                        d = next(i for i in range(tr.fb) if tr.region[i] != tr.region[k * tr.fb + i])
                        return self.viol("after %s FAT copy %d differs from copy 0 at +%d" % (sc.short(o.line, 60), k, d), jd, oi)
            st["ops_checked"] += 1
            if pieces:
                for k in range(tr.nf):
                    if tr.region[k * tr.fb:k * tr.fb + tr.res_len] != tr.initial[k * tr.fb:k * tr.fb + tr.res_len]:
                        return self.viol("after %s the reserved entries of copy %d changed" % (sc.short(o.line, 60), k), jd, oi)
            # the judge's independent view
            info = jd.info.get(oi)
            if info is not None and oi < upto:
                st["judge_infos"] += 1
                if tr.mirror and info["copies"] != "1":
                    return self.viol("after %s the independent decoder sees different FAT copies" % sc.short(o.line, 60), jd, oi)
                r = (info["res0"], info["res1"])
                if res_first is None:
                    res_first = r
                    exp0 = [str(tr.raw(tr.initial, k, 0)) for k in range(tr.nf)]
                    if r[0].split(",") != exp0:
                        self.rep.violation("[C10] %s: judge and tracker disagree on entry 0: %s vs %s" % (self.label, r[0], exp0), {"script": jd.script[:pi + 2]}, nofail=True)
                        return False
                elif r != res_first:
                    return self.viol("after %s the raw reserved entries are %s / %s, after format they were %s / %s" %
                                     (sc.short(o.line, 60), r[0], r[1], res_first[0], res_first[1]), jd, oi)
        # end of history: padding entries, all high nibbles, inactive copies
        fin = bytes(tr.region)
        for k in range(tr.nf):
            if not tr.mirror and k != tr.active and tr.copy(k) != tr.copy(k, tr.initial):
                return self.viol("mirroring disabled: inactive copy %d changed during the history" % k, jd, len(jd.ops) - 1)
            for c in range(tr.g.clusters + 2, tr.nentries()):
                if tr.raw(fin, k, c) != tr.raw(tr.initial, k, c):
                    return self.viol("padding entry %d (copy %d) changed: %x -> %x" % (c, k, tr.raw(tr.initial, k, c), tr.raw(fin, k, c)), jd, len(jd.ops) - 1)
            if tr.bits == 32:
                for c in range(tr.nentries()):
                    if (tr.raw(fin, k, c) ^ tr.raw(tr.initial, k, c)) & 0xF0000000:
                        return self.viol("reserved high nibble of FAT32 entry %d (copy %d) changed over the history: %08x -> %08x" %
                                         (c, k, tr.raw(tr.initial, k, c), tr.raw(fin, k, c)), jd, len(jd.ops) - 1)
            # every link points at a data cluster
            for c in range(2, tr.g.clusters + 2):
                v = tr.raw(fin, k, c)
                if tr.bits == 32: v &= 0x0FFFFFFF
                top = {12: 0xFF7, 16: 0xFFF7, 32: 0x0FFFFFF7}[tr.bits]
                if v != 0 and v < top and not (2 <= v < tr.g.clusters + 2):
                    return self.viol("entry %d (copy %d) links to %d, outside the data clusters 2..%d" % (c, k, v, tr.g.clusters + 1), jd, len(jd.ops) - 1)
        st["changed_entries"] += sum(1 for c in range(2, tr.g.clusters + 2) if tr.raw(fin, tr.first, c) != tr.raw(tr.initial, tr.first, c))
        # (iii) behaviour stays correct: abstract tree / file verdicts, structural chains
        ign = 0
        for obs, text, oi, known in f.items:
            if obs in ("crash", "harness"):
                ok = self.viol(text, jd, oi)
            elif obs in ("tree", "file", "match") or (obs == "wf" and text.split(" ")[2].split("(")[0] in ("ChainBroken", "CrossLink", "RootChain")):
                if known: ign += 1
                else: ok = self.viol(text, jd, oi)
        st["ignored_known_class_findings"] += ign
        st["verdicts"] += sum(1 for v in jd.verdicts.values() if v[0] == "ok")
        return ok

    def add_model_case(self, tr, pre, pieces, jd, oi):
        """replays the updates seen in the first/active copy through the model and expects the library's bytes in all copies"""
        o = jd.ops[oi]
        sets = []
        for k, rel, b in pieces:
            if k != tr.first: continue
            if len(b) != tr.elen:
                self.rep.violation("[C10] %s: %s wrote %d bytes at +%d of the table; the model writes whole %d-byte entries" %
                                   (self.label, sc.short(o.line, 60), len(b), rel, tr.elen),
                                   {"correspondence": "Model/Fat.v set vs write log", "script": sc.script_prefix(jd, oi)}, nofail=True)
                return
            if tr.bits == 12:
                if rel % 3 == 2:
                    self.rep.violation("[C10] %s: %s wrote at +%d, no FAT12 entry starts there" % (self.label, sc.short(o.line, 60), rel),
                                       {"correspondence": "Model/Fat.v set12 vs write log", "script": sc.script_prefix(jd, oi)}, nofail=True)
                    return
                c = 2 * (rel // 3) + (rel % 3)
                w = le(b, 0, 2); raw = (w & 0xFFF) if c % 2 == 0 else (w >> 4)
            else:
                if rel % tr.elen:
                    self.rep.violation("[C10] %s: %s wrote at unaligned +%d" % (self.label, sc.short(o.line, 60), rel),
                                       {"correspondence": "Model/Fat.v set vs write log", "script": sc.script_prefix(jd, oi)}, nofail=True)
                    return
                c = rel // tr.elen; raw = le(b, 0, tr.elen)
            sets.append((c, value_of(tr.bits, raw)))
        if not sets: return
        total = tr.nf * tr.fb
        if total <= 4096:
            wins = [[0, total]]
        else:
            wins = merge_windows([(max(0, k * tr.fb + tr.eoff(c) - 8), min(total, k * tr.fb + tr.eoff(c) + tr.elen + 8))
                                  for c, _ in sets for k in range(tr.nf)])
        post = tr.region
        # outside the windows nothing may change (frame, checked directly on the implementation)
        a = 0
        for lo, hi in wins + [[total, total]]:
            if pre[a:lo] != post[a:lo]:
                d = next(i for i in range(a, lo) if pre[i] != post[i])
                self.viol("%s changed FAT region byte +%d, which belongs to no entry it updated" % (sc.short(o.line, 60), d), jd, oi)
                return
            a = hi
        chunks = ";".join("%d:%s" % (lo, pre[lo:hi].hex()) for lo, hi in wins)
        ranges = ";".join("%d:%d" % (lo, hi - lo) for lo, hi in wins)
        line = "sets %d %d %d %d %s %s %s" % (tr.bits, tr.first * tr.fb if not tr.mirror else 0, tr.fb, tr.mirrors, chunks,
                                            ",".join("%d:%s" % s for s in sets), ranges)
        exp = "ok " + ";".join(bytes(post[lo:hi]).hex() for lo, hi in wins)
        self.model_cases.append((line, exp, sc.script_prefix(jd, oi), "%s %s sets=%s" % (self.label, sc.short(o.line, 50), sets[:6])))
        self.stats["model_sets"] += len(sets)


# ---------------------------------------------------------------- volumes
FORMATTED = [
    ("fat12-tiny-2fat", 64 * 512, "format 512 64 512 12 16 2 - - -"),
    ("fat12-small-2fat", 400 * 512, "format 512 400 512 12 32 2 - - -"),
    ("fat12-1fat", 300 * 512, "format 512 300 512 12 64 1 - - -"),
    ("fat12-c2k-2fat", 2000 * 512, "format 512 2000 2048 12 512 2 - - -"),
    ("fat12-s1k-2fat", 600 * 1024, "format 1024 600 1024 12 32 2 - - -"),
    ("fat16-min-2fat", 4400 * 512, "format 512 4400 512 16 32 2 - - -"),
    ("fat16-1fat", 4400 * 512, "format 512 4400 512 16 64 1 - - -"),
    ("fat32-min-2fat", 67000 * 512, "format 512 67000 512 32 - 2 - - -"),
    ("fat32-1fat", 67000 * 512, "format 512 67000 512 32 - 1 - - -"),
]
CRAFT_BASES = {
    "b12": (420 * 512, "format 512 420 512 12 64 2 - - -"),
    "b16": (4500 * 512, "format 512 4500 512 16 512 2 - - -"),
    "b32": (67000 * 512, "format 512 67000 512 32 - 2 - - -"),
    "b32-1": (67000 * 512, "format 512 67000 512 32 - 1 - - -"),
    "b32big": (100200 * 512, "format 512 100200 512 32 - 2 - - -"),
}

def crafted_volumes(rng, tier):
    """-> list of (label, device size, [poke lines], cluster size)"""
    keys = list(CRAFT_BASES)
    res = vlib.run_scripts([["dev %d 0" % CRAFT_BASES[k][0], "wlog 0", CRAFT_BASES[k][1], "pages"] for k in keys])
    base = {}
    for k, r in zip(keys, res):
        assert r[3].kind == "ok", (k, r[2], r[3].kind)
        base[k] = parse_pages(r[3].payload)
    out = []
    def add(label, k, fn):
        sp = Sparse(base[k]); fn(sp)
        out.append((label, CRAFT_BASES[k][0], sp.pokes(), 512))
    add("fat12-3copies", "b12", craft_3copies_fixed_root)
    add("fat16-3copies", "b16", craft_3copies_fixed_root)
    add("fat32-2copies-nibbles", "b32", lambda sp: craft_high_nibbles(sp, rng, True))
    for act in (0, 1):
        def fn(sp, act=act):
            craft_ext_flags(sp, True, act); craft_high_nibbles(sp, rng, False)
        add("fat32-2copies-mirroroff-active%d" % act, "b32", fn)
    add("fat32-2copies-backup-in-last-reserved", "b32", craft_backup_last_reserved)
    def fn1(sp):
        craft_ext_flags(sp, True, 0); craft_high_nibbles(sp, rng, True)
    add("fat32-1copy-mirroroff", "b32-1", fn1)
    def fn3(sp):
        craft_3copies_fat32(sp); craft_high_nibbles(sp, rng, True)
    add("fat32-3copies-nibbles", "b32big", fn3)
    for act in (0, 1, 2):
        def fn(sp, act=act):
            craft_3copies_fat32(sp); craft_ext_flags(sp, True, act); craft_high_nibbles(sp, rng, False)
        add("fat32-3copies-mirroroff-active%d" % act, "b32big", fn)
    # near-full volumes with zeroed padding entries: run without the judge (pre-marked clusters are lost chains by construction)
    add("fat12-zeropad-nearfull", "b12", lambda sp: craft_zeropad_nearfull(sp, 30))
    add("fat16-zeropad-nearfull", "b16", lambda sp: craft_zeropad_nearfull(sp, 30))
    add("fat32-zeropad-nearfull", "b32", lambda sp: craft_zeropad_nearfull(sp, 30))
    def fnz(sp):
        craft_3copies_fixed_root(sp); craft_zeropad_nearfull(sp, 25)
    add("fat12-3copies-zeropad-nearfull", "b12", fnz)
    return out

def fat_region_of(pages_or_bs):
    g = fatimg.Geom(pages_or_bs)
    return g.fat_off, g.fats * g.spf * g.bps

def body(rng, cluster, nops):
    g = sessions.Gen(rng)
    g.cluster = cluster
    while len(g.lines) < nops:
        g.step()
    return g.lines

def alloc_heavy_body(rng, cluster, nfiles):
    """growth, interleaved chains, truncation, removal: many table updates per call"""
    lines = []; h = 1; names = []
    for i in range(nfiles):
        nm = "f%d.bin" % i; names.append(nm)
        lines += ["create_file 0 %s %d" % (hexs(nm), h), "write_pat %d %d %d" % (h, rng.range(1, 6) * cluster + rng.range(0, cluster), rng.below(256))]
        if rng.chance(1, 2):
            lines += ["seek %d start %d" % (h, rng.range(0, 2 * cluster)), "truncate %d" % h]
        if rng.chance(1, 2):
            lines += ["seek %d end 0" % h, "write_pat %d %d %d" % (h, rng.range(1, 3) * cluster, rng.below(256))]
        lines += ["drop_file %d" % h]; h += 1
        if rng.chance(1, 3):
            lines += ["create_dir 0 %s 0" % hexs("d%d" % i), "create_file 0 %s 0" % hexs("d%d/a long file name inside.txt" % i)]
        if names and rng.chance(1, 3):
            v = names.pop(rng.below(len(names)))
            lines += ["remove 0 %s" % hexs(v)]
    for nm in names[: len(names) // 2]:
        lines += ["open_file 0 %s %d" % (hexs(nm), h), "read %d %d" % (h, 3 * cluster), "drop_file %d" % h]; h += 1
    lines += ["stats"]
    return lines

# ---------------------------------------------------------------- the check
def run(rep, tier, seed):
    rng = vlib.Rng(seed)
    quick = tier == "quick"
    stats = collections.Counter()
    # boot sectors of the formatted configurations (to know where the table is, for the final dump)
    # tables with an unused tail sector (the copies are further apart than their used part is long), found through the hook
    global FORMATTED
    FORMATTED = [f for f in FORMATTED if not f[0].endswith("-sparefat")]
    for bits, start, root in ((12, 1000, "32"), (16, 8000, "32")):
        ts = vlib.spare_sector_sectors(512, 512, start, bits, root=root)
        if ts is not None:
            FORMATTED.append(("fat%d-2fat-sparefat" % bits, ts * 512, "format 512 %d 512 %d %s 2 - - -" % (ts, bits, root)))
    heads = vlib.run_scripts([["dev %d 0" % size, "wlog 0", fmt, "dump 0 512"] for _, size, fmt in FORMATTED])
    regions = {}
    for (label, size, fmt), r in zip(FORMATTED, heads):
        assert r[3].kind == "ok", (label, r[2])
        regions[label] = fat_region_of(bytes.fromhex(r[3].payload))
    crafted = crafted_volumes(rng, tier)
    scripts = []      # (label, script, is_crafted)
    fills = []        # (label, script): evaluated from the write log only
    def clsize(fmt):
        t = fmt.split()
        return int(t[3]) if t[3] != "-" else (int(t[1]) if t[1] != "-" else 512)
    nA = 2 if quick else 16
    nB = 1 if quick else 8
    for rnd in range(nA):
        for label, size, fmt in FORMATTED:
            big = label.startswith("fat32")
            if quick and big and rnd > 0: continue
            nops = (16 if big else 45) if quick else (40 if big else 70)
            b = alloc_heavy_body(rng, clsize(fmt), (4 if quick else 6) if big else 10) if rnd % 2 else body(rng, clsize(fmt), nops)
            st, ln = regions[label]
            # every other round the device is not blank (0xD1 everywhere): whatever format does not write stays garbage
            s = ["dev %d %d" % (size, 209 if rnd % 2 else 0), "wlog 0", fmt, "pages", "wlog 1", "mount 1 0 lossy"] + b + ["drop_all", "unmount", "dump %d %d" % (st, ln)]
            scripts.append((label, s, False))
    for rnd in range(nB):
        for label, size, pokes, cl in crafted:
            big = label.startswith("fat32")
            if "nearfull" in label:
                if rnd >= (1 if quick else 6): continue
                bs = bytearray(512)
                for p in pokes:
                    t = p.split(" ")
                    if int(t[1]) < 512:
                        d = bytes.fromhex(t[2]); bs[int(t[1]):int(t[1]) + len(d)] = d[:512 - int(t[1])]
                st, ln = fat_region_of(bytes(bs))
                fills.append((label, ["dev %d 0" % size, "wlog 0"] + pokes + ["pages", "wlog 1", "mount 1 0 lossy"] +
                              fill_body(rng, cl, 30) +
                              # then: take every remaining cluster, close the session, and ask for one more cluster in a fresh
                              # session (no allocation hint: the scan starts at cluster 2 of a table without a free entry)
                              ["create_file 0 %s 90" % hexs("takes all the rest.bin"), "write_pat 90 %d 5" % (200 * cl), "drop_all", "unmount",
                               "mount 1 0 lossy", "create_file 0 %s 91" % hexs("one more.bin"), "write_pat 91 %d 6" % cl, "drop_file 91",
                               "create_dir 0 %s 0" % hexs("one more dir"), "stats"] +
                              ["drop_all", "unmount", "dump %d %d" % (st, ln)]))
                continue
            if quick and label in ("fat32-3copies-mirroroff-active0", "fat32-3copies-mirroroff-active1", "fat32-2copies-mirroroff-active0"):
                continue
            nops = (16 if big else 45) if quick else (40 if big else 70)
            b = alloc_heavy_body(rng, cl, (4 if quick else 6) if big else 10) if (rnd % 2 == 0) else body(rng, cl, nops)
            bs = bytearray(512)
            for p in pokes:
                t = p.split(" ")
                if int(t[1]) < 512:
                    d = bytes.fromhex(t[2]); bs[int(t[1]):int(t[1]) + len(d)] = d[:512 - int(t[1])]
            st, ln = fat_region_of(bytes(bs))
            s = ["dev %d 0" % size, "wlog 0"] + pokes + ["pages", "wlog 1", "mount 1 0 lossy"] + b + ["drop_all", "unmount", "dump %d %d" % (st, ln)]
            scripts.append((label, s, True))
    # wf (structural chain checks by the independent decoder) on a subset, tree/info everywhere
    wf_idx = [i for i in range(len(scripts)) if i % 4 == 0 and not scripts[i][0].startswith("fat32")]
    rest_idx = sorted([i for i in range(len(scripts)) if i not in set(wf_idx)], key=lambda i: not scripts[i][0].startswith("fat32"))
    judged = [None] * len(scripts)
    for idx, flags in ((wf_idx, ("info", "tree", "wf")), (rest_idx, ("info", "tree"))):
        js = sessions.run_judged([scripts[i][1] for i in idx], flags=flags, shards=16)
        for i, jd in zip(idx, js): judged[i] = jd
    evals = []
    per_label = collections.Counter()
    # near-full volumes: executor only
    fres = vlib.run_scripts([s for _, s in fills]) if fills else []
    for (label, s), ops in zip(fills, fres):
        rep.count()
        jd = sessions.Judged(s, ops, [])
        ev = Eval(rep, stats, label)
        if ev.run(jd, True):
            per_label[label] += 1
            stats["nospace_outcomes"] += sum(1 for o in ops if o.kind == "err" and o.payload.startswith("NotEnoughSpace"))
            k = next(i for i, l in enumerate(s) if l.startswith("mount"))
            rep.distinct((label, tuple(s[k:])))
        evals.append(ev)
    for (label, s, is_crafted), jd in zip(scripts, judged):
        rep.count()
        ev = Eval(rep, stats, label)
        ok = ev.run(jd, True)
        evals.append(ev)
        if ok:
            per_label[label] += 1
            k = next(i for i, l in enumerate(s) if l.startswith("mount"))
            if any(o.events and any(e[0] == "w" for e in o.events) for o in jd.ops[k:]):
                rep.distinct((label, tuple(s[k:])))
    # model correspondence: all collected table updates in one model-runner call
    cases = [c for ev in evals for c in ev.model_cases]
    if cases:
        outs = vlib.model_run("c10", "\n".join(c[0] for c in cases) + "\n")
        assert len(outs) == len(cases), (len(outs), len(cases))
        bad = 0
        for (line, exp, script, desc), got in zip(cases, outs):
            stats["model_cases"] += 1
            if got != exp:
                bad += 1
                if bad <= 3:
                    rep.violation("[C10] model/implementation mismatch on a table update (%s): model %s, library %s" % (desc, got[:120], exp[:120]),
                                  {"correspondence": "Model/Fat.v fat_set (mirrored slice write) vs device write log", "script": script,
                                   "model_line": line[:2000]}, nofail=True)
    rep.cov["traces_validated_against_impl"] = len(judged) + len(fills)
    rep.cov["scripts_per_volume"] = dict(per_label)
    rep.cov["counters"] = dict(stats)
    rep.cov["distribution"] = sc.distribution([jd for jd in judged])
    rep.cov["not_covered"] = ("alloc_cluster replay through the model (hint not observable); FAT12/16 have no mirroring flag in the format; "
                              "active copy >= number of copies (invalid volume) not generated")
    rep.cov["rule"] = ("histories (random namespace/file ops and allocation-heavy grow/truncate/remove cycles, ending in unmount) on formatted "
                       "volumes with 1 and 2 FAT copies (FAT12/16/32) and on crafted volumes: 3 copies (FAT12/16/32), FAT32 mirroring disabled "
                       "with every active copy (1-3 copies), non-zero reserved high nibbles in all / differing per copy; per call: byte equality "
                       "of copies, writes confined to the active copy, reserved and padding entries never written, high nibbles kept, judge "
                       "verdicts; per table update: bytes of all copies equal to Model/Fat.v fat_set; distinct = distinct (volume, op sequence) "
                       "with at least one device write and no finding")
    if scripts:
        rep.sample({"volume": scripts[0][0], "ops": [sc.short(l, 80) for l in scripts[0][1][6:16]]})
        rep.sample({"volume": scripts[-1][0], "ops": [sc.short(l, 80) for l in scripts[-1][1][-14:-3]]})
    if cases:
        rep.sample({"model_case": cases[0][3], "line": cases[0][0][:200], "expected": cases[0][1][:120]})
