"""C11 - writes stay inside the volume and inside what the operation may change: every device write of every operation
is classified by the extracted Spec/Regions.v against the volume decoded (Spec/Abs.v) BEFORE the operation."""
import vlib, sessions
from props import sess_common as sc

PROP_FILES = ["Props/C11.v"]
WRITE_OPS = ("write", "write_all", "write_pat")
DATA_ONLY_OPS = WRITE_OPS + ("truncate", "read", "read_all", "seek", "extents")

def embedded_configs():
    # (label, device bytes, format line): the device is larger than the volume; canary fill 0xD1 everywhere
    return [
        ("fat12-emb", 400 * 512 + 8192, "format 512 400 512 12 32 2 - - -"),
        ("fat12-c2k-emb", 2000 * 512 + 4096, "format 512 2000 2048 12 512 2 - - -"),
        ("fat12-s1k-emb", 600 * 1024 + 3000, "format 1024 600 1024 12 32 2 - - -"),
        ("fat16-emb", 4400 * 512 + 5000, "format 512 4400 512 16 32 2 - - -"),
        ("fat32-emb", 67000 * 512 + 8192, "format 512 67000 512 32 - 2 - - -"),
    ]

def run(rep, tier, seed):
    rng = vlib.Rng(seed)
    confs = embedded_configs()
    n = 50 if tier == "quick" else 800
    scripts = []; metas = []
    for i in range(n):
        conf = confs[i % len(confs)]
        if conf[0].startswith("fat32") and tier == "quick" and i % 3:
            conf = confs[rng.below(3)]
        label, size, fmt = conf
        g = sessions.Gen(rng, True, True)
        toks = fmt.split()
        g.cluster = int(toks[1]) if toks[3] == "-" else int(toks[3])
        while len(g.lines) < 40:
            g.step()
        s = ["dev %d 209" % size, "wlog 0", fmt, "pages", "wlog 1", "mount 1 0 lossy"] + g.lines
        vol_bytes = int(toks[2]) * int(toks[1])
        # second phase: a clean mount whose FIRST device writes are entry write-backs (time stamps set explicitly, or the
        # access date through reads with the option on), before any structural change of the session
        s += ["drop_all", "unmount", "clock 2031 7 8 9 10 12 0", "mount 1 1 lossy"]
        h = 700
        for pth in sorted(g.files)[:3]:
            h += 1
            s += ["open_file 0 %s %d" % (sessions.hexs("/".join(pth)), h)]
            k = rng.below(3)
            if k == 0: s += ["set_modified %d 2033 3 4 5 6 8 0" % h, "flush %d" % h]
            elif k == 1: s += ["read %d 10" % h, "set_created %d 2001 1 2 3 4 5 60" % h]
            else: s += ["set_accessed %d 2040 5 6" % h]
            s += ["drop_file %d" % h]
        for pth in sorted(q for q in g.dirs if q)[:2]:
            h += 1
            s += ["open_dir 0 %s %d" % (sessions.hexs("/".join(pth)), h), "list %d" % h, "drop_dir %d" % h]
        s += ["drop_all", "unmount", "dump %d %d" % (vol_bytes, size - vol_bytes)]
        scripts.append(s); metas.append((conf, vol_bytes))
    # FAT32 with mirroring switched off by another implementation (extended flags: bit 7 + the number of the active copy): table
    # updates go to ONE copy - with the active copy 1 a write "to every copy" would land behind the last table, in the data area
    for i in range(2 if tier == "quick" else 16):
        label, size, fmt = confs[4]
        toks = fmt.split()
        g = sessions.Gen(rng, True, True); g.cluster = 512
        while len(g.lines) < 30:
            g.step()
        # a first file of 137 clusters: later table updates concern entries >= 139, i.e. table offsets >= 556 - the same offsets
        # behind the last table lie in clusters owned by that file, not in the root directory's cluster
        s = ["dev %d 209" % size, "wlog 0", fmt, "poke 40 %02x00" % (0x80 | (1 - i % 2)), "pages", "wlog 1", "mount 1 0 lossy",
             "create_file 0 %s 90" % sessions.hexs("big first.bin"), "write_pat 90 70000 9", "drop_file 90"] + g.lines
        vol_bytes = int(toks[2]) * int(toks[1])
        s += ["drop_all", "unmount", "dump %d %d" % (vol_bytes, size - vol_bytes)]
        scripts.append(s); metas.append((confs[4], vol_bytes))
    for i in range(16 if tier == "quick" else 200):
        conf = confs[[0, 0, 3, 0][i % 4]] if tier == "quick" else confs[i % len(confs)]
        s = sessions.dir_heavy_session(rng, (conf[0], conf[1], conf[2]), nfiles=rng.range(8, 16))
        s[0] = "dev %d 209" % conf[1]
        vol_bytes = int(conf[2].split()[2]) * int(conf[2].split()[1])
        s += ["dump %d %d" % (vol_bytes, conf[1] - vol_bytes)]
        scripts.append(s); metas.append((conf, vol_bytes))
    # volumes whose padding FAT entries are zero (as other formatters leave them), odd and even cluster counts, filled to the
    # last cluster and asked for more, in the same and in a fresh session: nothing may land behind the last cluster
    import fatimg
    for ts in ((401, 402, 403) if tier == "quick" else range(396, 412)):
        o = vlib.exec_raw(["fmtbs"], "512 %d 512 12 32 2 - - -\n" % ts).split("\n")[0].split(" ")
        if o[0] != "ok":
            continue
        gm = fatimg.Geom(bytes.fromhex(o[-1]))
        fb = gm.spf * gm.bps
        first_pad = gm.clusters + 2
        pad_off = first_pad + first_pad // 2
        size = ts * 512 + 8192
        fmt = "format 512 %d 512 12 32 2 - - -" % ts
        zero = ["fillrange %d %d 0" % (gm.fat_off + k * fb + pad_off, fb - pad_off) for k in range(gm.fats)]
        hx = sessions.hexs
        s = ["dev %d 209" % size, "wlog 0", fmt] + zero + ["pages", "wlog 1", "mount 1 0 lossy",
             "create_file 0 %s 1" % hx("takes everything.bin"), "write_pat 1 %d 3" % (ts * 512), "drop_file 1",
             "create_file 0 %s 2" % hx("one more.bin"), "write_pat 2 512 4", "drop_file 2", "create_dir 0 %s 0" % hx("one more dir"),
             "drop_all", "unmount", "mount 1 0 lossy",
             "create_file 0 %s 3" % hx("fresh session.bin"), "write_pat 3 700 5", "drop_file 3", "create_dir 0 %s 0" % hx("fresh dir"),
             "remove 0 %s" % hx("takes everything.bin"), "create_file 0 %s 4" % hx("after remove.bin"), "write_pat 4 1500 6", "drop_file 4",
             "drop_all", "unmount", "dump %d %d" % (ts * 512, size - ts * 512)]
        scripts.append(s); metas.append((("fat12-zeropad-%d" % ts, size, fmt), ts * 512))
    judged = sessions.run_judged(scripts, flags=("tree", "regions"), shards=16)
    nwrites = 0
    kinds = {}
    for jd, (conf, vol_bytes) in zip(judged, metas):
        rep.count()
        f = sc.Findings(jd)
        ok = sc.report(rep, jd, f, (), "C11")
        upto = f.stop_at if f.stop_at is not None else len(jd.ops)
        for oi in sorted(jd.regions):
            if oi > upto or not ok:
                break
            o = jd.ops[oi]; name = sc.opname(o)
            for (r1, r2, structural, off, ln, depth) in jd.regions[oi]:
                nwrites += 1
                k1 = r1.split(":")[0]
                kinds[k1 if k1 != "cl" else "cl:" + r1.split(":")[2]] = kinds.get(k1 if k1 != "cl" else "cl:" + r1.split(":")[2], 0) + 1
                bad = None
                if r1 != r2 and not (r1.startswith("cl:") and r2.startswith("cl:") and r1.split(":")[1] == r2.split(":")[1]):
                    bad = "straddles two structures (%s .. %s)" % (r1, r2)
                elif k1 in ("boot", "tail", "outside"):
                    bad = {"boot": "a reserved sector / boot code byte other than the status byte", "tail": "the slack after the last cluster",
                           "outside": "beyond the declared end of the volume"}[k1]
                elif name in DATA_ONLY_OPS and (k1 == "root" or (k1 == "cl" and r1.split(":")[2] == "dir")):
                    # File::write / truncate / read / seek change file data and the table only: the entry is written back by flush / drop
                    bad = "a directory region (%s), although this call only transfers file data / updates the table" % r1
                elif k1 == "cl":
                    _, c, okind, ofirst = r1.split(":")
                    if okind == "file":
                        tgt = jd.target_file.get(oi)
                        if not (name in WRITE_OPS and tgt is not None and int(ofirst) == tgt):
                            bad = "cluster %s owned by a file (first cluster %s) that this operation does not write" % (c, ofirst)
                    elif okind in ("unowned", "bad"):
                        # dirty handles after the most recent judged op (lines the executor rejected carry no count)
                        prev_dirty = next((jd.dirty[k] for k in range(oi - 1, -1, -1) if k in jd.dirty), 0)
                        if not (okind == "unowned" and prev_dirty > 0 and name in WRITE_OPS):
                            bad = "cluster %s which is %s" % (c, "marked bad" if okind == "bad" else "allocated but not owned by the file or directory being changed")
                if bad:
                    ok = False
                    rep.violation("[C11] %s writes %d bytes at device offset %d: %s" % (sc.short(o.line, 70), ln, off, bad),
                                  {"script": sc.script_prefix(jd, oi)})
                    break
        # canary after the declared end
        last = jd.ops[-1]
        if ok and f.stop_at is None and last.kind == "ok" and set(last.payload) - set("d1"):
            ok = False
            rep.violation("[C11] bytes after the declared end of the volume were modified", {"script": jd.script})
        if ok:
            rep.distinct(tuple(jd.script[6:]))
    rep.cov["device_writes_classified"] = nwrites
    rep.cov["write_regions"] = kinds
    rep.cov["traces_validated_against_impl"] = len(judged)
    rep.cov["distribution"] = sc.distribution(judged)
    rep.cov["rule"] = ("random histories on volumes embedded in a larger device (canary fill 0xD1 before use and after the declared end; "
                       "FAT32 with an 8-sector reserved area); every device write classified against the pre-operation decode: status byte, "
                       "FS-info, FAT copy, fixed root, cluster (free / directory / the written file / other); distinct = op sequences without finding")
    rep.sample({"config": scripts[0][2], "ops": [sc.short(l, 80) for l in scripts[0][6:14]]})
