"""C16 - generated 8.3 aliases are legal, unique and tied to their long name.
Proofs (Props/C16.v) + correspondence of Model/ShortName.v (alias_for = the check_for_existence loop over ShortNameGenerator)
with the aliases the real library writes, directory population by directory population, + direct check of the statement
(legality of every byte, uniqueness per directory, checksum in every long-name slot, order bytes)."""
import vlib, namelib
from vlib import hexs
from namelib import units, hex16, fold, short_string, lfn_checksum, parse_dir, sfn_legal, sng_checksum, slots_from_writes, Model

PROP_FILES = ["Props/C16.v"]
ALNUM = "abcdefghijklmnopqrstuvwxyz0123456789"
FUEL = 70000


# ------------------------------------------------------------------ name families
def checksum_family(prefix, ext, groups, per_group):
    """names prefix+xyz+ext bucketed by the generator's checksum: `groups` consecutive checksum values with >= per_group names each"""
    buckets = {}
    for a in ALNUM:
        for b in ALNUM:
            for c in ALNUM:
                n = prefix + a + b + c + ext
                buckets.setdefault(sng_checksum(n), []).append(n)
    for c in sorted(buckets):
        if all(len(buckets.get((c + j) & 0xFFFF, [])) >= per_group for j in range(groups)):
            return [buckets[(c + j) & 0xFFFF][:per_group] for j in range(groups)]
    raise RuntimeError("no checksum family")


class Scn:
    def __init__(self, tag, conf, subdir=False, foreign=None):
        self.tag = tag; self.conf = conf; self.subdir = subdir; self.foreign = foreign or []; self.ops = []
    def c(self, name, kind="file"): self.ops.append(("c", kind, name))
    def r(self, name): self.ops.append(("r", name))
    def mv(self, old, new): self.ops.append(("mv", old, new))
    def chk(self): self.ops.append(("chk",))


ROOT12 = ("12", 2 * 1048576, "-", "4096")
ROOT16 = ("16", 16 * 1048576, "-", "4096")
ROOT16BIG = ("16", 32 * 1048576, "-", "16384")
FAT32 = ("32", 40 * 1048576, "512", "-")
BIGCL = ("-", 64 * 1048576, "32768", "4096")


def scenarios(tier, rng):
    out = []
    q = tier == "quick"
    # 1. many names colliding on the 6-character form, distinct checksums, deletions in between
    for conf, sub in ((ROOT16, False), (FAT32, True)):
        s = Scn("six-prefix", conf, sub)
        n = 400 if q else 1500
        live = []
        for i in range(n):
            nm = "longfilename%04d.txt" % i
            s.c(nm, "dir" if i % 11 == 5 else "file"); live.append(nm)
            if i % 10 == 9:
                for _ in range(3):
                    v = live.pop(rng.below(len(live))); s.r(v)
            if i % 40 == 39:
                s.chk()
        for i in range(20):
            s.c("longfilename again %d.txt" % i)
        s.chk(); out.append(s)
    # 2. the same checksum: 4 tails + 9 hash tails + retries with checksum+1, +2 (behaviour past the first hash retry)
    groups = checksum_family("collide", ".dat", 3, 14 if q else 20)
    for conf, sub in ((ROOT12, False), (BIGCL, True)):
        s = Scn("same-checksum", conf, sub)
        g0, g1, g2 = groups
        for nm in g0:
            s.c(nm)
        s.chk()
        for nm in g1[:8]:
            s.c(nm)
        s.r(g0[1]); s.r(g0[5]); s.r(g0[12]); s.r(g1[0])
        for nm in g2 + g1[8:]:
            s.c(nm)
        s.chk()
        s.mv(g0[0], "collide renamed.dat"); s.mv(g2[0], g0[1]); s.mv(g2[1], g2[1].upper())
        s.chk(); out.append(s)
    # 3. short and empty base names, lossy single characters, dots and spaces, more than 8 / more than 3 characters
    odd = ["é", "è", "ê", "ë", "ā", "ą", "+", "++", "+++", ",", ";", "=", "[", "]", " a", "a ", ".a", "a.", "a..", "a", "A.B", "a.b+", "a.+", "+.+", "...", "....",
           " .", ". ", " . ", ". .", ".. .", "  ", "   ", ".profile", ".bashrc.swp", "Foo+1.baR", "ver +1.2.text", "TextFile.Mine.txt", "exact8ch.abc",
           "exact8ch.abcd", "exactly9c.abc", "UPPER.TXT", "lower.txt", "Mixed.Txt", "name.with.many.dots.tar.gz", "averyveryverylongname.extension",
           "trailing space.txt ", "trailing dot.txt.", "€uro.€€€", "日本語のファイル名.テキスト", "ß", "ßß.ßß", "~1", "~2", "a~1", "x~1.y~1", "_~1", "_", "__", "{}", "'`^",
           "ab", "AB~1", "ab+", "ab,", "ab;", "ab=", "ab[", "ab]", "ab +", "12345678", "123456789", "12345678.123", "12345678.1234", "1234567.8.9"]
    for conf, sub in ((ROOT12, False), (FAT32, True), (ROOT16, False)):
        s = Scn("odd-names", conf, sub)
        names = list(odd)
        if conf is ROOT16:
            rng.shuffle(names)
        for i, nm in enumerate(names):
            s.c(nm, "dir" if i % 7 == 3 else "file")
            # remove only names that cannot have opened an existing entry (never equal to an 8.3 alias spelling)
            if i % 3 == 2 and (len(names[i - 1]) > 12 or any(ch in names[i - 1] for ch in "+,;=[] ") or not names[i - 1].isascii()) \
                    and names[i - 1] not in ("..", "."):
                s.r(names[i - 1])
        s.chk()
        # one-character lossy bases: exhaust "_~1".."_~4" and go through the hash form with a 1-character prefix
        for cp in range(0x3B1, 0x3B1 + (24 if q else 200)):
            s.c(chr(cp))
        for cp in range(0x430, 0x430 + (12 if q else 60)):
            s.c(chr(cp) + "." + chr(cp))
        # empty bases
        for k in range(3, 3 + (14 if q else 60)):
            s.c("." * k if k % 2 else " " * k)
        s.chk(); out.append(s)
    # 4. foreign short entries already present: hex field in lower case, '+', bytes >= 0x80, tail digit 0, wrong tilde places
    for rnd in range(8 if q else 300):
        base = rng.choice(["target file", "tf", "t", "collide me", "ÿÿ", "+"]) + " %d" % rnd
        ext = rng.choice([".txt", ".t", "", ".text"])
        if rnd % 4 == 0:
            # a name whose checksum starts with hex digit 0, so that "+xyz" parses to the same value
            for j in range(5000):
                if sng_checksum(base + "%d" % j + ext) < 0x1000 and any(ch in "ABCDEF" for ch in "%04X" % sng_checksum(base + "%d" % j + ext)):
                    base = base + "%d" % j; break
        tname = base + ext
        mo = vlib.model_run("c15", "gen %s\n" % hexs(tname))[0].split()
        ck = int(mo[1]); bl = int(mo[4]); sn = bytes.fromhex(mo[5])
        H = ("%04X" % ck).encode(); sp = min(2, bl); lp = min(6, bl)
        def mk(basepart):
            return (basepart + b" " * 8)[:8] + sn[8:]
        foreign = []
        for t in range(1, 5):
            if rnd % 2 == 0 or rng.below(4):      # even rounds: all four numeric tails taken, the hash form is reached
                foreign.append(mk(sn[:lp] + b"~" + bytes([48 + t])))
        foreign += [mk(sn[:lp] + b"~0"), mk(sn[:sp] + H.lower() + b"~1"), mk(sn[:sp] + b"+" + H[1:] + b"~2"), mk(sn[:sp] + H + b"~3"),
                    mk(sn[:sp] + H + b"~0"), mk(sn[:sp] + H + b"~:"), mk(sn[:sp] + b"\xc3\xa9" + H[2:] + b"~4"), mk(sn[:sp] + b"\xb0" + H[1:] + b"~4"), mk(sn[:sp] + b"-" + H[1:] + b"~5"),
                    mk(sn[:sp] + H[:3] + b"g~6"), mk(sn[:sp] + H + b"~9")[:8] + b"ZZZ", mk(b"\xe9" + sn[1:lp] + b"~1"), sn, sn[:8] + b"   ",
                    mk(sn[:sp] + (b"%04X" % ((ck + 1) & 0xFFFF)) + b"~1"), mk(sn[:sp] + (b"%04x" % ((ck + 1) & 0xFFFF)) + b"~2")]
        for t in range(6, 10):
            if rng.below(3):
                foreign.append(mk(sn[:sp] + H + b"~" + bytes([48 + t])))
        for _ in range(6):
            r = bytearray(sn)
            for _ in range(rng.range(1, 4)):
                r[rng.below(11)] = rng.choice([0x7E, 0x30 + rng.below(10), 0x41 + rng.below(6), 0x61 + rng.below(6), 0x2B, 0x20, 0x80 + rng.below(128), 0x05])
            if r[0] not in (0, 0xE5):
                foreign.append(bytes(r))
        seen = set(); fl = []
        for f in foreign:
            if f not in seen and f[0] not in (0, 0xE5, 0x20):
                seen.add(f); fl.append(f)
        s = Scn("foreign", rng.choice([ROOT12, ROOT16]), False, fl)
        s.c(tname)
        for j in range(12):
            s.c(base + " v%d" % j + ext)
        s.chk(); out.append(s)
    # 4b. random names over a small alphabet: many folding duplicates (create opens the existing entry), many alias collisions,
    #     removals (also through a differently-cased spelling) in between
    for rnd in range(2 if q else 30):
        s = Scn("random-collide", rng.choice([ROOT16, FAT32, BIGCL, ROOT12]), bool(rnd % 2))
        made = []
        for i in range(150 if q else 600):
            base = rng.choice(["a", "ab", "abc", "abcdef", "abcdefg", "abcdefgh", "abcdefghi", "Abc", "ABCDEFGHIJ", "é", "éa", "日本", "x y", "x.y"])
            base += "".join(rng.choice(["", "", "1", "2", "+", " ", ".", "é", "_", "~1", "z"]) for _ in range(rng.below(4)))
            ext = rng.choice(["", "", ".t", ".txt", ".TXT", ".text", ".t x", ".é", "."])
            nm = base + ext
            if nm in (".", "..") or len(nm.strip()) == 0 and rng.below(2):
                continue
            s.c(nm, "dir" if rng.below(6) == 0 else "file"); made.append(nm)
            if rng.below(5) == 0 and made:
                v = made[rng.below(len(made))]
                # never remove through a spelling that could be an 8.3 alias of another entry
                if any(ch in v for ch in "+ é日") or len(v) > 12 or v.count(".") > 1:
                    s.r(v.swapcase() if rng.below(2) else v)
            if i % 50 == 49:
                s.chk()
        s.chk(); out.append(s)
    # 4c. characters of the numeric tail inside the name itself: a '~' (and digits behind it) at every position of the converted
    #     base, colliding families of such names, with removals; aliases of earlier members look like "AB~CD~1", "~$REPO~1", "A~1~1"
    for conf, sub in ((ROOT16, False), (FAT32, True)):
        s = Scn("tilde-inside", conf, sub)
        fam = []
        for pos in range(0, 9):
            stem = "abcdefghij"
            b = stem[:pos] + "~" + stem[pos:]
            for k in range(6 if q else 14):
                fam.append("%s number %d.bak" % (b, k))
        fam += ["~$report final.docx", "~$report draft.docx", "~$report third.docx", "~1~1~1 long name a.txt", "~1~1~1 long name b.txt",
                "a~1 long enough name x.txt", "a~1 long enough name y.txt", "a~1 long enough name z.txt", "~~~~~~~~~ one.t", "~~~~~~~~~ two.t",
                "ab~ 1.txt", "ab~ 2.txt", "x~9 first.dat", "x~9 second.dat", "x~9 third.dat", "x~9 fourth.dat", "x~9 fifth.dat", "x~9 sixth.dat"]
        rng.shuffle(fam)
        for i, nm in enumerate(fam):
            s.c(nm, "dir" if i % 9 == 4 else "file")
            if i % 8 == 7:
                s.r(fam[i - 3])
            if i % 30 == 29:
                s.chk()
        s.chk(); out.append(s)
    # 4d. names whose characters 3..6 spell the hexadecimal form of their own generator checksum: their hash form "XXHHHH~N" coincides
    #     with the 6-character form "PREFIX~N"; created after four (and more) entries with that prefix exist
    selfhash = []
    for suf in ("_front", "_back", "_scan", "_left"):
        for hv in range(65536):
            n = "IM%04X%s.jpg" % (hv, suf)
            if sng_checksum(n) == hv:
                selfhash.append(n)
        if len(selfhash) >= 3 and q:
            break
    for conf, sub in ((ROOT16, False), (FAT32, True)):
        s = Scn("self-hash", conf, sub)
        for n in selfhash:
            pre = n[:6]
            for k in range(6):
                s.c("%s_%s%d.jpg" % (pre, "abcdef"[k], k))
            s.c(n)
            s.r("%s_b1.jpg" % pre)
            s.c(n[:-4] + " again.jpg")
        s.chk(); out.append(s)
    # 5. a big directory (thorough): thousands of entries sharing one 6-character prefix and few checksums
    if not q:
        s = Scn("big", ROOT16BIG, False)
        fam = checksum_family("bigdir-", ".bin", 6, 30)
        k = 0
        for grp in fam:
            for nm in grp:
                s.c(nm); k += 1
                if k % 50 == 0:
                    s.chk()
        for i in range(1500):
            s.c("bigdir-entry number %05d.bin" % i)
            if i % 7 == 3:
                s.r("bigdir-entry number %05d.bin" % (i - 2))
            if i % 250 == 249:
                s.chk()
        s.chk(); out.append(s)
    return out


# ------------------------------------------------------------------ running one scenario
def build(scn, variant, geoms):
    fat, size, bpc, rootent = scn.conf
    su = ["dev %d 0" % size, "wlog 0", "format - - %s %s %s - - - -" % (bpc, fat, rootent), "dump 0 512"]
    if scn.conf not in geoms:
        geoms[scn.conf] = namelib.geom_of(vlib.run_scripts([su], variant)[0][3].payload)
    g = geoms[scn.conf]
    sc = list(su)
    off = g.root_off
    for f in scn.foreign:
        sc.append("poke %d %s" % (off, (f + bytes([0x20]) + bytes(20)).hex())); off += 32
    sc.append("mount 1 0 lossy")
    H = 0
    if scn.subdir:
        sc.append("create_dir 0 %s 5" % hexs("sub")); H = 5
    sc.append("wlog 1")
    head = len(sc)
    idx = []
    for op in scn.ops:
        idx.append(len(sc))
        if op[0] == "c":
            sc.append("%s %d %s 0" % ("create_file" if op[1] == "file" else "create_dir", H, hexs(op[2])))
        elif op[0] == "r":
            sc.append("remove %d %s" % (H, hexs(op[1])))
        elif op[0] == "mv":
            sc.append("rename %d %s %d %s" % (H, hexs(op[1]), H, hexs(op[2])))
        else:
            sc.append("list %d" % H)
    # model side
    ml = ["dreset"]
    if scn.subdir:
        ml += ["dadd 2e20202020202020202020", "dadd 2e2e202020202020202020"]
    for f in scn.foreign:
        ml.append("dadd %s" % f.hex())
    return sc, head, idx, g, ml


def new_slots(op, g):
    """complete 32-byte slots written by the op into directory space, in stream order, without deletion marks,
    zero fill and the dot entries of a new directory"""
    out = []
    for so, s in slots_from_writes([w for w in op.writes() if w[2] == 0]).items():
        if s is None or so < g.root_off or s[0] in (0, 0xE5) or not any(s):
            continue
        if (s[11] & 0x0F) != 0x0F and s[:11] in (b".          ", b"..         "):
            continue
        out.append(s)
    return out


def run_scn(rep, scn, variant, table, geoms, dist):
    sc, head, idx, g, ml = build(scn, variant, geoms)
    res = vlib.run_scripts([sc], variant)[0]
    if not all(r.kind == "ok" for r in res[:head]):
        rep.violation("setup failed for scenario %s: %r" % (scn.tag, [r for r in res[:head] if r.kind != "ok"][:1]), {"script": sc[:head]}, nofail=True)
        return
    # python-side view of the directory, built from what the implementation wrote
    live = {}                 # name -> raw alias (entries created here)
    rawset = set()
    foreign = list(scn.foreign)
    flong = {}; falias = {}   # folded spellings -> count
    def fkey(s): return tuple(fold(s, table))
    bylong = {}; rtarget = {}
    def add(name, raw):
        live[name] = raw; rawset.add(raw); bylong[fkey(name)] = name
        flong[fkey(name)] = flong.get(fkey(name), 0) + 1
        a = fkey(short_string(raw).decode("latin-1")); falias[a] = falias.get(a, 0) + 1
    def rem(name):
        raw = live.pop(name); rawset.discard(raw); bylong.pop(fkey(name), None)
        flong[fkey(name)] -= 1
        a = fkey(short_string(raw).decode("latin-1")); falias[a] -= 1
        return raw
    for f in foreign:
        a = fkey("".join(namelib.oem_lossy(b) for b in short_string(f))); falias[a] = falias.get(a, 0) + 1
    def exists(name):
        k = fkey(name)
        return flong.get(k, 0) > 0 or falias.get(k, 0) > 0
    # ops whose new name matches an existing entry do not create anything: the model must not be asked to add them
    # (decided with the direct folding rule while replaying the implementation's results)
    skip = set()
    respell = {}
    sim_live = {}
    mo = None
    # first pass: decide which creates hit an existing entry, using only names (aliases come from the implementation)
    for k, op in enumerate(scn.ops):
        o = res[idx[k]]
        rep.count()
        replay = {"script": sc[:idx[k] + 1], "variant": variant, "scenario": scn.tag}
        if o.kind in ("panic", "hang", "bad"):
            rep.violation("scenario %s: %r" % (scn.tag, o), replay); return
        if op[0] in ("c", "mv"):
            name = op[2]
            if op[0] == "mv" and op[1] not in live:
                skip.add(k); continue
            hit = exists(name)
            ns = new_slots(o, g)
            if hit and op[0] == "mv" and ns:
                # the name may be another spelling of the renamed entry's own long name or alias: the entry is then
                # rewritten under the new spelling and keeps its alias (nothing else may be written)
                kk = fkey(name); src_raw = live[op[1]]
                own = (1 if fkey(op[1]) == kk else 0)
                own_alias = (1 if fkey(short_string(src_raw).decode("latin-1")) == kk else 0)
                sf = [s for s in ns if (s[11] & 0x0F) != 0x0F]
                lf = [s for s in ns if (s[11] & 0x0F) == 0x0F]
                if own + own_alias > 0 and o.kind == "ok" and len(sf) == 1 and ns[-1] is sf[0] and sf[0][:11] == src_raw \
                        and flong.get(kk, 0) - own == 0 and falias.get(kk, 0) - own_alias == 0 \
                        and all(s[13] == lfn_checksum(src_raw) for s in lf):
                    skip.add(k)
                    rem(op[1]); add(name, src_raw)
                    respell[k] = (op[1], name)
                    dist["respell"] = dist.get("respell", 0) + 1
                    continue
            if hit:
                # an entry with that name or alias exists: create opens it, rename fails (or is a no-op on itself)
                skip.add(k)
                if ns:
                    rep.violation("scenario %s: %s matches an existing entry but new slots were written" % (scn.tag, name), replay); return
                dist["existing_hit"] += 1
                continue
            if o.kind != "ok":
                rep.violation("scenario %s: creating %r failed: %s" % (scn.tag, name, o.payload), replay); return
            lf = [s for s in ns if (s[11] & 0x0F) == 0x0F]
            sf = [s for s in ns if (s[11] & 0x0F) != 0x0F]
            if len(sf) != 1 or ns[-1] is not sf[0]:
                rep.violation("scenario %s: creating %r wrote %d short entries (%d long-name slots)" % (scn.tag, name, len(sf), len(lf)), replay); return
            raw = sf[0][:11]
            # ---- the property, directly
            if not sfn_legal(raw):
                rep.violation("scenario %s: alias %r of %r is not a legal 8.3 name" % (scn.tag, raw, name), replay); return
            if raw in rawset or raw in foreign or (scn.subdir and raw in (b".          ", b"..         ")):
                rep.violation("scenario %s: alias %r of %r already belongs to another entry of the directory" % (scn.tag, raw, name), replay); return
            ck = lfn_checksum(raw)
            u = units(name)
            nslots = (len(u) + 12) // 13
            orders = [s[0] for s in lf]
            if any(s[13] != ck for s in lf) or orders != [(nslots - i) | (0x40 if i == 0 else 0) for i in range(nslots)]:
                rep.violation("scenario %s: long-name slots of %r: checksums %r (alias checksum %d), order bytes %r" % (scn.tag, name, [s[13] for s in lf], ck, orders), replay); return
            af = alias_form(raw)
            dist["form"][af] = dist["form"].get(af, 0) + 1
            if af == "prefix+hash~n":
                b = raw[:8].rstrip(b" "); i = b.rindex(b"~")
                if b[i - 4:i] != b"%04X" % sng_checksum(name):
                    dist["hash_retries"] += 1
            if op[0] == "mv":
                rem(op[1])
            add(name, raw)
            sim_live[k] = raw
        elif op[0] == "r":
            tgt = op[1] if op[1] in live else bylong.get(fkey(op[1]))
            if tgt is None:
                skip.add(k)
                continue
            if o.kind != "ok":
                rep.violation("scenario %s: remove %r failed: %s" % (scn.tag, op[1], o.payload), replay); return
            rem(tgt)
            rtarget[k] = tgt
        else:
            shorts = [e[1] for e in o.extra]
            want = sorted([short_string(r).hex() for r in live.values()] + [short_string(f).hex() for f in foreign] + (["2e", "2e2e"] if scn.subdir else []))
            if o.kind != "ok" or len(set(shorts)) != len(shorts) or sorted(shorts) != want:
                rep.violation("scenario %s: listing shows %d entries (%d distinct aliases), %d expected" % (scn.tag, len(shorts), len(set(shorts)), len(want)), replay); return
            longs = sorted(e[0] for e in o.extra if e[0] != "-")
            if longs != sorted(hex16(units(n)) for n in live):
                rep.violation("scenario %s: long names in the listing differ from the names created" % scn.tag, replay); return
            dist["max_population"] = max(dist["max_population"], len(shorts))
    # ---- the model on the same history (creates that opened an existing entry are not part of it)
    lines = list(ml); pos = {}
    for k, op in enumerate(scn.ops):
        if k in respell:
            lines.append("drespell %s %s" % (hexs(respell[k][0]), hexs(respell[k][1])))
        if k in skip or op[0] == "chk":
            continue
        if op[0] == "c":
            pos[k] = len(lines); lines.append("dcreate %s %d" % (hexs(op[2]), FUEL))
        elif op[0] == "r":
            lines.append("ddelname %s" % hexs(rtarget[k]))
        else:
            pos[k] = len(lines); lines += ["dcreate %s %d" % (hexs(op[2]), FUEL), "ddelname %s" % hexs(op[1])]
    mo = vlib.model_run("c15", "\n".join(lines) + "\n")
    lg = Model()
    for k, raw in sim_live.items():
        got = mo[pos[k]]
        if got != "ok " + raw.hex():
            rep.violation("alias_for model gives %s, implementation wrote alias %s (%r) for %r in scenario %s" % (got, raw.hex(), raw, scn.ops[k][2], scn.tag),
                          {"script": sc[:idx[k] + 1], "variant": variant, "scenario": scn.tag, "theorem_or_correspondence": "C16_sfn_unique/C16_sfn_legal / Model.ShortName.alias_for"}, nofail=True)
            return
        lg.add("legal %s" % raw.hex())
    if any(x != "1" for x in lg.run()):
        rep.violation("sfn_legal_b model predicate rejects an alias the direct legality check accepts", {"theorem_or_correspondence": "C16_sfn_legal"}, nofail=True); return
    # raw directory at the end (fixed root or a directory inside one cluster)
    if not scn.subdir and g.root_entries > 0:
        d = vlib.run_scripts([sc + ["dump %d %d" % (g.root_off, g.root_entries * 32)]], variant)[0][-1]
        ents = [e for e in parse_dir(bytes.fromhex(d.payload)) if not e["label"]]
        raws = [e["sfn"][:11] for e in ents]
        if sorted(raws) != sorted(list(live.values()) + foreign) or len(set(raws)) != len(raws):
            rep.violation("scenario %s: raw root directory holds %d entries (%d distinct), %d expected" % (scn.tag, len(raws), len(set(raws)), len(live) + len(foreign)), {"script": sc}); return
        for e in ents:
            if e["lfn"] and any(s[13] != lfn_checksum(e["sfn"][:11]) for s in e["lfn"]):
                rep.violation("scenario %s: raw directory: long-name slot checksum differs from its alias %r" % (scn.tag, e["sfn"][:11]), {"script": sc}); return
        dist["raw_dirs_checked"] += 1
    for k, raw in sim_live.items():
        rep.distinct((scn.tag, scn.conf[0], scn.subdir, scn.ops[k][2], raw))
    rep.cov["traces_validated_against_impl"] += 1
    if len(rep.cov["samples"]) < 6 and sim_live:
        ks = sorted(sim_live)[-3:]
        rep.sample({"scenario": scn.tag, "fat": scn.conf[0], "subdir": scn.subdir, "population": len(live) + len(foreign),
                    "last_created": [[scn.ops[k][2][:40], sim_live[k].decode("latin-1")] for k in ks]})


def cross_dir_rename(rep, variant, dist):
    """rename into another directory: the alias is generated against the DESTINATION directory (the source directory holds
    an entry with the alias the new one would get there)"""
    su = ["dev 2097152 0", "wlog 0", "format - - - 12 2048 - - - -", "dump 0 512", "mount 1 0 lossy", "create_dir 0 %s 5" % hexs("sub"), "wlog 1"]
    g = namelib.geom_of(vlib.run_scripts([su[:4]], variant)[0][3].payload)
    names = ["shared prefix %d.txt" % i for i in range(7)]
    sc = list(su)
    for n in names[:5]:
        sc.append("create_file 0 %s 0" % hexs(n))
    sc.append("create_file 5 %s 0" % hexs(names[5]))          # SHARED~1.TXT inside sub
    sc.append("create_file 5 %s 0" % hexs(names[6]))
    i_mv = len(sc)
    sc.append("rename 5 %s 0 %s" % (hexs(names[5]), hexs(names[5])))      # sub -> root, same name
    sc.append("rename 0 %s 5 %s" % (hexs(names[0]), hexs("moved down.txt")))   # root -> sub, new name
    sc += ["list 0", "list 5", "dump %d %d" % (g.root_off, 2048 * 32)]
    res = vlib.run_scripts([sc], variant)[0]
    rep.count()
    bad = [o for o in res if o.kind != "ok"]
    if bad:
        rep.violation("cross-directory rename: %r" % bad[0], {"script": sc}); return
    root_before = [new_slots(res[len(su) + i], g)[-1][:11] for i in range(5)]
    ns = new_slots(res[i_mv], g)
    raw = ns[-1][:11]
    mo = vlib.model_run("c15", "al %s %d %s\n" % (hexs(names[5]), FUEL, " ".join(r.hex() for r in root_before + [b"SUB        "])))[0]
    ents = [e for e in parse_dir(bytes.fromhex(res[-1].payload)) if not e["label"]]
    raws = [e["sfn"][:11] for e in ents]
    if raw in root_before or not sfn_legal(raw) or any(s[13] != lfn_checksum(raw) for s in ns[:-1]) or len(set(raws)) != len(raws):
        rep.violation("cross-directory rename produced alias %r in a directory holding %r" % (raw, root_before), {"script": sc}); return
    if mo != "ok " + raw.hex():
        rep.violation("alias_for model gives %s for a rename into the root, implementation wrote %s" % (mo, raw.hex()),
                      {"script": sc, "theorem_or_correspondence": "C16_sfn_unique / Model.ShortName.alias_for"}, nofail=True); return
    for lst in (res[-3], res[-2]):
        sh = [e[1] for e in lst.extra]
        if len(set(sh)) != len(sh):
            rep.violation("cross-directory rename: duplicate aliases in a listing", {"script": sc}); return
    rep.distinct(("xdir", raw)); rep.cov["traces_validated_against_impl"] += 1
    dist["cross_dir_renames"] = 2


def respell_with_accessed_date(rep, variant, dist):
    """the access-date option is on and the clock has moved to a later day since the objects were made: renaming a directory (or
    a file) to another spelling of its name, to a new name, and into another directory walks through it (`..`), which may stamp
    and write back entries - the parent must end up with exactly one entry per object, every alias once"""
    su = ["dev 2097152 0", "wlog 0", "format - - - 12 2048 - - - -", "dump 0 512", "clock 2021 3 1 10 0 0 0", "mount 1 1 lossy"]
    g = namelib.geom_of(vlib.run_scripts([su[:4]], variant)[0][3].payload)
    sc = su + ["create_dir 0 %s 5" % hexs("Holiday Pictures"), "create_file 5 %s 6" % hexs("inner one.txt"), "write_pat 6 300 1", "drop_file 6",
               "create_dir 0 %s 7" % hexs("Second Directory"), "create_dir 0 %s 8" % hexs("third dir"), "create_file 0 %s 9" % hexs("Plain File.txt"),
               "drop_all", "unmount", "clock 2021 3 5 11 0 0 0", "mount 1 1 lossy", "wlog 1",
               "rename 0 %s 0 %s" % (hexs("Holiday Pictures"), hexs("HOLIDAY PICTURES")), "list 0",
               "rename 0 %s 0 %s" % (hexs("Second Directory"), hexs("Another Name For It")), "list 0",
               "rename 0 %s 0 %s" % (hexs("third dir"), hexs("HOLIDAY PICTURES/third dir")), "list 0",
               "rename 0 %s 0 %s" % (hexs("Plain File.txt"), hexs("PLAIN FILE.TXT")), "list 0",
               "drop_all", "unmount", "clock 2021 3 9 12 0 0 0", "mount 1 1 lossy",
               "rename 0 %s 0 %s" % (hexs("HOLIDAY PICTURES/third dir"), hexs("Third Dir")), "list 0",
               "rename 0 %s 0 %s" % (hexs("holiday pictures"), hexs("Holiday pictures")), "list 0",
               "drop_all", "dump %d %d" % (g.root_off, 2048 * 32)]
    res = vlib.run_scripts([sc], variant)[0]
    rep.count()
    bad = [o for o in res if o.kind != "ok"]
    if bad:
        rep.violation("renames with the access-date option on: %r" % bad[0], {"script": sc, "variant": variant}); return
    want = [3, 3, 2, 2, 3, 3]
    lists = [o for o in res if o.line.startswith("list 0")]
    for k, lst in enumerate(lists):
        sh = [e[1] for e in lst.extra]
        if len(set(sh)) != len(sh) or len(sh) != want[k] + 1:
            rep.violation("access-date option on, clock moved: after %s the parent lists %d entries (%d distinct aliases), %d expected"
                          % (vlib_short(res[res.index(lst) - 1].line), len(sh), len(set(sh)), want[k] + 1), {"script": sc[:sc.index("list 0") + 1 + 2 * k] if False else sc, "variant": variant}); return
    ents = [e for e in parse_dir(bytes.fromhex(res[-1].payload)) if not e["label"]]
    raws = [e["sfn"][:11] for e in ents]
    if len(set(raws)) != len(raws) or len(raws) != 4:
        rep.violation("access-date option on, clock moved: the raw root directory holds %d live entries (%d distinct aliases), 4 expected" % (len(raws), len(set(raws))),
                      {"script": sc, "variant": variant}); return
    rep.distinct(("respell-accessed", variant)); rep.cov["traces_validated_against_impl"] += 1
    dist["respell_with_accessed_date"] = 6


def vlib_short(line):
    t = line.split(" ")
    return " ".join([t[0]] + [bytes.fromhex(x).decode("utf-8", "replace") if len(x) > 3 and all(c in "0123456789abcdef" for c in x) else x for x in t[1:]])[:80]


def alias_form(raw):
    b = raw[:8].rstrip(b" ")
    if b"~" not in b:
        return "direct"
    i = b.rindex(b"~")
    if i >= 4 and all(chr(c) in "0123456789ABCDEF" for c in b[i - 4:i]) and i - 4 <= 2:
        return "prefix+hash~n"
    return "prefix~n"


def run(rep, tier, seed):
    rng = vlib.Rng(seed)
    table, path = namelib.upper_table("default")
    dist = {"form": {}, "hash_retries": 0, "existing_hit": 0, "max_population": 0, "raw_dirs_checked": 0, "scenarios": {}, "ops": {"c": 0, "r": 0, "mv": 0, "chk": 0}}
    geoms = {}
    for scn in scenarios(tier, rng):
        dist["scenarios"][scn.tag] = dist["scenarios"].get(scn.tag, 0) + 1
        for op in scn.ops:
            dist["ops"][op[0]] += 1
        run_scn(rep, scn, "default", table, geoms, dist)
    cross_dir_rename(rep, "default", dist)
    respell_with_accessed_date(rep, "default", dist)
    rep.cov["distribution"] = dist
    rep.cov["rule"] = ("one evaluation = one directory operation (create_file/create_dir/rename/remove/list) inside a scenario; distinct = distinct "
                       "(scenario, FAT type, root/sub-directory, long name, alias) for which the alias read from the device writes of the create was legal "
                       "byte by byte, differed from every alias present in the directory, its checksum stood in every long-name slot with order bytes n..1 "
                       "(0x40 on the first) AND equalled the model's alias_for given the aliases present. Scenarios: hundreds of names sharing the "
                       "6-character prefix with deletions in between; families with one and the same generator checksum (4 numeric tails, 9 hash tails, "
                       "then retries with checksum+1, +2); one-character, empty, dotted, spaced, non-ASCII, over-long base/extension names; foreign short "
                       "entries poked into the root (lower-case/'+'/non-ASCII hex fields, tail digit 0, displaced tildes); thorough: a 2000-entry directory")
