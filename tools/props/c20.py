"""C20 - large volumes: sparse devices from 4 GiB to 2 TiB-512 B (and up to the FAT32 cluster limit with larger sectors),
formatted by the real library, with the FS-info next-free hint placed at, just before and just past the last cluster;
short histories; every device call must stay inside the declared volume, files must land on the clusters the
specification arithmetic gives (Model/Offsets.v theorem), the scan must wrap around, data must read back."""
import vlib, sessions
from vlib import hexs
from props import sess_common as sc

PROP_FILES = ["Props/C20.v"]

def volumes(tier):
    v = [
        ("4GiB+", 512, 8388608 + 7, None),                  # just past the 4 GiB mark
        ("8GiB", 512, 16777216, None),
        ("64GiB", 512, 134217728, None),
        ("1TiB+", 512, 2147483648 + 4099, None),            # just past the 1 TiB mark
        ("2TiB-512", 512, 4294967295, None),                # the format's limit with 512-byte sectors
        ("16GiB-4Ksec", 4096, 4194304, 4096),
        ("640GiB-c4k", 512, 1342177280, 4096),              # more than 2^27 clusters: FAT entry offsets beyond 512 MiB
    ]
    # volumes whose FAT has no spare entry behind the last cluster (entries = clusters + 2): a scan that reads past the last
    # entry leaves the table; found with the library's own format through the boot-sector hook
    for (lab, bps, bpc, start) in (("exactfit-5.7GiB", 512, 4096, 12000000), ("exactfit-16GiB-4Ksec", 4096, 4096, 4194304)):
        ts = vlib.exact_fit_sectors(bps, bpc, start, 32)
        if ts is not None:
            v.append((lab, bps, ts, bpc))
    if tier == "thorough":
        v += [("fat32-cluster-limit-4K", 4096, 268435445 + 140000, 4096),   # close to 0x0FFFFFF4 clusters of one 4 KiB sector
              ("8TiB-4Ksec", 4096, 2147483648, 32768),
              ("2TiB-512-c16k", 512, 4294967295, 16384)]
    return v

def run(rep, tier, seed):
    rng = vlib.Rng(seed)
    scripts = []; metas = []
    vols = list(volumes(tier))
    # the FAT32 cluster limit (0x0FFFFFF4 clusters) as another formatter leaves it: the entries of the clusters numbered
    # 0x0FFFFFF0 and above are free (this library's format marks them bad); they are ordinary data clusters
    foreign_pokes = {}
    lim = vlib.sectors_for_clusters(512, 4096, 0x0FFFFFF4, 0x0FFFFFF4 * 8 + 2 * ((0x0FFFFFF4 + 2) * 4 // 512) - 32, span=400)
    if lim is not None:
        import fatimg
        o = vlib.exec_raw(["fmtbs"], "512 %d 4096 - - - - - -\n" % lim[0]).split("\n")[0].split(" ")
        gm = fatimg.Geom(bytes.fromhex(o[-1]))
        fbytes = gm.spf * gm.bps
        foreign_pokes["1TiB-limit-foreign"] = ["poke %d %s" % (gm.fat_off + k * fbytes + 4 * 0x0FFFFFF0, "00" * (4 * 6)) for k in range(gm.fats)] + \
                                              ["poke %d %s" % (512 + 488, (0x0FFFFFF4 - 1).to_bytes(4, "little").hex())]
        vols.append(("1TiB-limit-foreign", 512, lim[0], 4096))
    for (label, bps, ts, bpc) in vols:
        vol_bytes = bps * ts
        for delta in (["0", "-1", "1", "-2", "none", "2"] if tier == "thorough" or label in ("2TiB-512", "4GiB+", "1TiB-limit-foreign") or label.startswith("exactfit") else ["0", "-1", "1"]):
            n1 = rng.range(2, 4)
            s = ["dev %d 0" % (vol_bytes + 65536), "wlog 0",
                 "format %d %d %s - - - - - -" % (bps, ts, bpc if bpc else "-")] + foreign_pokes.get(label, []) + ["pokehint %s" % delta, "pages", "wlog 1", "logcalls 1",
                 "mount 1 0 lossy", "stats",
                 "create_file 0 %s 1" % hexs("big volume file.bin"), "write_pat 1 %d 5" % (n1 * 40000 + 77), "flush 1", "extents 1",
                 "seek 1 start 0", "read_all 1 400000",
                 "create_dir 0 %s 2" % hexs("Dir On Large Volume"), "create_file 2 %s 3" % hexs("inner.txt"), "write_pat 3 5000 9",
                 "drop_file 3", "list 0", "list 2", "seek 1 start 70001", "truncate 1", "extents 1", "drop_all", "unmount",
                 "mount 1 0 lossy", "open_file 0 %s 4" % hexs("BIG VOLUME FILE.BIN"), "read_all 4 400000", "extents 4",
                 "open_file 0 %s 5" % hexs("dir on large volume/INNER.TXT"), "read_all 5 9000", "extents 5",
                 "remove 0 %s" % hexs("big volume file.bin"), "stats", "drop_all", "unmount"]
            scripts.append(s); metas.append((label, bps, ts, delta, vol_bytes))
    judged = sessions.run_judged(scripts, flags=("tree", "regions"), shards=16)
    ncalls = 0
    for jd, (label, bps, ts, delta, vol_bytes) in zip(judged, metas):
        rep.count()
        f = sc.Findings(jd)
        ok = sc.report(rep, jd, f, ("tree", "file", "match"), "C20 " + label)
        if jd.ops[2].kind != "ok":
            rep.violation("[C20 %s] format of a %d-sector volume failed: %s %s" % (label, ts, jd.ops[2].kind, jd.ops[2].payload), {"script": jd.script[:3]})
            continue
        iph = next(i for i, l in enumerate(jd.script) if l.startswith("pokehint"))
        ist = next(i for i, l in enumerate(jd.script) if l.startswith("mount "))      # payload: FAT bits, cluster size
        hint, clusters, data_off = [int(x) for x in jd.ops[iph].payload.split(" ")]
        cs = int(jd.ops[ist].payload.split(" ")[1])
        last = clusters + 1
        # 1. nothing is addressed beyond the declared end (reads, writes, seeks)
        for oi, o in enumerate(jd.ops):
            for e in o.events:
                if e[0] == "c":
                    ncalls += 1
                    off = int(e[2]); ln = int(e[3])
                    if e[1] in ("read", "write") and off + ln > vol_bytes or e[1] == "seek" and off > vol_bytes:
                        ok = False
                        rep.violation("[C20 %s] %s: device %s at offset %d (+%d) beyond the declared end %d" % (label, sc.short(o.line, 50), e[1], off, ln, vol_bytes),
                                      {"script": sc.script_prefix(jd, oi)})
                        break
            if not ok: break
            for (r1, r2, st, off, ln, depth) in jd.regions.get(oi, []):
                if r1.split(":")[0] in ("outside", "tail", "boot") or r2.split(":")[0] in ("outside", "tail", "boot"):
                    ok = False
                    rep.violation("[C20 %s] %s writes at device offset %d: %s" % (label, sc.short(o.line, 50), off, r1), {"script": sc.script_prefix(jd, oi)})
                    break
        if not ok:
            continue
        # 2. extents: on cluster boundaries given by the specification arithmetic, inside the volume, first cluster as the hint demands
        ext_ops = [o for o in jd.ops if sc.opname(o) == "extents" and o.kind == "ok" and o.payload]
        first = True
        for o in ext_ops:
            for x in o.payload.split(" "):
                off, sz = [int(y) for y in x.split(":")]
                if (off - data_off) % cs != 0 or not (2 <= (off - data_off) // cs + 2 <= last) or off + sz > vol_bytes:
                    ok = False
                    rep.violation("[C20 %s] extent %d:%d is not a cluster of the volume (data area at %d, cluster size %d, %d clusters)"
                                  % (label, off, sz, data_off, cs, clusters), {"script": jd.script})
                    break
            if first and ok:
                first = False
                c0 = (int(o.payload.split(" ")[0].split(":")[0]) - data_off) // cs + 2
                exp = hint if 3 <= hint <= last else 3          # cluster 2 is the root directory of the fresh volume
                if c0 != exp:
                    ok = False
                    rep.violation("[C20 %s] with the next-free hint at %d (last cluster %d) the first allocation went to cluster %d, expected %d"
                                  % (label, hint, last, c0, exp), {"script": jd.script})
                cl = [(int(x.split(":")[0]) - data_off) // cs + 2 for x in o.payload.split(" ")]
                if ok and hint == last and len(cl) > 1 and cl[1] != 3:
                    ok = False
                    rep.violation("[C20 %s] after the last cluster the allocation scan did not wrap around to the first free cluster: chain %s" % (label, cl),
                                  {"script": jd.script})
        if ok:
            rep.distinct((label, delta))
            rep.sample({"volume": label, "sectors": ts, "bytes_per_sector": bps, "clusters": clusters, "hint": hint, "first_extents": ext_ops[0].payload if ext_ops else ""}, cap=4)
    rep.cov["device_calls_checked"] = ncalls
    rep.cov["traces_validated_against_impl"] = len(judged)
    rep.cov["rule"] = ("volumes formatted by the real library on a page-sparse device: just past 4 GiB, 8/64 GiB, just past 1 TiB, 2 TiB-512 B, 4 KiB-sector "
                       "volumes (thorough: up to the FAT32 cluster limit), x next-free hint at last, last-1, last+1 (thorough: last-2, last+2, none); a "
                       "40-call history each; checked: every device call inside the declared volume, extents on specification cluster offsets, first "
                       "allocation follows the hint, wrap-around after the last cluster, contents read back after remount (abstract machine); "
                       "distinct = (volume, hint) pairs without finding")
