"""Correspondence of the directory SLOT layer (coq/Model/DirSlots.v: find_free_entries, write_entry, the deletion loop,
check_for_existence + alias generation, create, rename in place) with the real library.  NOT a registered property: a helper
stream called from tools/props/c01.py.

Histories of create_file / create_dir / remove / rename run on small FAT12 volumes, (a) in the fixed ROOT directory and (b) in
one chain-backed sub-directory (cluster = 16 slots; it grows into the next, contiguous cluster).  The executor's clock is fixed
by `clock ...` and the same date/time goes into the model's create_sfn_entry (Model/Time.v stamp_create).  After every op the
directory region is dumped from the device and compared BYTE FOR BYTE with the slots the extracted model computes from the
region before the op (the model is re-synchronised on the implementation's region after every op, so one divergence does
not cascade).  Failing calls are compared too (outcome and the slots they leave, e.g. the partial run of a WriteZero).
The cluster number stored by create_dir comes from the allocator (layer B) and is read off the implementation's slot;
whether a directory being removed is empty is a fact of ANOTHER directory and is taken from the implementation's outcome.

Directly on the implementation's regions (independent of the model) the extracted decoder Spec/Abs.dir_scan is evaluated:
while the region had no issue before an op that succeeded, it has none after, and the number of decoded entries moves by
+1 (new entry) / 0 (already exists, rename) / -1 (remove)."""
import vlib, namelib, fatimg
from vlib import hexs

CONFS = [
    ("fat12-root16", 64 * 512, "format 512 64 512 12 16 2 - - -"),
    ("fat12-root32-label", 400 * 512, "format 512 400 512 12 32 2 - - 4d59564f4c554d45202020"),
    ("fat12-root16-1fat", 120 * 512, "format 512 120 512 12 16 1 - - -"),
]

FAMILY = ["longfilename%d.txt" % i for i in range(1, 8)] + ["Long File Name.TXT", "longfi~1.txt", "LONGFI~2.TXT", "lo1234~1.txt"]
NAMES = ["a", "B", "b", "A", "file.txt", "File.TXT", "x" * 13, "y" * 14, "z" * 26, "w" * 27, "thirteenchars.26charsxxxxx",
         "name.with.many.dots.ext", "UPPER", "lower.c", "MiXed.Txt", "straße", "Жук.txt", "é.x", "trail￿",
         "~tilde", "#hash&amp", ".", "..", "...", " lead", "tr.", "e5å", "€", "averyveryverylongname_that_needs_many_lfn_slots_0123456789.bin",
         "q" * 255, "å" * 100] + FAMILY
BAD = ["", "bad:name", "que?", "a*b", "x" * 256, "é" * 128, "tab\tname", "\U0001F600smile.txt"]


NCL = 8     # clusters of the sub-directory chain that are dumped (it owns clusters 2, 3, ..: nothing else allocates)


def gen_ops(rng, nops, prefix, allow_dirs):
    """-> list of (kind, args...) ; keeps a light shadow of created names only to aim removes/renames at existing entries"""
    live = []
    ops = []
    for _ in range(nops):
        r = rng.below(100)
        nm = rng.choice(NAMES) if rng.chance(92, 100) else rng.choice(BAD)
        if prefix and nm == "":
            nm = "bad:name"        # "d/" is the path of the directory itself (split_path trims '/'): not a name of this layer
        if r < 8:
            ops.append(("clock", 1980 + rng.below(128), 1 + rng.below(12), 1 + rng.below(28), rng.below(24), rng.below(60), rng.below(60), rng.below(1000)))
        elif r < 50 or not live:
            ops.append(("create_file", prefix + nm)); live.append(nm)
        elif r < 60 and allow_dirs:
            ops.append(("create_dir", prefix + nm)); live.append(nm)
        elif r < 82:
            t = rng.choice(live) if rng.chance(85, 100) else nm
            if rng.chance(30, 100):
                t = t.upper() if rng.chance(1, 2) else t.lower()
            ops.append(("remove", prefix + t))
            if t in live:
                live.remove(t)
        else:
            s = rng.choice(live) if rng.chance(85, 100) else nm
            ops.append(("rename", prefix + s, prefix + nm))
            if s in live and rng.chance(1, 2):
                live.remove(s); live.append(nm)
    return ops


def build_script(conf, ops, region_dump, prelude):
    lines = ["dev %d 0" % conf[1], "wlog 0", conf[2], "clock 2024 2 29 13 37 59 990", "mount 1 0 lossy"] + prelude + [region_dump]
    marks = []            # index of the op line and of its dump line
    h = 10
    for op in ops:
        if op[0] == "clock":
            lines.append("clock %d %d %d %d %d %d %d" % op[1:])
            marks.append((len(lines) - 1, None))
            continue
        if op[0] == "create_file":
            lines.append("create_file 0 %s %d" % (hexs(op[1]), h)); i = len(lines) - 1
            lines.append("drop_file %d" % h); h += 1
        elif op[0] == "create_dir":
            lines.append("create_dir 0 %s %d" % (hexs(op[1]), h)); i = len(lines) - 1
            lines.append("drop_dir %d" % h); h += 1
        elif op[0] == "remove":
            lines.append("remove 0 %s" % hexs(op[1])); i = len(lines) - 1
        else:
            lines.append("rename 0 %s 0 %s" % (hexs(op[1]), hexs(op[2]))); i = len(lines) - 1
        lines.append(region_dump)
        marks.append((i, len(lines) - 1))
    return lines, marks


def changed_cluster(before, after):
    """cluster (lo word) stored in the last 32-byte slot that differs"""
    c = None
    for k in range(0, min(len(before), len(after)), 64):
        if before[k:k + 64] != after[k:k + 64] and len(after[k:k + 64]) == 64:
            s = bytes.fromhex(after[k:k + 64])
            if s[11] & 0x0f != 0x0f:
                c = s[26] | (s[27] << 8)
    return c


def run_stream(rep, tier, seed):
    rng = vlib.Rng(seed * 7919 + 17)
    nscripts = 6 if tier == "quick" else 90
    nops = 40 if tier == "quick" else 70
    # geometry of every configuration (one probe script each)
    probe = vlib.run_scripts([["dev %d 0" % c[1], "wlog 0", c[2], "dump 0 64"] for c in CONFS])
    geoms = [fatimg.Geom(bytes.fromhex(p[3].payload.split()[0])) for p in probe]
    jobs = []
    for i in range(nscripts):
        ci = i % len(CONFS)
        g = geoms[ci]
        sub = (i % 3 == 2)        # every third history runs inside a chain-backed sub-directory
        if sub:
            prelude = ["create_dir 0 %s 1" % hexs("d"), "drop_dir 1"]
            dump = "dump %d %d" % (g.cluster_off(2), NCL * g.cluster_size)
            ops = gen_ops(rng, nops, "d/", False)
        else:
            prelude = []
            dump = "dump %d %d" % (g.root_off, g.root_entries * 32)
            ops = gen_ops(rng, nops, "", True)
        lines, marks = build_script(CONFS[ci], ops, dump, prelude)
        jobs.append((ci, sub, ops, lines, marks))
    results = vlib.run_scripts([j[3] for j in jobs])
    _, table = namelib.upper_table("default")
    mlines = ["upper " + table]
    plan = []              # per model line: (job index, op index, before, after, impl result)
    dist = {}
    for ji, (ci, sub, ops, lines, marks) in enumerate(jobs):
        res = results[ji]
        g = geoms[ci]
        cslots = g.cluster_size // 32
        first_dump = 5 + (2 if sub else 0)
        cur = res[first_dump].payload.split()[0] if res[first_dump].kind == "ok" else None
        cur_len = cslots * 64 if sub else None          # hex length of the allocated part of the chain
        clock = (2024, 2, 29, 13, 37, 59, 990)
        for oi, op in enumerate(ops):
            li, di = marks[oi]
            if op[0] == "clock":
                clock = op[1:]
                continue
            if cur is None or res[li].kind in ("skipped", "bad", "hang") or res[di].kind != "ok":
                break
            after = res[di].payload.split()[0]
            before_region = cur[:cur_len] if sub else cur
            kind = ("chain:%d:1000" % cslots) if sub else "root"
            strip = (lambda p: p[2:]) if sub else (lambda p: p)
            if op[0] in ("create_file", "create_dir"):
                isdir = op[0] == "create_dir"
                cl = "-"
                if isdir:
                    c = changed_cluster(before_region, after)
                    cl = str(c if c is not None else 2)
                ml = "create %s 0 %s %s %d %s %d %d %d %d %d %d %d %d" % ((kind, before_region, hexs(strip(op[1])), 16 if isdir else 0, cl) + tuple(clock) + (1 if isdir else 0,))
            elif op[0] == "remove":
                # whether the removed directory has children is a fact of another directory: taken from the implementation
                ne = 1 if (res[li].kind == "err" and res[li].payload.startswith("DirectoryIsNotEmpty")) else 0
                ml = "remove %s %s %d" % (before_region, hexs(strip(op[1])), ne)
            else:
                ml = "rename %s %s %s %s" % (kind, before_region, hexs(strip(op[1])), hexs(strip(op[2])))
            mlines.append(ml); plan.append((ji, oi, before_region, after, res[li], "scan"))
            mlines.append("scan 0 " + before_region); plan.append(None)
            mlines.append("scan 0 " + after); plan.append(None)
            dist[op[0]] = dist.get(op[0], 0) + 1
            cur = after
            if sub and after[cur_len:].strip("0") != "":
                used = len(after.rstrip("0"))               # the directory grew: whole clusters up to the last written byte
                cur_len = -(-used // (cslots * 64)) * (cslots * 64)
    out = vlib.model_run("cdir", "\n".join(mlines) + "\n")
    out = out[1:]
    nviol = 0
    kinds = {}
    k = 0
    while k < len(plan):
        ji, oi, before, after, ir, _ = plan[k]
        mo, sb, sa = out[k].split(), out[k + 1], out[k + 2]
        k += 3
        ci, sub, ops, lines, marks = jobs[ji]
        op = ops[oi]
        rep.count()
        # ---- model vs implementation: outcome and bytes
        mtag = mo[0]
        if mtag == "err":
            mtag = "err " + mo[1]
        mregion = mo[-1] if mo[-1] != "-" else ""
        itag = "ok" if ir.kind == "ok" else (ir.kind + " " + ir.payload.split()[0] if ir.payload else ir.kind)
        same_outcome = (mtag in ("ok", "exists") and ir.kind == "ok") or (mtag == itag)
        impl_region = after[:len(mregion)] if sub else after
        rest_zero = (after[len(mregion):].strip("0") == "") if sub else True
        kinds[mtag] = kinds.get(mtag, 0) + 1
        if not same_outcome or impl_region != mregion or not rest_zero:
            nviol += 1
            if nviol <= 3:
                diff = next((x // 64 for x in range(0, max(len(impl_region), len(mregion)), 64) if impl_region[x:x + 64] != mregion[x:x + 64]), None)
                rep.violation("directory slot layer: model and implementation disagree on %s %r in %s (model %s, impl %s, first differing slot %s)"
                              % (op[0], op[1:], "sub-directory" if sub else "root", mtag, itag, diff),
                              {"theorem_or_correspondence": "Model/DirSlots.v (C01_dir_refines_map, C03_write_entry_refines) vs src/dir.rs",
                               "script": lines[:marks[oi][1] + 1]}, nofail=True)
            continue
        rep.distinct(("cdir", op[0], mtag, len(before), before[:64], op[1]))
        # ---- direct evaluation of the slot clauses on the implementation's regions
        nb, _, ib = [int(x.rstrip(":")) for x in sb.split()[:3]]
        na, _, ia = [int(x.rstrip(":")) for x in sa.split()[:3]]
        if ib == 0 and ir.kind == "ok":
            exp = {"create_file": (0, 1), "create_dir": (0, 1), "remove": (-1,), "rename": (0,)}[op[0]]
            if ia != 0 or (na - nb) not in exp:
                rep.violation("directory region of the implementation after a successful %s %r: %d decoder issues, entries %d -> %d"
                              % (op[0], op[1:], ia, nb, na), {"script": lines[:marks[oi][1] + 1]})
    rep.cov["cdir_correspondence"] = {"ops_compared": len(plan) // 3, "disagreements": nviol, "op_kinds": dist, "model_outcomes": kinds,
                                      "histories": nscripts, "configs": [c[0] for c in CONFS] + ["sub-directory (chain, 16 slots/cluster)"]}
    return nviol
