"""Correspondence of the directory SLOT layer (coq/Model/DirSlots.v: find_free_entries, write_entry, the deletion loop,
check_for_existence + alias generation, create, rename in place) with the real library.  NOT a registered property: a helper
stream called from tools/props/c01.py.

Histories of create_file / create_dir / remove / rename run on small FAT12 volumes, (a) in the fixed ROOT directory and (b) in
one chain-backed sub-directory (cluster = 16 slots; it grows into the next, contiguous cluster).  The executor's clock is fixed
by `clock ...` and the same date/time goes into the model's create_sfn_entry (Model/Time.v stamp_create).  After every op the
directory region is dumped from the device and compared BYTE FOR BYTE with the slots the extracted model computes from the
region before the op (the model is re-synchronised on the implementation's region after every op, so one divergence does
not cascade).  Failing calls are compared too (outcome and the slots they leave).
FULL FIXED ROOT: besides the mixed histories, "fill" histories run in a 16-entry root: long-named creates until create_file /
create_dir / rename return NotEnoughSpace, then more creates and renames of varying slot counts and a few removes, so
that the capacity test of find_free_entries (13fd5fe: NotEnoughSpace BEFORE anything is written, formerly WriteZero after a
partial run) and the write-then-delete order of rename (d9f4de8: a failed rename keeps the source) are compared at and around
the boundary (run ends exactly at the last slot / one slot too long / fits only into a deleted run).
The cluster number stored by create_dir comes from the allocator (layer B) and is read off the implementation's slot;
whether a directory being removed is empty is a fact of ANOTHER directory and is taken from the implementation's outcome.

Renames are aimed (rule of the generator): at a fresh random name; at ANOTHER SPELLING of the source's own name (other case,
also through the library's full case folding, e.g. "straße" -> "STRASSE"); at the source's OWN ALIAS (the short name is read
off the implementation's region of a previous pass over the same history - the executor is deterministic - and the pass is
repeated until the aliases are stable, at most 4 times); at the identical spelling.  Root histories start from a root that
already holds three short-only entries planted before mount (no long-name slots: "NOLFN.TXT"; "lowcase.txt" stored as
LOWCASE.TXT with the NT lower-case flags; "CAF\x82.TXT" with a non-ASCII OEM byte), so that the short-name side of
DirEntry::has_exact_name is exercised.  After 46d26a5 (D22) a rename whose destination resolves to the source entry itself
is a no-op only for the identical spelling; otherwise the entry is rewritten with the new long name and the same raw short
name - model and implementation must agree byte for byte on which of the two happens and on the resulting slots.

Directly on the implementation's regions (independent of the model) the extracted decoder Spec/Abs.dir_scan is evaluated:
while the region had no issue before an op that succeeded, it has none after, and the number of decoded entries moves by
+1 (new entry) / 0 (already exists, rename) / -1 (remove); after a successful rename the region holds an entry stored under
exactly the destination spelling (long name = UTF-16 of the name, or - without long name - rendered short name = the
bytes of the name), whatever the destination resolved to before.
Also model-independent, on every FAILED call (r err): in a fixed root the directory region after the call is byte-identical
to the region before it (create_file, create_dir, rename, remove; in the chain-backed sub-directory the same unless the
error is NotEnoughSpace, the recorded class "nospace during entry write"); and after every failed rename the library's own
listing (`list`) of the directory is exactly what it was before the call - in particular the source name is still
listed.

RESPELL WITH A SECOND MATCH (D27, fixed by 7e5011a): deterministic histories (RESPELL, in the root and in the sub-directory)
build the situation the existence check of rename_internal used to miss: an entry X whose LONG name folds - through an
expanding or ASCII-landing case mapping (U+00DF -> SS, U+017F -> S, U+FB01 -> FI, U+0131 -> I) - to the ALIAS the generator
gives a later entry Y ("s s" -> SS~1), with Y placed first-fit IN FRONT of X (a filler of the same slot count is created
first and removed again).  rename(Y, alias of Y in some case) resolves to Y itself first; since 7e5011a the remaining
entries are scanned and the call answers AlreadyExists (Model/DirSlots.other_match), nothing written.  Model and
implementation are compared as for every other op; model-independent: after EVERY successful op the library's own
listing must not show two entries whose long names are equal under the executor's case folding (the WDupLong clause of
C03 evaluated on the listing) - that is the failing input when the scan is missing."""
import re
import vlib, namelib, fatimg
from vlib import hexs

CONFS = [
    ("fat12-root16", 64 * 512, "format 512 64 512 12 16 2 - - -"),
    ("fat12-root32-label", 400 * 512, "format 512 400 512 12 32 2 - - 4d59564f4c554d45202020"),
    ("fat12-root16-1fat", 120 * 512, "format 512 120 512 12 16 1 - - -"),
]

FAMILY = ["longfilename%d.txt" % i for i in range(1, 8)] + ["Long File Name.TXT", "longfi~1.txt", "LONGFI~2.TXT", "lo1234~1.txt"]
NAMES = ["a", "B", "b", "A", "file.txt", "File.TXT", "x" * 13, "y" * 14, "z" * 26, "w" * 27, "thirteenchars.26charsxxxxx",
         "name.with.many.dots.ext", "UPPER", "lower.c", "MiXed.Txt", "straße", "Жук.txt", "é.x", "trail￿",
         "~tilde", "#hash&amp", ".", "..", "...", " lead", "tr.", "e5å", "€", "averyveryverylongname_that_needs_many_lfn_slots_0123456789.bin",
         "q" * 255, "å" * 100] + FAMILY
BAD = ["", "bad:name", "que?", "a*b", "x" * 256, "é" * 128, "tab\tname", "\U0001F600smile.txt"]


# (filler W, other entry X, source Y, destinations aimed at Y's alias): W and Y need the same number of slots, so that Y lands
# first-fit in the slots W frees, IN FRONT of X; fold(long name of X) = fold(alias of Y) under char::to_uppercase
RESPELL = [
    ("ab", "\u00df~1", "s s", ["ss~1", "SS~1", "Ss~1"]),
    ("ab", "\u017fs~1", "s s", ["sS~1"]),
    ("abc", "\ufb01le~1", "fi le", ["file~1", "FILE~1"]),
    ("ab", "\u0131i~1", "i i", ["ii~1"]),
    ("ab.txt", "\u00df~1.txt", "s s.txt", ["ss~1.TXT", "SS~1.txt"]),
    ("w" * 14, "\u00dfabcd~1", "s sabcdefghijk", ["ssabcd~1"]),
    (None, "\u00df~1", "s s", ["ss~1"]),          # control: X in front of Y - the first match is X (AlreadyExists also before the fix)
]


def respell_ops(fam, prefix):
    """the D27 situation, then the aimed renames (each must fail with AlreadyExists and change nothing), then controls: a
    destination nobody matches, and - X gone - the same respelling (now Ok: the entry is rewritten under the new spelling)"""
    w, x, y, dsts = fam
    ops = []
    if w is not None:
        ops.append(("create_file", prefix + w))
    ops.append(("create_file", prefix + x))
    if w is not None:
        ops.append(("remove", prefix + w))
    ops.append(("create_file", prefix + y))
    aimed = []
    for d in dsts:
        aimed.append(len(ops)); ops.append(("rename", prefix + y, prefix + d))
    ops.append(("rename", prefix + y, prefix + "t-" + y))
    ops.append(("rename", prefix + "t-" + y, prefix + y))
    ops.append(("remove", prefix + x))
    ops.append(("rename", prefix + y, prefix + dsts[0]))
    return ops, aimed


NCL = 8     # clusters of the sub-directory chain that are dumped (it owns clusters 2, 3, ..: nothing else allocates)


# short-only entries planted into the root before mount: (11 raw name bytes, NT flags byte, the names that resolve to it)
PLANTED = [(b"NOLFN   TXT", 0x00, ["NOLFN.TXT", "nolfn.txt", "NoLfn.Txt"]),
           (b"LOWCASE TXT", 0x18, ["lowcase.txt", "LOWCASE.TXT", "LowCase.txt"]),
           (b"CAF\x82    TXT", 0x00, ["caf\ufffd.txt", "CAF\ufffd.TXT"])]


def planted_slots():
    out = b""
    for raw, nt, _ in PLANTED:
        out += raw + bytes([0x20, nt, 0, 0x00, 0x60, 0x21, 0x58, 0x21, 0x58, 0, 0, 0x00, 0x60, 0x21, 0x58, 0, 0, 0, 0, 0, 0])
    assert len(out) == 32 * len(PLANTED)
    return out


FITS83 = re.compile(r"[A-Za-z0-9_~#&-]{1,8}(\.[A-Za-z0-9_~#&-]{1,3})?")


def case_variant(rng, t):
    return [t.upper(), t.lower(), t.swapcase(), t.title()][rng.below(4)]


def gen_ops(rng, nops, prefix, allow_dirs, planted):
    """-> list of (kind, args...) ; keeps a light shadow of created names only to aim removes/renames at existing entries.
    ("rename_alias", src path, src name, lower?) is a rename onto the source's own alias, resolved by resolve_ops."""
    live = [p[2][0] for p in PLANTED] if planted else []
    extra = [n for p in PLANTED for n in p[2]] if planted else []
    ops = []
    for _ in range(nops):
        r = rng.below(100)
        nm = rng.choice(NAMES + extra) if rng.chance(92, 100) else rng.choice(BAD)
        if prefix and nm == "":
            nm = "bad:name"        # "d/" is the path of the directory itself (split_path trims '/'): not a name of this layer
        if r < 8:
            ops.append(("clock", 1980 + rng.below(128), 1 + rng.below(12), 1 + rng.below(28), rng.below(24), rng.below(60), rng.below(60), rng.below(1000)))
        elif r < 46 or not live:
            ops.append(("create_file", prefix + nm)); live.append(nm)
        elif r < 55 and allow_dirs:
            ops.append(("create_dir", prefix + nm)); live.append(nm)
        elif r < 72:
            t = rng.choice(live) if rng.chance(85, 100) else nm
            if rng.chance(30, 100):
                t = t.upper() if rng.chance(1, 2) else t.lower()
            ops.append(("remove", prefix + t))
            if t in live:
                live.remove(t)
        else:
            s = rng.choice(live) if rng.chance(85, 100) else nm
            how = rng.below(100)
            if how < 45:                                   # a random name (fresh, or another entry's, or by chance the source's own)
                ops.append(("rename", prefix + s, prefix + nm))
                if s in live and rng.chance(1, 2):
                    live.remove(s); live.append(nm)
            elif how < 70:                                 # another spelling of the source's own name
                v = case_variant(rng, s)
                ops.append(("rename", prefix + s, prefix + v))
                if s in live:
                    live.remove(s); live.append(v)
            elif how < 92:                                 # the source's own alias (as stored, or lower-cased)
                low = rng.chance(1, 3)
                ops.append(("rename_alias", prefix + s, s, low))
                if s in live and FITS83.fullmatch(s):      # the alias of a name that fits 8.3 is its upper-case form
                    live.remove(s); live.append(s.lower() if low else s.upper())
            else:                                          # the identical spelling
                ops.append(("rename", prefix + s, prefix + s))
    return ops


FILL_LENS = [1, 5, 12, 13, 14, 20, 26, 27, 30, 39, 40, 45, 52, 53, 60, 65, 66, 70]     # name lengths: 2 .. 7 slots


class RootShadow:
    """slot occupancy of a fixed root, only to AIM the fill histories (which names are live, is the root full): 'U' used,
    'D' deleted, 'E' never used; place() follows Dir::find_free_entries + the capacity test"""
    def __init__(self, nslots, used):
        self.s = ["U"] * used + ["E"] * (nslots - used)
        self.where = {}

    @staticmethod
    def need(name):
        return -(-len(name.encode("utf-16-le")) // 26) + 1

    def place(self, name):
        num = self.need(name)
        first = nfree = 0
        pos = None
        for i, c in enumerate(self.s + ["E"]):
            if c == "E":
                if nfree == 0:
                    first = i
                pos = first if first + num <= len(self.s) else None
                break
            if c == "D":
                if nfree == 0:
                    first = i
                nfree += 1
                if nfree == num:
                    pos = first
                    break
            else:
                nfree = 0
        if pos is None:
            return False
        for i in range(pos, pos + num):
            self.s[i] = "U"
        self.where[name] = (pos, num)
        return True

    def drop(self, name):
        pos, num = self.where.pop(name)
        for i in range(pos, pos + num):
            self.s[i] = "D"


def gen_fill_ops(rng, nops, nslots):
    """a history that fills a small fixed root: mostly creates of fresh long names (2..7 slots each), renames of live entries to
    fresh names of another length, few removes; the root is full after a handful of ops and stays near the boundary"""
    sh = RootShadow(nslots, len(PLANTED))
    live = []                                # names created by this history that the shadow believes to exist
    ops = []
    serial = [0]

    def fresh():
        serial[0] += 1
        n = rng.choice(FILL_LENS)
        stem = "f%d" % serial[0]
        return stem if n <= len(stem) else stem + "_" * (n - len(stem) - 1) + "z"
    for _ in range(nops):
        r = rng.below(100)
        full = "E" not in sh.s
        if not live or r < (25 if full else 50):
            nm = fresh()
            ops.append(("create_dir" if rng.chance(1, 6) else "create_file", nm))
            if sh.place(nm):
                live.append(nm)
        elif r < (75 if full else 88):
            s = rng.choice(live)
            how = rng.below(10)
            if how < 7:
                d = fresh()
            elif how < 9:
                d = s.swapcase()             # same entry, other spelling: needs room for a second copy of the entry
            else:
                d = rng.choice(live)         # another entry's name (AlreadyExists) or the identical spelling
            ops.append(("rename", s, d))
            if d not in live and sh.place(d):        # the new entry first (the source is still there), then the source goes
                sh.drop(s); live.remove(s); live.append(d)
        else:
            t = rng.choice(live)
            ops.append(("remove", t)); live.remove(t); sh.drop(t)
    return ops


def alias_of(region_hex, name):
    """rendered short name ("NAME.EXT") of the first entry of a dumped directory region that `name` resolves to - by python's
    approximation of the library's case-insensitive match, used only to AIM a rename - or None"""
    b = bytes.fromhex(region_hex)
    parts = {}
    want = name.upper()
    for k in range(0, len(b) - 31, 32):
        s = b[k:k + 32]
        if s[0] == 0:
            break
        if s[0] == 0xe5:
            parts = {}
            continue
        if s[11] & 0x3f == 0x0f:
            parts[s[0] & 0x1f] = s[1:11] + s[14:26] + s[28:32]
            continue
        units = b"".join(parts[i] for i in sorted(parts))
        parts = {}
        if s[11] & 0x08:
            continue
        lfn = units.decode("utf-16-le", "replace").split("\0")[0] if units else None
        base = s[0:8].rstrip(b" ")
        ext = s[8:11].rstrip(b" ")
        if base[:1] == b"\x05":
            base = b"\xe5" + base[1:]
        short = "".join(chr(c) if c < 128 else "\ufffd" for c in base + (b"." + ext if ext else b""))
        if (lfn is not None and lfn.upper() == want) or short.upper() == want:
            return short
    return None


def resolve_ops(ops, prefix, aliases):
    """the ops that are run: every rename_alias becomes a rename onto aliases[op index] (unknown: a case variant of the name)"""
    out = []
    for oi, op in enumerate(ops):
        if op[0] == "rename_alias":
            a = aliases.get(oi)
            if a is None:
                a = op[2].swapcase()
            elif op[3]:
                a = a.lower()
            out.append(("rename", op[1], prefix + a))
        else:
            out.append(op)
    return out


def build_script(conf, ops, region_dump, prelude, pokes, sub=False):
    """-> lines, marks (index of every op line, of its dump line and of its `list` line), index of the first dump (the first
    `list` is the line after it, or two lines after it in a sub-directory history)"""
    lister = ["open_dir 0 %s 2" % hexs("d"), "list 2", "drop_dir 2"] if sub else ["list 0"]
    lines = ["dev %d 0" % conf[1], "wlog 0", conf[2]] + pokes + ["clock 2024 2 29 13 37 59 990", "mount 1 0 lossy"] + prelude + [region_dump] + lister
    first_dump = len(lines) - 1 - len(lister)
    marks = []            # index of the op line, of its dump line, of its list line
    h = 10
    for op in ops:
        if op[0] == "clock":
            lines.append("clock %d %d %d %d %d %d %d" % op[1:])
            marks.append((len(lines) - 1, None, None))
            continue
        if op[0] == "create_file":
            lines.append("create_file 0 %s %d" % (hexs(op[1]), h)); i = len(lines) - 1
            lines.append("drop_file %d" % h); h += 1
        elif op[0] == "create_dir":
            lines.append("create_dir 0 %s %d" % (hexs(op[1]), h)); i = len(lines) - 1
            lines.append("drop_dir %d" % h); h += 1
        elif op[0] == "remove":
            lines.append("remove 0 %s" % hexs(op[1])); i = len(lines) - 1
        else:
            lines.append("rename 0 %s 0 %s" % (hexs(op[1]), hexs(op[2]))); i = len(lines) - 1
        lines.append(region_dump)
        di = len(lines) - 1
        lines += lister
        marks.append((i, di, len(lines) - (2 if sub else 1)))
    return lines, marks, first_dump


def changed_cluster(before, after):
    """cluster (lo word) stored in the last 32-byte slot that differs"""
    c = None
    for k in range(0, min(len(before), len(after)), 64):
        if before[k:k + 64] != after[k:k + 64] and len(after[k:k + 64]) == 64:
            s = bytes.fromhex(after[k:k + 64])
            if s[11] & 0x0f != 0x0f:
                c = s[26] | (s[27] << 8)
    return c


def render_short(raw):
    """ShortName::new(raw).as_bytes()"""
    base = raw[0:8].rstrip(b" ")
    ext = raw[8:11].rstrip(b" ")
    out = base + (b"." + ext if ext else b"")
    if out[:1] == b"\x05":
        out = b"\xe5" + out[1:]
    return out


def stored_exactly(scan_line, name):
    """does the decoded directory (a `scan` output line of Spec/Abs.dir_scan) hold an entry stored under exactly this spelling:
    long name = UTF-16 of the name, or - no long name - rendered short name = the bytes of the name"""
    ents = scan_line.split(": ", 1)[1] if ": " in scan_line else ""
    want16 = name.encode("utf-16-be").hex()
    for ent in ents.split(";"):
        if "," not in ent:
            continue
        sfn, lfn = ent.strip().split(",")
        if lfn != "-":
            if lfn == want16:
                return True
        elif render_short(bytes.fromhex(sfn)) == name.encode():
            return True
    return False


def listed_as(e_line, name):
    """is `name` the long name or the rendered short name (ASCII case-insensitively) of a `list` entry line
    ("<lfn u16 hex|-> <short hex> ...")"""
    t = e_line.split() if isinstance(e_line, str) else list(e_line)
    if t and t[0] == "e":
        t = t[1:]
    if len(t) < 2:
        return False
    try:
        lfn = bytes.fromhex(t[0]).decode("utf-16-be", "replace") if t[0] != "-" else None
        short = bytes.fromhex(t[1]).decode("latin-1")
    except ValueError:
        return False
    return (lfn is not None and lfn.upper() == name.upper()) or short.upper() == name.upper()


def dup_long(listing, utable):
    """two entries of a `list` result whose long names are equal under the case folding of the executor's table -> their names,
    else None"""
    seen = {}
    for e in listing:
        t = list(e)
        if t and t[0] == "e":
            t = t[1:]
        if not t or t[0] == "-":
            continue
        try:
            lfn = bytes.fromhex(t[0]).decode("utf-16-be", "replace")
        except ValueError:
            continue
        k = tuple(namelib.fold(lfn, utable))
        if k in seen:
            return (seen[k], lfn)
        seen[k] = lfn
    return None


def walk(job, res, visit):
    """the region before and after every compared op of one history: visit(op index, op, before region, after region, impl result,
    model directory kind, listing before, listing after).  The model is re-synchronised on the implementation's region after
    every op.  A listing is the list of `e` lines of the library's own `list` of the directory (None: not available)."""
    ci, sub, prefix, ops, lines, marks, first_dump, cslots = job
    cur = res[first_dump].payload.split()[0] if res[first_dump].kind == "ok" else None
    l0 = res[first_dump + (2 if sub else 1)]
    cur_list = list(l0.extra) if l0.kind == "ok" else None
    cur_len = cslots * 64 if sub else None          # hex length of the allocated part of the chain
    for oi, op in enumerate(ops):
        li, di, lsi = marks[oi]
        if op[0] == "clock":
            visit(oi, op, None, None, None, None, None, None)
            continue
        if cur is None or res[li].kind in ("skipped", "bad", "hang") or res[di].kind != "ok":
            break
        after = res[di].payload.split()[0]
        after_list = list(res[lsi].extra) if res[lsi].kind == "ok" else None
        before_region = cur[:cur_len] if sub else cur
        visit(oi, op, before_region, after, res[li], ("chain:%d:1000" % cslots) if sub else "root", cur_list, after_list)
        cur = after
        cur_list = after_list
        if sub and after[cur_len:].strip("0") != "":
            used = len(after.rstrip("0"))               # the directory grew: whole clusters up to the last written byte
            cur_len = -(-used // (cslots * 64)) * (cslots * 64)


def run_stream(rep, tier, seed):
    rng = vlib.Rng(seed * 7919 + 17)
    nscripts = 6 if tier == "quick" else 90
    nops = 40 if tier == "quick" else 70
    # geometry of every configuration (one probe script each)
    probe = vlib.run_scripts([["dev %d 0" % c[1], "wlog 0", c[2], "dump 0 64"] for c in CONFS])
    geoms = [fatimg.Geom(bytes.fromhex(p[3].payload.split()[0])) for p in probe]
    gens = []
    for i in range(nscripts):
        ci = i % len(CONFS)
        g = geoms[ci]
        sub = (i % 3 == 2)        # every third history runs inside a chain-backed sub-directory
        if sub:
            prelude = ["create_dir 0 %s 1" % hexs("d"), "drop_dir 1"]
            dump = "dump %d %d" % (g.cluster_off(2), NCL * g.cluster_size)
            ops = gen_ops(rng, nops, "d/", False, False)
            pokes = []
        else:
            prelude = []
            dump = "dump %d %d" % (g.root_off, g.root_entries * 32)
            ops = gen_ops(rng, nops, "", True, True)
            pokes = ["poke %d %s" % (g.root_off, planted_slots().hex())]      # short-only entries, before mount
        gens.append((ci, sub, "d/" if sub else "", ops, dump, prelude, pokes))
    # fill histories: the 16-entry fixed roots, driven to NotEnoughSpace and kept at the boundary
    nfill = 2 if tier == "quick" else 24
    for i in range(nfill):
        ci = (0, 2)[i % 2]
        g = geoms[ci]
        assert g.root_entries * 32 == g.root_sectors * g.bps        # the dumped region is the whole DiskSlice of the root
        gens.append((ci, False, "", gen_fill_ops(rng, nops, g.root_entries), "dump %d %d" % (g.root_off, g.root_entries * 32), [],
                     ["poke %d %s" % (g.root_off, planted_slots().hex())]))
    # respell-with-a-second-match histories (D27): every family in a fixed root and in the chain-backed sub-directory
    respell_aimed = {}           # index into gens -> op indices of the aimed renames
    for fi, fam in enumerate(RESPELL):
        for sub in (False, True):
            ci = fi % len(CONFS)
            g = geoms[ci]
            rops, aimed = respell_ops(fam, "d/" if sub else "")
            respell_aimed[len(gens)] = aimed
            if sub:
                gens.append((ci, True, "d/", rops, "dump %d %d" % (g.cluster_off(2), NCL * g.cluster_size),
                             ["create_dir 0 %s 1" % hexs("d"), "drop_dir 1"], []))
            else:
                gens.append((ci, False, "", rops, "dump %d %d" % (g.root_off, g.root_entries * 32), [], []))
    # the histories are run until the aliases the rename_alias ops aim at are those of the run itself
    aliases = [dict() for _ in gens]
    passes = 0
    while True:
        jobs = []
        for gi, (ci, sub, prefix, ops, dump, prelude, pokes) in enumerate(gens):
            rops = resolve_ops(ops, prefix, aliases[gi])
            lines, marks, first_dump = build_script(CONFS[ci], rops, dump, prelude, pokes, sub)
            jobs.append((ci, sub, prefix, rops, lines, marks, first_dump, geoms[ci].cluster_size // 32))
        results = vlib.run_scripts([j[4] for j in jobs])
        passes += 1
        found = [dict() for _ in gens]
        for gi, job in enumerate(jobs):
            gops = gens[gi][3]

            def see(oi, op, before, after, ir, kind, lb, la, gi=gi, gops=gops):
                if gops[oi][0] == "rename_alias":
                    a = alias_of(before, gops[oi][2])
                    if a is not None:
                        found[gi][oi] = a
            walk(job, results[gi], see)
        if found == aliases or passes >= 4:
            break
        aliases = found
    n_alias_ops = sum(1 for g in gens for op in g[3] if op[0] == "rename_alias")
    n_alias_hit = sum(len(a) for a in aliases)
    utable, table = namelib.upper_table("default")
    respell_seen = {}
    mlines = ["upper " + table]
    plan = []              # per model line: (job index, op index, before, after, impl result)
    dist = {}
    for ji, job in enumerate(jobs):
        sub = job[1]
        strip = (lambda p: p[2:]) if sub else (lambda p: p)
        state = {"clock": (2024, 2, 29, 13, 37, 59, 990)}

        def plan_op(oi, op, before_region, after, ir, kind, lb, la, ji=ji, strip=strip, state=state):
            if op[0] == "clock":
                state["clock"] = op[1:]
                return
            if op[0] in ("create_file", "create_dir"):
                isdir = op[0] == "create_dir"
                cl = "-"
                if isdir:
                    c = changed_cluster(before_region, after)
                    cl = str(c if c is not None else 2)
                ml = "create %s 0 %s %s %d %s %d %d %d %d %d %d %d %d" % ((kind, before_region, hexs(strip(op[1])), 16 if isdir else 0, cl) + tuple(state["clock"]) + (1 if isdir else 0,))
            elif op[0] == "remove":
                # whether the removed directory has children is a fact of another directory: taken from the implementation
                ne = 1 if (ir.kind == "err" and ir.payload.startswith("DirectoryIsNotEmpty")) else 0
                ml = "remove %s %s %d" % (before_region, hexs(strip(op[1])), ne)
            else:
                ml = "rename %s %s %s %s" % (kind, before_region, hexs(strip(op[1])), hexs(strip(op[2])))
            mlines.append(ml); plan.append((ji, oi, before_region, after, ir, (lb, la)))
            mlines.append("scan 0 " + before_region); plan.append(None)
            mlines.append("scan 0 " + after); plan.append(None)
            dist[op[0]] = dist.get(op[0], 0) + 1
        walk(job, results[ji], plan_op)
    out = vlib.model_run("cdir", "\n".join(mlines) + "\n")
    out = out[1:]
    nviol = 0
    ndirect = 0
    kinds = {}
    paths = {}
    nfailed = {}
    full_root = {}
    k = 0
    while k < len(plan):
        ji, oi, before, after, ir, (lb, la) = plan[k]
        mo, sb, sa = out[k].split(), out[k + 1], out[k + 2]
        k += 3
        ci, sub, prefix, ops, lines, marks, _, _ = jobs[ji]
        op = ops[oi]
        rep.count()
        # ---- direct evaluation of the slot clauses on the implementation's regions (independent of the model)
        nb, _, ib = [int(x.rstrip(":")) for x in sb.split()[:3]]
        na, _, ia = [int(x.rstrip(":")) for x in sa.split()[:3]]
        if ib == 0 and ir.kind == "ok":
            exp = {"create_file": (0, 1), "create_dir": (0, 1), "remove": (-1,), "rename": (0,)}[op[0]]
            if ia != 0 or (na - nb) not in exp:
                ndirect += 1
                rep.violation("directory region of the implementation after a successful %s %r: %d decoder issues, entries %d -> %d"
                              % (op[0], op[1:], ia, nb, na), {"script": lines[:marks[oi][1] + 1]})
            dst = op[2][len(prefix):] if op[0] == "rename" else None
            if dst is not None and dst not in (".", "..") and not stored_exactly(sa, dst):
                ndirect += 1
                if ndirect <= 3:
                    rep.violation("rename %r -> %r returned Ok but the directory holds no entry stored under the spelling %r "
                                  "(a rename onto another spelling of the entry's own name, or onto its alias, must store the new spelling: D22)"
                                  % (op[1], op[2], dst), {"script": lines[:marks[oi][1] + 1]})
        # ---- the WDupLong clause on the library's own listing (independent of the model): no two long names equal under the
        #      executor's case folding after a successful op whose listing before had none
        if ir.kind == "ok" and la is not None and lb is not None:
            da, db = dup_long(la, utable), dup_long(lb, utable)
            if da is not None and db is None:
                ndirect += 1
                rep.violation("after the successful %s %r the directory lists two entries whose long names are equal under case folding "
                              "(%r and %r): duplicate names (C03 WDupLong; a rename onto another spelling of the source's own name / "
                              "alias must fail when another entry matches the new name too: D27)" % (op[0], op[1:], da[0], da[1]),
                              {"script": lines[:marks[oi][2] + 1]})
        if ji in respell_aimed and oi in respell_aimed[ji]:
            key = "%s / %s" % (mo[0] + (" " + mo[1] if mo[0] == "err" else ""), ir.kind + (" " + ir.payload.split()[0] if ir.kind == "err" and ir.payload else ""))
            respell_seen[key] = respell_seen.get(key, 0) + 1
        # ---- failed calls, directly on the implementation (independent of the model)
        if ir.kind == "err":
            ekind = ir.payload.split()[0] if ir.payload else "?"
            nfailed[(op[0], ekind, "sub" if sub else "root")] = nfailed.get((op[0], ekind, "sub" if sub else "root"), 0) + 1
            changed = (after != before) if not sub else (after[:len(before)] != before or after[len(before):].strip("0") != "")
            if changed and not (sub and ekind == "NotEnoughSpace"):
                ndirect += 1
                diff = next((x // 64 for x in range(0, max(len(after), len(before)), 64) if after[x:x + 64] != before[x:x + 64]), None)
                rep.violation("%s %r failed with %s but changed the directory region of the %s (first differing slot %s): a failed call "
                              "must leave the directory as it was (fixed root: NotEnoughSpace must be reported before anything is written)"
                              % (op[0], op[1:], ekind, "sub-directory" if sub else "fixed root", diff), {"script": lines[:marks[oi][1] + 1]})
            if op[0] == "rename" and lb is not None and la is not None and la != lb:
                ndirect += 1
                srcname = op[1][len(prefix):]
                was = [e for e in lb if listed_as(e, srcname)]
                now = [e for e in la if listed_as(e, srcname)]
                rep.violation("rename %r -> %r failed with %s but the listing of the directory changed (%d -> %d entries; source listed "
                              "before: %s, after: %s): a failed rename must keep the source entry"
                              % (op[1], op[2], ekind, len(lb), len(la), bool(was), bool(now)), {"script": lines[:marks[oi][2] + 1]})
        # ---- model vs implementation: outcome and bytes
        mtag = mo[0]
        if mtag == "err":
            mtag = "err " + mo[1]
        mregion = mo[-1] if mo[-1] != "-" else ""
        itag = "ok" if ir.kind == "ok" else (ir.kind + " " + ir.payload.split()[0] if ir.payload else ir.kind)
        same_outcome = (mtag in ("ok", "exists") and ir.kind == "ok") or (mtag == itag)
        impl_region = after[:len(mregion)] if sub else after
        rest_zero = (after[len(mregion):].strip("0") == "") if sub else True
        kinds[mtag] = kinds.get(mtag, 0) + 1
        if not sub and mtag == "err NotEnoughSpace":
            full_root[op[0]] = full_root.get(op[0], 0) + 1
        if not same_outcome or impl_region != mregion or not rest_zero:
            nviol += 1
            if nviol <= 3:
                diff = next((x // 64 for x in range(0, max(len(impl_region), len(mregion)), 64) if impl_region[x:x + 64] != mregion[x:x + 64]), None)
                rep.violation("directory slot layer: model and implementation disagree on %s %r in %s (model %s, impl %s, first differing slot %s)"
                              % (op[0], op[1:], "sub-directory" if sub else "root", mtag, itag, diff),
                              {"theorem_or_correspondence": "Model/DirSlots.v (C01_dir_refines_map, C03_write_entry_refines) vs src/dir.rs",
                               "script": lines[:marks[oi][1] + 1]}, nofail=True)
            continue
        if op[0] == "rename" and mo[0] == "ok" and len(mo) == 3:
            pk = mo[1] + (" (aimed at the alias)" if gens[ji][3][oi][0] == "rename_alias" and oi in aliases[ji] else "")
            paths[pk] = paths.get(pk, 0) + 1
        rep.distinct(("cdir", op[0], mtag, len(before), before[:64], op[1]) + ((op[2],) if op[0] == "rename" else ()))
    rep.cov["cdir_correspondence"] = {"ops_compared": len(plan) // 3, "disagreements": nviol, "op_kinds": dist, "model_outcomes": kinds,
                                      "successful_renames_by_destination": paths,
                                      "renames_aimed_at_own_alias": {"generated": n_alias_ops, "alias_found": n_alias_hit, "passes": passes},
                                      "failed_calls_checked_directly": {"%s %s %s" % k3: v for k3, v in sorted(nfailed.items())},
                                      "fixed_root_full_NotEnoughSpace": full_root, "fill_histories": nfill,
                                      "respell_second_match_D27": {"histories": len(respell_aimed), "aimed_renames (model / library)": respell_seen},
                                      "histories": nscripts + nfill + len(respell_aimed), "configs": [c[0] for c in CONFS] + ["sub-directory (chain, 16 slots/cluster)"]}
    return nviol
