"""C02 - a file is a growable byte array with a cursor: every read/write/seek/truncate outcome is checked by the
extracted byte-array machine (the file part of Spec/Tree.v), offsets and lengths concentrated on cluster boundaries,
several files open and modified in interleaved order, all cluster sizes and FAT widths."""
import vlib, sessions
from vlib import hexs
from props import sess_common as sc

PROP_FILES = ["Props/C02.v"]

def file_session(rng, conf, nops):
    label, size, fmt = conf
    g = sessions.Gen(rng, True, True)
    toks = fmt.split()
    bps = 512 if toks[1] == "-" else int(toks[1])
    g.cluster = bps if toks[3] == "-" else int(toks[3])
    head = ["dev %d 0" % size, "wlog 0", fmt, "pages", "wlog 1", "mount 1 0 lossy"]
    nfiles = rng.range(1, 4)
    for i in range(nfiles):
        h = g.newh(); p = ("f%d.bin" % i,)
        g.files[p] = 0; g.fh[h] = p
        g.emit("create_file 0 %s %d" % (hexs(p[0]), h))
    while len(g.lines) < nops:
        if rng.chance(9, 10):
            g.file_op()
        else:
            # reopen a file through a fresh handle and read it back
            h = rng.choice(sorted(g.fh)); p = g.fh[h]
            g.emit("drop_file %d" % h); del g.fh[h]
            nh = g.newh(); g.fh[nh] = p
            g.emit("open_file 0 %s %d" % (hexs(p[0]), nh)); g.emit("read_all %d 100000" % nh)
    for h in sorted(g.fh):
        g.emit("flush %d" % h); g.emit("seek %d start 0" % h); g.emit("read_all %d 100000" % h); g.emit("extents %d" % h)
    return head + g.lines

def run(rep, tier, seed):
    rng = vlib.Rng(seed)
    confs = sessions.configs(tier)
    n = 80 if tier == "quick" else 1500
    scripts = []
    for i in range(n):
        conf = confs[i % len(confs)]
        if conf[0].startswith("fat32") and tier == "quick" and i % 3:
            conf = confs[1 + rng.below(6)]
        scripts.append(file_session(rng, conf, 40 if tier == "quick" else 80))
    judged = sessions.run_judged(scripts, flags=("tree",), shards=16)
    boundary = 0
    for jd in judged:
        f = sc.Findings(jd)
        rep.count()
        if sc.report(rep, jd, f, ("file", "match"), "C02"):
            rep.distinct(tuple(jd.script[6:]))
    rep.cov["traces_validated_against_impl"] = len(judged)
    rep.cov["distribution"] = sc.distribution(judged)
    rep.cov["rule"] = ("sessions over 1-4 simultaneously open files: write/read lengths and seek targets drawn around 0, k*cluster-1, "
                       "k*cluster, k*cluster+1 and randomly; SeekFrom Start/End/Current incl. negative, beyond the end, >= 2^32, i64 extremes; "
                       "truncate; reopen and read back through fresh handles; extents read from the raw image; cluster sizes 512 B - 4 KiB, "
                       "FAT12/16/32; each outcome judged by the extracted byte-array machine; distinct = distinct op sequences without finding")
    rep.sample({"config": scripts[0][2], "ops": [sc.short(l, 80) for l in scripts[0][6:18]]})
