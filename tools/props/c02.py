"""C02 - a file is a growable byte array with a cursor: every read/write/seek/truncate outcome is checked by the
extracted byte-array machine (the file part of Spec/Tree.v), offsets and lengths concentrated on cluster boundaries,
several files open and modified in interleaved order, all cluster sizes and FAT widths.

Second stream (correspondence of Model/FileM.v, the model the C02 theorems are about): histories over 1-3 new files
on a freshly formatted FAT12/FAT16 volume (nothing else allocates, so the allocation sequence is deterministic),
replayed on the extracted model over the pure FAT store with all handles sharing one world (model runner mode c02).  Compared per operation: returned count / data / position / error, the position, and the
file's extents (cluster list and sizes) against the model's extents and FAT chain; at the end the cached free count
and the content read back through a fresh handle.  The same histories are also checked directly against a
byte-array-with-cursor oracle written here from the property text (independent of the model).

Third stream (props/volfile_corr.py): the image-level machine of Model/VolFile.v - the same file layer over the byte-level
FAT store that is the FAT slice of the device image, data written through - run next to the library from the same device
dump; FAT region, table entries in every copy and written clusters compared with the device after every call."""
import vlib, sessions
from vlib import hexs
from props import sess_common as sc
from props import volfile_corr

PROP_FILES = ["Props/C02.v"]

def file_session(rng, conf, nops, head=None, cluster=None, prefill=0):
    g = sessions.Gen(rng, True, True)
    if head is None:
        label, size, fmt = conf
        toks = fmt.split()
        bps = 512 if toks[1] == "-" else int(toks[1])
        g.cluster = bps if toks[3] == "-" else int(toks[3])
        head = ["dev %d 0" % size, "wlog 0", fmt, "pages", "wlog 1", "mount 1 0 lossy"]
    else:
        g.cluster = cluster
    nfiles = rng.range(1, 4)
    for i in range(nfiles):
        h = g.newh(); p = ("f%d.bin" % i,)
        g.files[p] = 0; g.fh[h] = p
        g.emit("create_file 0 %s %d" % (hexs(p[0]), h))
    if prefill:
        # the first file takes the clusters in front of the interesting ones; whatever is allocated next continues there
        h0 = sorted(g.fh)[0]
        g.emit("write_pat %d %d %d" % (h0, prefill, rng.below(256)))
        g.emit("write_pat %d %d %d" % (h0, 3 * g.cluster + 1, rng.below(256)))
        g.emit("seek %d start %d" % (h0, prefill - 1)); g.emit("read %d %d" % (h0, 4 * g.cluster))
    while len(g.lines) < nops:
        if rng.chance(9, 10):
            g.file_op()
        else:
            # reopen a file through a fresh handle and read it back
            h = rng.choice(sorted(g.fh)); p = g.fh[h]
            g.emit("drop_file %d" % h); del g.fh[h]
            nh = g.newh(); g.fh[nh] = p
            g.emit("open_file 0 %s %d" % (hexs(p[0]), nh)); g.emit("read_all %d 100000" % nh)
    for h in sorted(g.fh):
        g.emit("flush %d" % h); g.emit("seek %d start 0" % h); g.emit("read_all %d 100000" % h); g.emit("extents %d" % h)
    return head + g.lines

# ------------------------------------------------------------------ histories against Model/FileM.v
ONEFILE_CONFS = [
    # (label, device bytes, format line)   FAT12/16: format allocates nothing in the data area
    ("fat16-c512", 4400 * 512, "format 512 4400 512 16 32 2 - - -"),
    ("fat12-tiny-c512", 64 * 512, "format 512 64 512 12 16 2 - - -"),
    ("fat16-c2k", 18000 * 512, "format 512 18000 2048 16 512 1 - - -"),
    ("fat12-c2k", 2000 * 512, "format 512 2000 2048 12 512 2 - - -"),
    ("fat12-c4k", 200 * 4096, "format 4096 200 4096 - 128 2 - - -"),
    ("fat12-c1k", 600 * 1024, "format 1024 600 1024 12 32 2 - - -"),
]
I64_MAX = (1 << 63) - 1

def model_history(rng, cs, total, nops, fill, nfiles):
    """[(file index, model-format op line)]; the estimates (pos, size) only steer the choice of interesting values"""
    ops = []; pos = [0] * nfiles; size = [0] * nfiles
    def near():
        k = rng.below(5)
        return max(0, k * cs + rng.choice([-2, -1, 0, 0, 1, 2]))
    def wr(f, n):
        b = rng.below(256)
        data = bytes((b + i * 7) % 256 for i in range(n))
        ops.append((f, "write " + (data.hex() if n else "-")))
        k = min(n, cs - pos[f] % cs); pos[f] += k; size[f] = max(size[f], pos[f])
    if fill:
        # run the volume out of space: every write call fills at most one cluster
        for i in range(total + 2):
            wr(rng.below(nfiles), cs if rng.chance(4, 5) else cs + 5)
    target = nops + len(ops)
    while len(ops) < target:
        f = rng.below(nfiles); c = rng.below(100)
        if c < 34:
            wr(f, rng.choice([0, 1, cs - 1, cs, cs + 1, 2 * cs + 1, near(), rng.range(1, 3 * cs),
                              max(0, cs - pos[f] % cs + rng.choice([-1, 0, 1]))]))
        elif c < 58:
            n = rng.choice([0, 1, cs - 1, cs, cs + 1, near(), rng.range(1, 3 * cs), max(0, size[f] - pos[f] + rng.choice([-1, 0, 1])),
                            max(0, cs - pos[f] % cs + rng.choice([-1, 0, 1]))])
            ops.append((f, "read %d" % n))
            pos[f] += min(n, cs - pos[f] % cs, max(0, size[f] - pos[f]))
        elif c < 92:
            wh = rng.choice(["start", "start", "end", "cur"])
            if wh == "start":
                x = rng.choice([0, near(), near(), size[f], size[f] + 1, max(0, size[f] - 1), rng.range(0, size[f] + 1), 1 << 32,
                                (1 << 32) + 5, (1 << 32) - 1, (1 << 64) - 1, I64_MAX])
                t = x
            elif wh == "end":
                x = rng.choice([0, -1, 1, -size[f], -size[f] - 1, -rng.range(0, size[f] + 1), -near(), near(), I64_MAX, -I64_MAX - 1,
                                -(1 << 32)])
                t = size[f] + x
            else:
                x = rng.choice([0, -1, 1, -pos[f], -pos[f] - 1, size[f] - pos[f], size[f] - pos[f] + 1, -rng.range(0, pos[f] + 1),
                                near() - pos[f], cs, -cs, I64_MAX, -I64_MAX - 1, 1 << 32])
                t = pos[f] + x
            ops.append((f, "seek %s %d" % (wh, x)))
            if t >= 0:
                pos[f] = min(t, size[f])
        else:
            ops.append((f, "truncate")); size[f] = pos[f]
    return ops

def model_script(conf, ops, cached, nfiles):
    """executor script: file i is handle i+1; after every op the position and the extents of the file are queried"""
    label, devsize, fmt = conf
    sc_ = ["dev %d 0" % devsize, "wlog 0", fmt, "mount 1 0 lossy", "dump 0 64", "stats"]
    # without "cached" the stats call happens on a throw-away mount so that the session starts without a cached count
    if not cached:
        sc_ += ["unmount", "mount 1 0 lossy"]
    for i in range(nfiles):
        sc_.append("create_file 0 %s %d" % (hexs("f%d.bin" % i), i + 1))
    idx = []
    for f, o in ops:
        t = o.split(" ")
        idx.append(len(sc_))
        sc_.append("%s %d" % (t[0], f + 1) + ("" if len(t) == 1 else " " + " ".join(t[1:])))
        sc_.append("seek %d cur 0" % (f + 1)); sc_.append("extents %d" % (f + 1))
    tail = len(sc_)
    sc_.append("stats")
    for i in range(nfiles):
        sc_ += ["flush %d" % (i + 1), "drop_file %d" % (i + 1), "open_file 0 %s %d" % (hexs("f%d.bin" % i), 10 + i),
                "read_all %d 2000000" % (10 + i), "extents %d" % (10 + i)]
    return sc_, idx, tail

def bpb_data_start(hex64):
    b = bytes.fromhex(hex64)
    bps = b[11] | b[12] << 8; spc = b[13]; rsv = b[14] | b[15] << 8; fats = b[16]; root = b[17] | b[18] << 8
    spf = b[22] | b[23] << 8
    return (rsv + fats * spf + (root * 32 + bps - 1) // bps) * bps, bps * spc

def clusters_of(ext_payload, data_start, cs):
    out = []
    for e in ext_payload.split():
        off, sz = e.split(":")
        out.append(((int(off) - data_start) // cs + 2, int(sz)))
    return out

def model_stream(rep, tier, rng):
    n = 72 if tier == "quick" else 1800
    nops = 40 if tier == "quick" else 90
    items = []
    for i in range(n):
        conf = ONEFILE_CONFS[i % len(ONEFILE_CONFS)]
        fill = conf[0] == "fat12-tiny-c512" and rng.chance(1, 2)
        nfiles = 1 if i % 3 == 0 else rng.range(2, 3)
        items.append((conf, fill, rng.chance(1, 2), nfiles))
    # geometry of each configuration from the real library (cluster size, total clusters)
    geo = {}
    for conf in ONEFILE_CONFS:
        r = vlib.run_scripts([["dev %d 0" % conf[1], "wlog 0", conf[2], "mount 1 0 lossy", "stats"]])[0]
        csz, tot, free = [int(x) for x in r[-1].payload.split()]
        geo[conf[0]] = (csz, tot)
        if free != tot:
            rep.violation("[C02 model] fresh %s volume is not empty: %d of %d clusters free" % (conf[0], free, tot),
                          {"script": [o.line for o in r]})
    hist = [model_history(rng, geo[conf[0]][0], geo[conf[0]][1], nops, fill, nf) for conf, fill, cached, nf in items]
    scripts = [model_script(conf, ops, cached, nf) for (conf, fill, cached, nf), ops in zip(items, hist)]
    results = []
    shard = 50
    for i in range(0, len(scripts), shard):
        results += vlib.run_scripts([s[0] for s in scripts[i:i + shard]])
    mtext = []
    for (conf, fill, cached, nf), ops in zip(items, hist):
        csz, tot = geo[conf[0]]
        mtext.append("new %d %d" % (csz, tot))
        if cached:
            mtext.append("stats")
        for f, o in ops:
            mtext.append("use %d" % f); mtext.append(o); mtext.append("extents")
    mout = vlib.model_run("c02", "\n".join(mtext) + "\n")
    mi = 0
    dist = {"ops": {}, "outcomes": {}, "alloc": 0, "boundary_ops": 0, "enospc": 0, "files": {}}
    for (conf, fill, cached, nf), ops, (scr, idx, tail), res in zip(items, hist, scripts, results):
        rep.count()
        dist["files"][nf] = dist["files"].get(nf, 0) + 1
        csz, tot = geo[conf[0]]
        bad = False
        def viol(text, upto, nofail=False):
            nonlocal bad
            bad = True
            rep.violation("[C02 model %s] %s" % (conf[0], text),
                          {"script": scr[:upto + 3], "theorem_or_correspondence": "Model/FileM.v vs src/file.rs (m_c02)"} if nofail
                          else {"script": scr[:upto + 3]}, nofail=nofail)
        mi += 1 + (1 if cached else 0)            # "new", "stats"
        dump = [r for r in res if r.line.startswith("dump ")][0]
        data_start, cs2 = bpb_data_start(dump.payload.split()[-1])
        if cs2 != csz:
            viol("cluster size of the boot sector %d differs from stats %d" % (cs2, csz), 6)
        content = [bytearray() for _ in range(nf)]; pos = [0] * nf       # the byte-array-with-cursor oracle of the property text
        chains = [[] for _ in range(nf)]
        mfree = "-"
        for k, (f, o) in enumerate(ops):
            r = res[idx[k]]; rp = res[idx[k] + 1]; rx = res[idx[k] + 2]
            mres, mstate = [x.strip() for x in mout[mi + 1].split("|")]; mext = mout[mi + 2].split("|")[0].strip()
            mi += 3
            if bad:
                continue
            t = o.split(" ")
            dist["ops"][t[0]] = dist["ops"].get(t[0], 0) + 1
            oc = t[0] + ":" + (r.kind if r.kind != "err" else "err " + r.payload)
            dist["outcomes"][oc] = dist["outcomes"].get(oc, 0) + 1
            if r.kind not in ("ok", "err"):
                viol("%s -> %s %s" % (o[:60], r.kind, r.payload[:80]), idx[k]); continue
            cont = content[f]; p0 = pos[f]
            # ---- direct check against the property text
            if p0 % csz in (0, 1, csz - 1):
                dist["boundary_ops"] += 1
            if t[0] == "read":
                nreq = int(t[1]); avail = min(nreq, len(cont) - p0)
                data = b"" if (not r.ok or r.payload in ("", "-")) else bytes.fromhex(r.payload)
                if not r.ok or len(data) > avail or (len(data) == 0 and avail > 0) or data != bytes(cont[p0:p0 + len(data)]):
                    viol("read %d at %d of %d: got %s %d bytes, expected a non-empty prefix of the %d available bytes" %
                         (nreq, p0, len(cont), r.kind, len(data), avail), idx[k]); continue
                pos[f] += len(data)
            elif t[0] == "write":
                data = b"" if t[1] == "-" else bytes.fromhex(t[1])
                if r.ok:
                    kk = int(r.payload)
                    if kk > len(data) or (kk == 0 and len(data) > 0):
                        viol("write of %d bytes at %d returned %d" % (len(data), p0, kk), idx[k]); continue
                    if p0 + kk > len(cont):
                        cont.extend(b"\0" * (p0 + kk - len(cont)))
                    cont[p0:p0 + kk] = data[:kk]; pos[f] += kk
                elif r.payload.split(" ")[0] == "NotEnoughSpace":
                    dist["enospc"] += 1
                    if sum(len(c) for c in chains) < tot:
                        viol("write reported NotEnoughSpace with %d of %d clusters in use" % (sum(len(c) for c in chains), tot), idx[k]); continue
                else:
                    viol("write failed with %s" % r.payload, idx[k]); continue
            elif t[0] == "seek":
                base = {"start": 0, "end": len(cont), "cur": p0}[t[1]]
                tg = base + int(t[2])
                if tg < 0:
                    if r.ok or r.payload.split(" ")[0] != "InvalidInput":
                        viol("seek %s %s at %d of %d (negative target): %s %s" % (t[1], t[2], p0, len(cont), r.kind, r.payload), idx[k]); continue
                else:
                    if not r.ok or int(r.payload) != min(tg, len(cont)):
                        viol("seek %s %s at %d of %d: %s %s, expected %d" % (t[1], t[2], p0, len(cont), r.kind, r.payload, min(tg, len(cont))), idx[k]); continue
                    pos[f] = min(tg, len(cont))
            else:
                if not r.ok:
                    viol("truncate failed: %s" % r.payload, idx[k]); continue
                del cont[p0:]
            if not rp.ok or int(rp.payload) != pos[f]:
                viol("position after '%s' is %s, expected %d" % (o[:40], rp.payload, pos[f]), idx[k] + 1); continue
            ex = clusters_of(rx.payload, data_start, csz) if rx.ok else None
            if ex is None or sum(s for _, s in ex) != len(cont) or any(s != min(csz, len(cont) - i * csz) for i, (_, s) in enumerate(ex)) \
               or len(set(c for c, _ in ex)) != len(ex) or any(not (2 <= c < tot + 2) for c, _ in ex):
                viol("extents after '%s' do not describe a %d byte file: %s" % (o[:40], len(cont), rx.payload[:120]), idx[k] + 2); continue
            if len(ex) > len(chains[f]):
                dist["alloc"] += 1
            chains[f] = [c for c, _ in ex]
            allc = [c for ch in chains for c in ch]
            if len(set(allc)) != len(allc):
                viol("two open files share a cluster after '%s': %s" % (o[:40], chains), idx[k] + 2); continue
            # ---- correspondence with the model
            want = r.kind + ((" " + r.payload.split(" ")[0]) if r.payload else "")
            if t[0] == "read":
                want = r.kind + " " + (r.payload if r.payload else "-")
            if mres != want:
                viol("model and library disagree on '%s': model '%s', library '%s'" % (o[:40], mres[:80], want[:80]), idx[k], nofail=True); continue
            ms = mstate.split(" ")
            if int(ms[0]) != pos[f] or int(ms[1]) != len(cont):
                viol("model position/size %s/%s after '%s', library %d/%d" % (ms[0], ms[1], o[:40], pos[f], len(cont)), idx[k], nofail=True); continue
            mex = [(int(a), int(b)) for a, b in (e.split(":") for e in mext.split()[1:])] if mext.startswith("ok") else None
            mchain = [] if ms[4] == "-" else [int(x) for x in ms[4].split(",")]
            if mex != ex or mchain != chains[f]:
                viol("cluster chain after '%s': model extents %s chain %s, library %s" % (o[:40], mex, mchain, ex), idx[k], nofail=True); continue
            mfree = ms[5]
        if bad:
            continue
        # ---- end of history: free count, persistence through fresh handles
        used = sum(len(c) for c in chains)
        st = res[tail]
        if not st.ok or int(st.payload.split()[2]) != tot - used:
            viol("free clusters at the end: %s, expected %d" % (st.payload, tot - used), tail)
        if cached and ops and mfree != str(tot - used):
            viol("model cached free count %s, expected %d" % (mfree, tot - used), tail, nofail=True)
        for i in range(nf):
            ra = res[tail + 1 + 5 * i + 3]; rx = res[tail + 1 + 5 * i + 4]
            back = b"" if ra.payload in ("", "-") else bytes.fromhex(ra.payload)
            if not ra.ok or back != bytes(content[i]):
                viol("content of file %d read back through a fresh handle differs (%d bytes, expected %d)" % (i, len(back), len(content[i])), tail + 1 + 5 * i + 3)
            elif not rx.ok or [c for c, _ in clusters_of(rx.payload, data_start, csz)] != chains[i]:
                viol("extents of file %d through a fresh handle differ" % i, tail + 1 + 5 * i + 4)
        if not bad:
            rep.distinct(("model", conf[0], nf, tuple(ops)))
    rep.cov["model_histories"] = len(items)
    rep.cov["model_distribution"] = dist
    rep.sample({"model_config": ONEFILE_CONFS[0][2], "ops": [sc.short("%d: %s" % fo, 60) for fo in hist[0][:10]]})


def run(rep, tier, seed):
    rng = vlib.Rng(seed)
    model_stream(rep, tier, vlib.Rng(seed * 7919 + 2))
    # third stream: the image-level machine of Model/VolFile.v (the C02_image_* theorems) next to the library, on the device bytes
    volfile_corr.stream(rep, tier, vlib.Rng(seed * 7919 + 3), "C02")
    confs = sessions.configs(tier)
    n = 80 if tier == "quick" else 1500
    scripts = []
    for i in range(n):
        conf = confs[i % len(confs)]
        if conf[0].startswith("fat32") and tier == "quick" and i % 3:
            conf = confs[1 + rng.below(6)]
        scripts.append(file_session(rng, conf, 40 if tier == "quick" else 80))
    # volumes of the maximal cluster count of their width on which only the last clusters are free: chains run through the
    # cluster numbers 0xFF0.. / 0xFFF0.. (ordinary clusters there, "reserved values" in smaller tables)
    for bits in (12, 16):
        keep = rng.range(12, 18)
        t = sessions.topfree_volume(bits, keep=keep)
        if t is not None:
            for k in range(2 if tier == "quick" else 12):
                # 6 clusters carry the numbers 0x..F0-0x..F5: the prefill ends 0-2 clusters in front of them
                scripts.append(file_session(rng, None, 30 if tier == "quick" else 60, head=t[1], cluster=t[2],
                                            prefill=(keep - 6 - rng.below(3)) * t[2] - rng.below(2)))
    scripts += [sc_ for _, sc_ in sessions.matrix_sessions(rng, tier)]        # the standard script on every boundary volume
    judged = sessions.run_judged(scripts, flags=("tree",), shards=16)
    boundary = 0
    for jd in judged:
        f = sc.Findings(jd)
        rep.count()
        if sc.report(rep, jd, f, ("file", "match"), "C02"):
            rep.distinct(tuple(jd.script[6:]))
    rep.cov["traces_validated_against_impl"] = len(judged)
    sessions.run_crash_continue(rep, "C02", rng, tier, "content")
    rep.cov["distribution"] = sc.distribution(judged)
    rep.cov["rule"] = ("sessions over 1-4 simultaneously open files: write/read lengths and seek targets drawn around 0, k*cluster-1, "
                       "k*cluster, k*cluster+1 and randomly; SeekFrom Start/End/Current incl. negative, beyond the end, >= 2^32, i64 extremes; "
                       "truncate; reopen and read back through fresh handles; extents read from the raw image; cluster sizes 512 B - 4 KiB, "
                       "FAT12/16/32; each outcome judged by the extracted byte-array machine; distinct = distinct op sequences without finding")
    rep.sample({"config": scripts[0][2], "ops": [sc.short(l, 80) for l in scripts[0][6:18]]})
