"""Correspondence of the IMAGE-LEVEL file machine (coq/Model/VolFile.v vol_step = Model/FileM.v over the byte-level FAT
store that is the FAT slice of the device image, data written through into the cluster areas; the machine the theorems
C02_image_* / C04_file_decodes_* are about) with the real library, and the decode clause of C04 evaluated directly on the
device bytes.  NOT a registered property: a helper stream called from tools/props/c02.py and tools/props/c04.py.

Per history: format a volume (FAT12/16/32, cluster sizes 512 B - 4 KiB, 1 or 2 FAT copies, one FAT32 volume with mirroring
switched off and FAT copy 1 active), dump the device, mount, create ONE file, then a boundary-focused history of
write/read/seek/truncate calls (generator of props/c02.py) with the executor's write log on.  The model runner (mode c02v)
starts from the SAME dump (geometry by Spec/Abs.parse_geom, FS-info latch by Model/Bpb.mount) and keeps two images: the
model's (advanced only by the extracted vol_step) and the device's (advanced only by the library's logged device writes).
After every call:  outcome, position, size (model vs library);  the two images compared on every byte range the library
wrote in the FAT region or in a cluster of the file's old/new chain, on the table entries of those clusters in EVERY copy,
and on the whole cluster the model wrote data into; a library write into any other data cluster is a disagreement.
At the end: the complete FAT region and every cluster of the chain compared; model extents vs library extents.
Also checked there, independent of the model (property C04 itself, on the device bytes): Spec/Abs.v's chain walk + chain
bytes (VolFile.decode_file) yields exactly the byte array the session observed, and the byte ranges the library reports as
extents, read straight from the device, concatenate to it.
The precondition of the theorems (VolFile.vgeom_okb = Proofs/VolFileProofs.vgeom_ok) is evaluated on every volume."""
import vlib
from vlib import hexs

CORR = "Model/VolFile.v vol_step vs src/file.rs + src/table.rs on the device image (model runner c02v)"

# (label, device bytes, format line, pokes after format, may be filled up)
CONFS = [
    ("fat12-tiny-c512", 64 * 512, "format 512 64 512 12 16 2 - - -", [], True),
    ("fat16-c512", 4400 * 512, "format 512 4400 512 16 32 2 - - -", [], False),
    ("fat12-c2k", 2000 * 512, "format 512 2000 2048 12 512 2 - - -", [], False),
    ("fat12-c4k-s4k", 200 * 4096, "format 4096 200 4096 - 128 2 - - -", [], False),
    ("fat12-c1k-1fat", 600 * 1024, "format 1024 600 1024 12 32 1 - - -", [], False),
    ("fat16-c2k-1fat", 18000 * 512, "format 512 18000 2048 16 512 1 - - -", [], False),
    ("fat32-c512", 67000 * 512, "format 512 67000 512 32 - 2 - - -", [], False),
    # FAT32 with mirroring disabled (extended flags bit 7) and copy 1 active: only that copy is read and written
    ("fat32-c512-nomirror-active1", 67000 * 512, "format 512 67000 512 32 - 2 - - -", ["poke 40 8100"], False),
    ("fat16-c4k", 40000 * 512, "format 512 40000 4096 16 512 2 - - -", [], False),
]


def head_of(conf):
    label, devsize, fmt, pokes, _ = conf
    return ["dev %d 0" % devsize, "wlog 0", fmt] + pokes + ["pages"]


def script_of(conf, ops):
    sc_ = head_of(conf) + ["mount 1 0 lossy", "create_file 0 %s 1" % hexs("v.bin"), "wlog 1"]
    idx = []
    for o in ops:
        idx.append(len(sc_))
        t = o.split(" ")
        sc_.append("%s 1" % t[0] + ("" if len(t) == 1 else " " + " ".join(t[1:])))
        sc_.append("seek 1 cur 0")
    tail = len(sc_)
    sc_ += ["extents 1", "seek 1 start 0", "read_all 1 4000000"]
    return sc_, idx, tail


def stream(rep, tier, rng, who):
    from props import c02 as c02mod
    n = 27 if tier == "quick" else 540
    nops = 12 if tier == "quick" else 40
    # geometry of every configuration, through the model runner (the dump after format is what the histories start from)
    pre = vlib.run_scripts([head_of(c) for c in CONFS])
    mout = vlib.model_run("c02v", "\n".join("vimg 0 " + r[-1].payload for r in pre) + "\n")
    geo = {}
    for conf, line, r in zip(CONFS, mout, pre):
        t = line.split()
        if t[0] != "ok":
            rep.violation("[%s image] model of mount rejects the freshly formatted %s volume: %s" % (who, conf[0], line[:80]),
                          {"script": [o.line for o in r], "theorem_or_correspondence": CORR}, nofail=True)
            continue
        geo[conf[0]] = (int(t[1]), int(t[2]), int(t[3]))
        if t[4] != "1":
            rep.violation("[%s image] the precondition vgeom_ok of the volume theorems does not hold for the formatted %s volume"
                          % (who, conf[0]), {"script": [o.line for o in r], "theorem_or_correspondence": "Proofs/VolFileProofs.v vgeom_ok"},
                          nofail=True)
    items = []
    for i in range(n):
        conf = CONFS[i % len(CONFS)]
        if conf[0] not in geo:
            continue
        bits, cs, total = geo[conf[0]]
        fill = conf[4] and rng.chance(1, 2)
        ops = [o for _, o in c02mod.model_history(rng, cs, total, nops, fill, 1)]
        items.append((conf, ops))
    scripts = [script_of(conf, ops) for conf, ops in items]
    results = []
    for i in range(0, len(scripts), 40):
        results += vlib.run_scripts([s[0] for s in scripts[i:i + 40]])
    # one model-runner pass: vimg, the steps with the library's device writes, vend, vranges on the library's extents
    mtext = []
    for (conf, ops), (scr, idx, tail), res in zip(items, scripts, results):
        pages = [r for r in res if r.line == "pages"][0]
        mtext.append("vimg 0 " + pages.payload)
        for k, o in enumerate(ops):
            ws = []
            for r in res[idx[k]:idx[k] + 2]:
                ws += ["%d:%s" % (off, hx) for off, hx, _ in r.writes()]
            mtext.append("vstep %s | %s" % (o, " ".join(ws)))
        mtext.append("vend")
        ex = res[tail]
        mtext.append("vranges " + (ex.payload if ex.ok else ""))
    mout = vlib.model_run("c02v", "\n".join(mtext) + "\n")
    mi = 0
    dist = {"ops": {}, "outcomes": {}, "by_volume": {}, "alloc_steps": 0, "enospc": 0, "bytes_compared": 0, "decoded_bytes": 0}
    steps = 0
    for (conf, ops), (scr, idx, tail), res in zip(items, scripts, results):
        rep.count()
        label = conf[0]
        bits, cs, total = geo[label]
        dist["by_volume"][label] = dist["by_volume"].get(label, 0) + 1
        bad = False
        def viol(text, upto, nofail):
            nonlocal bad
            bad = True
            rep.violation("[%s image %s] %s" % (who, label, text),
                          {"script": scr[:upto + 2], "theorem_or_correspondence": CORR} if nofail else {"script": scr[:upto + 2]},
                          nofail=nofail)
        mi += 1
        content = bytearray(); pos = 0; nclusters = 0
        for k, o in enumerate(ops):
            r = res[idx[k]]; rp = res[idx[k] + 1]
            parts = [x.strip() for x in mout[mi].split("|")]
            mi += 1
            if bad:
                continue
            steps += 1
            t = o.split(" ")
            dist["ops"][t[0]] = dist["ops"].get(t[0], 0) + 1
            oc = t[0] + ":" + (r.kind if r.kind != "err" else "err " + r.payload.split(" ")[0])
            dist["outcomes"][oc] = dist["outcomes"].get(oc, 0) + 1
            if r.kind not in ("ok", "err"):
                viol("%s -> %s %s" % (o[:60], r.kind, r.payload[:80]), idx[k], False); continue
            # the byte array the session observes (from the library's own reports)
            if t[0] == "write" and r.ok:
                kk = int(r.payload); data = b"" if t[1] == "-" else bytes.fromhex(t[1])
                if pos + kk > len(content):
                    content.extend(b"\0" * (pos + kk - len(content)))
                content[pos:pos + kk] = data[:kk]; pos += kk
            elif t[0] == "write":
                dist["enospc"] += r.payload.startswith("NotEnoughSpace")
            elif t[0] == "read" and r.ok:
                data = b"" if r.payload in ("", "-") else bytes.fromhex(r.payload)
                if data != bytes(content[pos:pos + len(data)]):
                    viol("read at %d returned bytes that were never written there" % pos, idx[k], False); continue
                pos += len(data)
            elif t[0] == "seek" and r.ok:
                pos = int(r.payload)
            elif t[0] == "truncate" and r.ok:
                del content[pos:]
            # ---- correspondence
            want = r.kind + ((" " + r.payload.split(" ")[0]) if r.payload else "")
            if t[0] == "read":
                want = r.kind + " " + (r.payload if r.payload else "-")
            if len(parts) != 3:
                viol("model runner: %s" % mout[mi - 1][:100], idx[k], True); continue
            if parts[0] != want:
                viol("image machine and library disagree on '%s': model '%s', library '%s'" % (o[:40], parts[0][:80], want[:80]), idx[k], True); continue
            ms = parts[1].split(" ")
            if int(ms[0]) != pos or ms[1] != str(len(content)) or not rp.ok or int(rp.payload) != pos:
                viol("position/size after '%s': model %s/%s, library %s/%d" % (o[:40], ms[0], ms[1], rp.payload, len(content)), idx[k], True); continue
            if not parts[2].startswith("same"):
                viol("device image and model image differ after '%s': %s" % (o[:40], parts[2][:160]), idx[k], True); continue
            dist["bytes_compared"] += int(parts[2].split()[1])
            nc = (len(content) + cs - 1) // cs
            if nc > nclusters:
                dist["alloc_steps"] += 1
            nclusters = nc
        vend = [x.strip() for x in mout[mi].split("|")]; vr = mout[mi + 1]
        mi += 2
        if bad:
            continue
        ex = res[tail]; ra = res[tail + 2]
        back = b"" if ra.payload in ("", "-") else bytes.fromhex(ra.payload)
        if not ra.ok or back != bytes(content):
            viol("the library reads back %d bytes, the session wrote a %d byte array" % (len(back), len(content)), tail + 2, False); continue
        # ---- the decode clause of C04 on the device bytes (independent decoder, independent of the model's image)
        dec = vend[0].split(" ")
        decoded = b"" if len(dec) < 2 or dec[1] == "-" else bytes.fromhex(dec[1])
        if decoded != bytes(content):
            viol("Spec/Abs.v decodes %d bytes from the raw device (chain walk from the handle's first cluster), the session observed %d "
                 "bytes; first difference at %s" % (len(decoded), len(content),
                 next((i for i in range(min(len(decoded), len(content))) if decoded[i] != content[i]), "the end")), tail, False); continue
        dist["decoded_bytes"] += len(decoded)
        rb = vr.split(" ")
        ranged = b"" if len(rb) < 2 or rb[1] == "-" else bytes.fromhex(rb[1])
        if not ex.ok or ranged != bytes(content):
            viol("the extents the library reports (%s), read straight from the device, give %d bytes; the content has %d"
                 % (ex.payload[:80], len(ranged), len(content)), tail, False); continue
        # ---- correspondence at the end: extents, complete FAT region, clusters of the chain
        lib_ext = ex.payload.strip() if ex.payload.strip() else "-"
        if vend[1] != lib_ext:
            viol("extents: model %s, library %s" % (vend[1][:100], lib_ext[:100]), tail, True); continue
        if not vend[2].startswith("same"):
            viol("device image and model image differ at the end of the history: %s" % vend[2][:160], tail, True); continue
        dist["bytes_compared"] += int(vend[2].split()[1])
        rep.distinct(("image", label, tuple(ops)))
    dist["steps"] = steps
    rep.cov["image_machine_histories"] = len(items)
    rep.cov["image_machine_distribution"] = dist
    rep.cov["image_machine_rule"] = ("one file per freshly formatted volume (%d configurations: FAT12/16/32, clusters 512 B-4 KiB, 1-2 FAT copies, "
                                     "FAT32 without mirroring); boundary-focused write/read/seek/truncate histories; extracted vol_step vs the "
                                     "library's device writes after every call; Abs decode of the device bytes vs the observed byte array" % len(CONFS))
