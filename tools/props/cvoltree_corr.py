"""Whole-device correspondence stream for DIRECTORIES in the fixed root (Model/VolDirTree.v: vol_create_dir_root, vol_remove_dir_root,
vol_remove_root; model cvol lines mkdir / rmdir) against src/dir.rs Dir::create_dir / Dir::remove on the real library.

Histories on FAT12/16 volumes (several geometries, fill bytes, one or two FAT copies; two tiny volumes that run out of clusters; 16-entry
roots that run out of slots): create_dir of a new name / of an existing directory (Ok, nothing written) / of an existing file
(InvalidInput) / of an invalid name / in a FULL ROOT (NotEnoughSpace AFTER the cluster was allocated: fix D25, the cluster is given
back) / on a FULL VOLUME (NotEnoughSpace, nothing written); remove of an empty directory, of a directory emptied again (deleted slots
inside), of a NON-EMPTY directory (DirectoryIsNotEmpty), of files with and without clusters, of unknown names.  Every call runs in its
own mount .. unmount bracket, the whole device is compared with the model's image after EVERY call (page digests), outcomes are compared,
Spec/Wf.wf_issues is evaluated on the image.  Calls the model does not cover (a file created INSIDE a directory: Model/VolChainDir.v has
its own stream) re-synchronise the model on the library's pages.
Directly on the device, independent of the model:
 - a failed call leaves every byte outside the data area equal, and every changed data byte is ZERO afterwards (the given-back
   cluster stays zeroed - exactly the clause of C03_vol_create_dir_failed_gives_back); DirectoryIsNotEmpty / NotFound / an existing name:
   every page equal;
 - a successful create_dir changes bytes only in the FAT copies, the root region and ONE cluster; a successful remove only in the FAT
   copies and the root region."""
import vlib, namelib, fatimg
from vlib import hexs
from props import cvol_corr
from props.cvol_corr import pages_of, md5s, parse_digest, img_line, CLOCK0

CORR = ("Model/VolDirTree.v vol_create_dir_root / vol_remove_dir_root (model cvol mkdir / rmdir; C01_vol_create_dir_*, C01_vol_remove_dir_*, "
        "C03_vol_create_dir_failed_gives_back, C05_vol_dir_accounting) vs src/dir.rs create_dir / remove / is_empty + src/fs.rs alloc_cluster / "
        "free_cluster_chain on the whole device image")
DNAMES = ["d", "D2", "sub", "Sub Dir", "x" * 13, "y" * 27, "straße", "Жук", "dir.ext", "~t", "q" * 66, "w" * 130, "e5å", "UPPER", "lower"]
BADN = ["", "bad:name", "que?", "x" * 256]


def gen_history(rng, kind, n):
    """ops: ("mkdir", name) ("rmdir", name) ("fill", dir, fname, bytes) ("unfill", dir, fname) ("file", name, bytes) ("clock", ...)"""
    ops = []
    dirs, files, inner = [], [], {}
    def respell(x):
        return x.upper() if rng.chance(1, 3) else x
    if kind == "fullvol":
        ops.append(("file", "filler.bin", None))          # size filled in by build (all clusters but k)
    for _ in range(n):
        r = rng.below(100)
        if r < 6:
            ops.append(("clock", 1980 + rng.below(128), 1 + rng.below(12), 1 + rng.below(28), rng.below(24), rng.below(60), rng.below(60), rng.below(1000)))
        elif r < (60 if kind == "fullroot" else 40):
            nm = rng.choice(DNAMES if kind != "fullroot" else DNAMES[3:13])
            ops.append(("mkdir", nm))
            if nm.lower() not in [d.lower() for d in dirs] and nm.lower() not in [f.lower() for f in files]:
                dirs.append(nm)                          # may fail (full): the later ops then hit NotFound - fine
        elif r < 46:
            ops.append(("mkdir", rng.choice(BADN)))
        elif r < 52 and files:
            ops.append(("mkdir", respell(rng.choice(files))))     # existing file: InvalidInput
        elif r < 58:
            nm = "f%d.bin" % rng.below(4)
            ops.append(("file", nm, rng.choice([0, 0, 1, 600, 1500])))
            if nm not in files and nm.lower() not in [d.lower() for d in dirs]:
                files.append(nm)
        elif r < 68 and dirs:
            d = rng.choice(dirs)
            fn = "in%d.txt" % rng.below(3)
            ops.append(("fill", d, fn, rng.choice([0, 0, 700])))
            inner.setdefault(d, set()).add(fn)
        elif r < 76 and any(inner.get(d) for d in dirs):
            d = rng.choice([d for d in dirs if inner.get(d)])
            fn = rng.choice(sorted(inner[d])); inner[d].discard(fn)
            ops.append(("unfill", d, fn))
        elif r < 94 and dirs:
            d = rng.choice(dirs)
            ops.append(("rmdir", respell(d)))
            if not inner.get(d):
                dirs.remove(d); inner.pop(d, None)
        elif r < 97 and files:
            f = rng.choice(files); files.remove(f)
            ops.append(("rmdir", respell(f)))
        else:
            ops.append(("rmdir", rng.choice(["nosuch", ".", "..", "bad:name"])))
    return ops


def build_script(conf, ops, filler_bytes):
    name, dev, fmt, fill = conf
    lines = ["dev %d %d" % (dev, fill), "wlog 0", "format " + fmt, "pages", "clock %d %d %d %d %d %d %d" % CLOCK0]
    marks = []
    h = 10
    for op in ops:
        if op[0] == "clock":
            lines.append("clock %d %d %d %d %d %d %d" % op[1:]); marks.append((None, None)); continue
        lines.append("mount 1 0 lossy")
        if op[0] == "mkdir":
            lines.append("create_dir 0 %s %d" % (hexs(op[1]), h)); ri = len(lines) - 1
            lines.append("drop_dir %d" % h); h += 1
        elif op[0] == "rmdir":
            lines.append("remove 0 %s" % hexs(op[1])); ri = len(lines) - 1
        elif op[0] == "unfill":
            lines.append("remove 0 %s" % hexs(op[1] + "/" + op[2])); ri = len(lines) - 1
        else:
            path = op[1] if op[0] == "file" else op[1] + "/" + op[2]
            size = op[-1] if op[-1] is not None else filler_bytes
            lines.append("create_file 0 %s %d" % (hexs(path), h)); ri = len(lines) - 1
            if size:
                lines.append("write_pat %d %d %d" % (h, size, h))
            lines.append("drop_file %d" % h); h += 1
        lines += ["unmount", "pages"]
        marks.append((ri, len(lines) - 1))
    return lines, 3, marks


def diff_bytes(before, after, fill):
    blank = "%02x" % fill * 4096
    for o in sorted(set(before) | set(after)):
        a, b = before.get(o, blank), after.get(o, blank)
        if a == b:
            continue
        for i in range(4096):
            if a[2 * i:2 * i + 2] != b[2 * i:2 * i + 2]:
                yield o + i, int(b[2 * i:2 * i + 2], 16)


def run_tree_stream(rep, tier, seed):
    rng = vlib.Rng(seed * 15485863 + 29)
    C = cvol_corr.CONFS
    small = [c for c in (cvol_corr.grow_conf(512, 512, 9, 0xD1), cvol_corr.grow_conf(512, 1024, 7, 0)) if c is not None]
    plan_confs = [(C[0], "fullroot"), (C[3], "fullroot"), (C[3], "mixed"), (C[2], "mixed"), (C[4], "mixed")] + [(c, "fullvol") for c in small]
    if tier != "quick":
        plan_confs = plan_confs * 8 + [(C[1], "mixed"), (C[5], "mixed")] * 3
    nops = 22 if tier == "quick" else 40
    jobs = []
    for conf, kind in plan_confs:
        ops = gen_history(rng, kind, nops)
        filler = 0
        if kind == "fullvol":
            ncl = int(conf[0].split("-")[1].replace("clusters", "")); csz = int(conf[0].split("-")[2].replace("b", ""))
            filler = (ncl - rng.below(3)) * csz
        lines, pf, marks = build_script(conf, ops, filler)
        jobs.append((conf, kind, ops, lines, pf, marks))
    results = vlib.run_scripts([j[3] for j in jobs])
    utable, table = namelib.upper_table("default")
    mlines = ["upper " + table]
    plan = []
    for ji, (conf, kind, ops, lines, pf, marks) in enumerate(jobs):
        res = results[ji]
        fill = conf[3]
        if res[pf].kind != "ok":
            rep.violation("[cvol-tree] %s: format failed" % conf[0], {"theorem_or_correspondence": CORR, "script": lines[:pf + 1]}, nofail=True)
            continue
        mlines.append(img_line(fill, pages_of(res[pf]))); plan.append(None)
        clock = CLOCK0
        prev = pf
        for oi, op in enumerate(ops):
            ri, pi = marks[oi]
            if op[0] == "clock":
                clock = op[1:]; continue
            if res[ri].kind in ("skipped", "bad", "hang") or res[pi].kind != "ok":
                break
            if op[0] in ("mkdir", "rmdir"):
                mlines.append("fi - -"); plan.append(None)
                if op[0] == "mkdir":
                    mlines.append("mkdir %s %d %d %d %d %d %d %d" % ((hexs(op[1]),) + tuple(clock)))
                else:
                    mlines.append("rmdir %s" % hexs(op[1]))
                plan.append(("op", ji, oi, prev))
                mlines.append("wf"); plan.append(("wf", ji, oi))
            else:
                mlines.append(img_line(fill, pages_of(res[pi]))); plan.append(None)
            prev = pi
    out = vlib.model_run("cvol", "\n".join(mlines) + "\n")[1:]
    assert len(out) == len(plan), (len(out), len(plan))
    nviol = ncmp = nframe = nwf = nna = ngiveback = nfullvol = 0
    kinds = {}
    bad_hist = set()
    geoms = {}
    for k, pl in enumerate(plan):
        if pl is None:
            continue
        tag, ji, oi = pl[0], pl[1], pl[2]
        if ji in bad_hist:
            continue
        conf, kind, ops, lines, pf, marks = jobs[ji]
        res = results[ji]
        fill = conf[3]
        op = ops[oi]
        ri, pi = marks[oi]
        mo = out[k].split(" ")
        if mo and mo[0] == "stale":
            bad_hist.add(ji); continue
        if tag == "wf":
            nwf += 1
            if mo[0] != "0":
                nviol += 1
                rep.violation("[cvol-tree] %s: after %s %r the device image has well-formedness issues %s" % (conf[0], op[0], op[1][:30], mo[2:8]),
                              {"script": lines[:pi + 1]})
            continue
        prev = pl[3]
        ir = res[ri]
        rep.count()
        itag = "ok" if ir.kind == "ok" else (ir.kind + " " + ir.payload.split()[0] if ir.payload else ir.kind)
        if mo[0] == "na":
            nna += 1; bad_hist.add(ji); continue
        mtag = "ok" if mo[0] in ("ok", "exists") else ("err " + mo[1] if mo[0] == "err" else mo[0])
        key = op[0] + " " + (mo[0] if mo[0] != "err" else mtag)
        kinds[key] = kinds.get(key, 0) + 1
        before, after = pages_of(res[prev]), pages_of(res[pi])
        if mtag != itag:
            nviol += 1; bad_hist.add(ji)
            rep.violation("[cvol-tree] %s (%s history): model and implementation disagree on the outcome of %s %r: model %s / library %s"
                          % (conf[0], kind, op[0], op[1][:40], mtag, itag), {"theorem_or_correspondence": CORR, "script": lines[:pi + 1]}, nofail=True)
            continue
        ncmp += 1
        lib, mod = md5s(after), parse_digest(mo[1:])
        if lib != mod:
            nviol += 1; bad_hist.add(ji)
            diff = sorted(o for o in set(lib) | set(mod) if lib.get(o) != mod.get(o))
            rep.violation("[cvol-tree] %s (%s history): after %s %r (%s) %d device page(s) differ between model and library (first at offset %s)"
                          % (conf[0], kind, op[0], op[1][:40], mtag, len(diff), diff[0] if diff else "-"),
                          {"theorem_or_correspondence": CORR, "script": lines[:pi + 1]}, nofail=True)
            continue
        # ---- directly on the device
        if ji not in geoms:
            geoms[ji] = fatimg.Geom(bytes.fromhex(pages_of(res[pf])[0])[:64])
        g = geoms[ji]
        data_off = g.cluster_off(2)
        root_lo, root_hi = g.root_off, g.root_off + g.root_entries * 32
        changed = list(diff_bytes(before, after, fill))
        bad = None
        if mo[0] == "exists" or (mtag.startswith("err") and mtag != "err NotEnoughSpace") or (mtag.startswith("err") and op[0] == "rmdir"):
            if changed:
                bad = "changed device byte %d although the call answered %s" % (changed[0][0], mtag)
        elif mtag.startswith("err"):
            for x, v in changed:
                if x < data_off or v != 0:
                    bad = "answered %s and changed device byte %d to %d (allowed: zero bytes inside the given-back cluster)" % (mtag, x, v); break
            cl = set((x - data_off) // g.cluster_size for x, _ in changed)
            if changed:
                ngiveback += 1                 # NotEnoughSpace in a full root: allocated, zeroed, given back
            else:
                nfullvol += 1                  # no free cluster (or the given-back cluster was zero already)
            if bad is None and len(cl) > 1:
                bad = "answered %s and changed bytes in %d clusters" % (mtag, len(cl))
        else:
            cl = set()
            for x, v in changed:
                if g.fat_off <= x < root_lo or root_lo <= x < root_hi:
                    continue
                if x >= data_off and op[0] == "mkdir":
                    cl.add((x - data_off) // g.cluster_size); continue
                bad = "succeeded and changed device byte %d (outside the FAT copies, the root region%s)" % (x, " and the new cluster" if op[0] == "mkdir" else ""); break
            if bad is None and len(cl) > 1:
                bad = "succeeded and changed bytes in %d data clusters" % len(cl)
        if bad is not None:
            nframe += 1
            rep.violation("[cvol-tree] %s: %s %r %s" % (conf[0], op[0], op[1][:40], bad), {"script": lines[:pi + 1]})
        rep.distinct(("cvol-tree", conf[0], op[0], mtag, op[1], lib.get(max(lib)) if lib else None))
    rep.cov["cvol_dirtree_correspondence"] = {
        "histories": len(jobs), "kinds": sorted(set(j[1] for j in jobs)), "configs": sorted(set(j[0][0] for j in jobs)),
        "calls_compared_whole_device": ncmp, "disagreements": nviol, "frame_failures_on_device": nframe, "wf_evaluations": nwf,
        "declined_by_model_na": nna,
        "create_dir_nospace_with_zeroed_given_back_cluster": ngiveback, "create_dir_nospace_without_any_device_change": nfullvol, "histories_ended_early": len(bad_hist), "model_outcomes": kinds}
    return nviol
