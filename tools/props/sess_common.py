"""Shared evaluation of judged sessions for the history-quantified properties (C01-C05, C10-C12).
Each finding is attributed to a property observation; known-finding classes (see /verif/known_findings.json)
are recognised by class predicates, never by property id alone."""
import collections
import vlib, sessions

NAMESPACE_CODES = set(range(101, 170))
FILE_CODES = set(range(171, 230))
DEFERRED = ("Lost", "SizeChain", "ChainBroken", "SizeNoCluster", "EmptyOwns")

KF = {k["class"]: k for k in vlib.known_findings()}

def kf_text(cls):
    k = KF.get(cls)
    return None if k is None else "%s (%s)" % (k["what"], cls)

def opname(o):
    return o.line.split(" ")[0]

def short(line, n=110):
    return line if len(line) <= n else line[:n] + "..."

def script_prefix(jd, oi):
    """replay script: everything up to and including op oi (long hex payloads kept: needed for replay)"""
    return jd.script[: oi + 1]

class Findings:
    """walks one judged script and classifies what the judge reported"""
    def __init__(self, jd):
        self.jd = jd
        self.items = []      # (prop_obs, text, op index, known_class or None)
        self.excused = set()
        self.stop_at = None
        self.walk()

    def add(self, obs, text, oi, known=None):
        self.items.append((obs, text, oi, known))

    def walk(self):
        jd = self.jd
        seen_issues = set()
        for oi, o in enumerate(jd.ops):
            name = opname(o)
            if o.kind in ("panic", "hang"):
                msg = bytes.fromhex(o.payload).decode("utf-8", "replace") if o.kind == "panic" and o.payload else ""
                self.add("crash", "%s: %s -> %s %s" % (name, short(o.line), o.kind, msg), oi)
                self.stop_at = oi
                return
            if o.kind == "bad":
                msg = bytes.fromhex(o.payload).decode("utf-8", "replace")
                if "handle" in msg:
                    continue          # the generator used a handle an earlier failed call never produced
                self.add("harness", "executor rejected line: %s %s" % (short(o.line), msg), oi)
                self.stop_at = oi
                return
            if jd.tainted is not None and oi >= jd.tainted:
                self.stop_at = oi     # inadmissible operation (live handle on a removed/renamed object): nothing is claimed
                return
            if o.kind == "skipped":
                return
            # NotEnoughSpace from a call that adds a directory entry: the only residue the recorded class covers is the
            # partial long-name run written into the last cluster of a cluster-chain directory that could not grow
            nospace = o.kind == "err" and o.payload.split(" ")[0] == "NotEnoughSpace" and name in ("create_file", "create_dir", "rename")
            v = jd.verdicts.get(oi)
            if v and v[0] == "bad":
                code = int(v[1])
                obs = "tree" if code in NAMESPACE_CODES else "file"
                self.add(obs, "%s -> %s %s: not an outcome the abstract %s allows (rule %d)" % (
                    short(o.line), o.kind, o.payload[:60], "tree" if obs == "tree" else "byte-array file", code), oi, None)
            if oi in jd.mismatch:
                self.add("match", "after %s the decoded image differs from the abstract tree (names, kinds, sizes or contents)" % short(o.line), oi, None)
                # one report per script: later ops would only repeat it
                self.stop_at = oi
                self.collect_wf(oi, seen_issues, nospace, name, o)
                return
            # (an orphan run left by such a call stays in the directory; the session is judged on: the decoder starts a
            # run at a slot carrying 0x40, so entries written behind the orphan run decode like the library lists them, and
            # a successful write leaves the issue text as it was - C01_write_entry_refines_orphans.  An OrphanLfn with a
            # NEW text at a call that did not fail is therefore still reported as an unknown issue.)
            self.collect_wf(oi, seen_issues, nospace, name, o)

    def collect_wf(self, oi, seen, nospace, name, o):
        jd = self.jd
        iss = jd.wf.get(oi, [])
        dirty = jd.dirty.get(oi, 0)
        for i in iss:
            kind = i.split("(")[0]
            new = i not in seen
            known = None
            if kind in DEFERRED and dirty > 0:
                known = "deferred-entry-writeback"
                # it only excuses the issue while a handle is dirty: remember it as excused, not as seen
                if i not in seen:
                    self.excused.add(i)
                    self.add("wf", "structural invariant %s violated after %s" % (i, short(o.line)), oi, known)
                continue
            elif kind in DEFERRED and i in self.excused and i not in seen:
                # the handles were flushed/dropped and the issue is still there
                new = True
            if not new:
                # a persisting issue is attributed where it first appeared
                continue
            if nospace and kind == "OrphanLfn":
                known = "nospace-during-entry-write"
            seen.add(i)
            self.add("wf", "structural invariant %s violated after %s" % (i, short(o.line)), oi, known)


def unjustified_nospace(jd, oi, o):
    """NotEnoughSpace from create_file / create_dir / rename (op oi of a script judged with the info flag): justified only when
    the clusters the call needs are not there, or when the destination is the fixed root and no run of free slots is long enough
    for the entry (room computed by the judge from the raw root region: `rootroom`).  A failed call must also give back what
    it allocated.  Returns a message for an unjustified outcome, else None."""
    info = jd.info.get(oi)
    name = opname(o)
    if info is None or o.kind != "err" or o.payload.split(" ")[0] != "NotEnoughSpace" or name not in ("create_file", "create_dir", "rename"):
        return None
    t = o.line.split(" ")
    try:
        path = bytes.fromhex(t[4] if name == "rename" else t[2]).decode("utf-8")
        dh = t[3] if name == "rename" else t[1]
    except (ValueError, IndexError):
        return None
    prev = jd.info.get(oi - 1)
    if prev is not None and prev["free"] != info["free"]:
        return ("%s failed with NotEnoughSpace but the number of free entries in the raw table went from %s to %s "
                "(a failed call must give back what it allocated)" % (short(o.line, 60), prev["free"], info["free"]))
    final = path.strip("/").split("/")[-1]
    needed = (len(final.encode("utf-16-le")) // 2 + 12) // 13 + 1
    root_possible = dh == "0" and "/" not in path.strip("/") and info["bits"] != "32"
    need_clusters = 2 if name == "create_dir" else 1
    room = int(info.get("rootroom", "-1"))
    if int(info["free"]) >= need_clusters and (not root_possible or room >= needed):
        return "%s -> NotEnoughSpace although the raw table has %s free clusters%s" % (
            short(o.line, 60), info["free"],
            " and the fixed root has a run of %d free slots (the entry needs %d)" % (room, needed) if root_possible else "")
    return None


def report(rep, jd, f, observations, label):
    """turns the findings of one script into violations / known findings for the observations of this property"""
    ok = True
    for obs, text, oi, known in f.items:
        if obs not in observations and obs not in ("crash", "harness"):
            continue
        if known and known in KF:
            rep.known_finding(kf_text(known))
            continue
        ok = False
        rep.violation("[%s] %s" % (label, text), {"script": script_prefix(jd, oi), "op_index": oi})
    return ok


def distribution(judged):
    ops = collections.Counter(); outcomes = collections.Counter()
    for jd in judged:
        for o in jd.ops[6:]:
            ops[opname(o)] += 1
            outcomes[o.kind if o.kind != "err" else "err:" + o.payload.split(" ")[0]] += 1
    return {"ops": dict(ops.most_common()), "outcomes": dict(outcomes.most_common())}
