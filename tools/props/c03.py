"""C03 - on-disk structures stay consistent after every operation: the extracted structural-invariant checker
(Spec/Wf.v over the independent decoder Spec/Abs.v) is evaluated on the implementation's raw image after EVERY
operation of generated histories (namespace + file I/O, user errors, tiny volumes, tiny fixed roots)."""
import vlib, sessions, namelib
from vlib import hexs
from props import sess_common as sc
from props import cdir_corr


def respell_sessions(confs):
    """the D27 situation (tools/props/cdir_corr.RESPELL: an entry whose long name folds to the alias of another entry placed in
    front of it, then a rename of that entry onto its own alias), in the root and in a sub-directory: wf_issues after every op"""
    out = []
    for fi, fam in enumerate(cdir_corr.RESPELL):
        for sub in (False, True):
            label, size, fmt = confs[fi % len(confs)]
            head = ["dev %d 0" % size, "wlog 0", fmt, "pages", "wlog 1", "mount 1 0 lossy"]
            lines = ["create_dir 0 %s 1" % hexs("d"), "drop_dir 1"] if sub else []
            h = 10
            for op in cdir_corr.respell_ops(fam, "d/" if sub else "")[0]:
                if op[0] == "create_file":
                    lines += ["create_file 0 %s %d" % (hexs(op[1]), h), "drop_file %d" % h]; h += 1
                elif op[0] == "remove":
                    lines.append("remove 0 %s" % hexs(op[1]))
                else:
                    lines.append("rename 0 %s 0 %s" % (hexs(op[1]), hexs(op[2])))
            out.append(head + lines + ["list 0", "unmount"])
    return out


def move_alias_sessions(confs):
    """moves between two directories under the SAME name when the destination already holds an entry with the alias the moved
    entry carries in its source directory (both were the first of their prefix: LONGFI~1 twice; an entry literally named like
    the alias; hash-form aliases after four collisions), in both directions, with sub-directories and the root as destination:
    the destination needs a fresh alias - no two entries of a directory may share their 8.3 name"""
    out = []
    fams = [
        (["A/Long File Name 1.txt"], ["B/Long File Name 2.txt"], [("A/Long File Name 1.txt", "B/Long File Name 1.txt")]),
        (["A/Long File Name 1.txt"], ["B/LONGFI~1.TXT"], [("A/Long File Name 1.txt", "B/Long File Name 1.txt")]),
        (["A/with space.dat", "A/with space too.dat"], ["B/with spaces.dat", "B/with space three.dat"],
         [("A/with space.dat", "B/with space.dat"), ("A/with space too.dat", "B/with space too.dat"), ("B/with spaces.dat", "A/with spaces.dat")]),
        (["A/name+plus.c"], ["name+plus.h.c", "NAME_P~1.C"], [("A/name+plus.c", "name+plus.c")]),
        (["A/prefix collision %d.txt" % i for i in range(6)], ["B/prefix collision %d.bin.txt" % i for i in range(6)],
         [("A/prefix collision %d.txt" % i, "B/prefix collision %d.txt" % i) for i in (5, 0, 3)]),
        (["A/sub dir one/inner file number 1.txt"], ["B/sub dir two/inner file number 2.txt"],
         [("A/sub dir one/inner file number 1.txt", "B/sub dir two/inner file number 1.txt"), ("A/sub dir one", "B/sub dir one"), ("B/sub dir two", "B/sub dir one/sub dir two")]),
    ]
    for fi, (src, dst, moves) in enumerate(fams):
        label, size, fmt = confs[fi % len(confs)]
        head = ["dev %d 0" % size, "wlog 0", fmt, "pages", "wlog 1", "mount 1 0 lossy"]
        lines = ["create_dir 0 %s 1" % hexs("A"), "create_dir 0 %s 2" % hexs("B")]
        h = 10
        made = {"A", "B"}
        for pth in src + dst:
            parts = pth.split("/")
            for k in range(1, len(parts)):
                d = "/".join(parts[:k])
                if d not in made:
                    made.add(d); h += 1
                    lines.append("create_dir 0 %s %d" % (hexs(d), h))
            h += 1
            lines += ["create_file 0 %s %d" % (hexs(pth), h), "write_pat %d 300 %d" % (h, h), "drop_file %d" % h]
        lines.append("drop_all")
        for a_, b_ in moves:
            lines += ["rename 0 %s 0 %s" % (hexs(a_), hexs(b_)), "open_dir 0 %s 3" % hexs("B"), "list 3", "drop_dir 3"]
        out.append(head + lines + ["list 0", "drop_all", "unmount", "mount 1 0 lossy", "open_dir 0 %s 4" % hexs("B"), "list 4", "drop_all", "unmount"])
    return out


def fold_table_tie(rep):
    """Proofs/DupLongProofs.wf_fold_agrees: the judge's folding (WfFold.wf_fold upper) agrees with the library's matching for
    EVERY table - provided both are run with the SAME table.  The judge loads the dump `uppertable` (sessions.upper_table), the
    model runs load `uppertable_colon` (namelib.upper_table): both must be the same map, taken from the executor under test."""
    mtab, _ = namelib.upper_table("default")
    jtab = {}
    for l in open(sessions.upper_table("default")):
        t = l.replace(":", " ").split()
        if t:
            jtab[int(t[0])] = [int(x) for x in t[1:]]
    rep.count()
    expanding = sum(1 for v in mtab.values() if len(v) > 1)
    rep.cov["fold_table"] = {"entries": len(mtab), "multi_character_expansions": expanding, "judge_table_equals_model_table": jtab == mtab}
    if jtab != mtab or not mtab:
        diff = sorted(k for k in set(jtab) | set(mtab) if jtab.get(k) != mtab.get(k))[:5]
        rep.violation("the case table the judge folds long names with differs from the table the library model is run with "
                      "(first differing code points %r): the premise `same table` of C03_fold_agrees_judge is not met" % diff,
                      {"theorem_or_correspondence": "C03_fold_agrees_judge / C03_vol_create_keeps_wf_judge (Spec/WfFold.v) vs ocaml/judge.ml fold_units"},
                      nofail=True)

PROP_FILES = ["Props/C03.v"]

def run(rep, tier, seed):
    rng = vlib.Rng(seed)
    confs = sessions.configs(tier)
    n = 90 if tier == "quick" else 700
    nops = 45 if tier == "quick" else 60
    scripts = []
    for i in range(n):
        conf = confs[i % len(confs)] if i % 3 else confs[rng.below(4)]     # tiny volumes over-represented
        if tier == "quick" and ((conf[0].startswith("fat32") and i > 22) or (conf[0].startswith("fat16") and i > 44)):
            conf = confs[rng.below(7)]
        scripts.append(sessions.gen_session(rng, conf, nops, file_io=True) + ["drop_all", "list 0", "unmount"])
    for i in range(6 if tier == "quick" else 60):
        scripts.append(sessions.full_dir_session(rng, "root" if i % 3 else "chain"))
    # directories growing over non-adjacent clusters, entries straddling / starting at cluster boundaries, files re-opened and modified
    heavy = [c for c in confs if c[0] in (("fat12-small", "fat12-1fat") if tier == "quick" else ("fat12-small", "fat12-1fat", "fat16-min", "fat32-min"))]
    for i in range(4 if tier == "quick" else 40):
        scripts.append(sessions.dir_heavy_session(rng, heavy[i % len(heavy)], nfiles=rng.range(8, 16)))
    # FAT32 objects whose first cluster needs the high word of the entry, then loses it again
    for i in range(1 if tier == "quick" else 6):
        scripts.append(sessions.fat32_high_cluster_session(rng))
    # the standard script on the boundary volumes (quick: the small ones; the invariants are evaluated after every call)
    scripts += [sc_ for _, sc_ in sessions.matrix_sessions(rng, tier, lost_free=True, small_only=(tier == "quick"))]
    nresp = len(scripts)
    scripts += respell_sessions(confs)
    scripts += move_alias_sessions(confs)
    # maximal FAT12 (thorough: and FAT16) volumes filled to the very top by ordinary writes, then removed / truncated / appended to
    topfill = []
    for bits in ((12,) if tier == "quick" else (12, 16)):
        topfill += sessions.top_fill_sessions(bits)
    scripts += topfill
    nresp = len(scripts) - nresp
    fold_table_tie(rep)
    # quick tier: on FAT32 volumes (65525+ clusters: one evaluation of the invariants costs about a second) the invariants are
    # evaluated at every fourth call and at the end instead of after every call; the thorough tier evaluates after every call
    def is32(sc_lines):
        return any(l.startswith("format ") and l.split()[4] == "32" for l in sc_lines[:4])
    # the top-fill sessions hold 2 MB (FAT12) / 32 MB (FAT16) files: the invariants alone, at the statistics calls
    tf = set(id(t) for t in topfill)
    import concurrent.futures
    tfi = [i for i in range(len(scripts)) if id(scripts[i]) in tf]
    pool = concurrent.futures.ThreadPoolExecutor(1)
    tf_future = pool.submit(lambda: sessions.run_judged([scripts[i] for i in tfi], flags=("wfs",), shards=16))
    if tier == "quick":
        big = [i for i, s_ in enumerate(scripts) if is32(s_)]
        small = [i for i in range(len(scripts)) if i not in set(big) and id(scripts[i]) not in tf]
        sparse = []
        for i in big:
            out = []
            k = 0
            for l in scripts[i]:
                out.append(l)
                if l.split(" ")[0] in ("create_file", "create_dir", "write", "write_pat", "truncate", "remove", "rename", "flush", "drop_file", "drop_all"):
                    k += 1
                    if k % 4 == 0:
                        out.append("stats")
            sparse.append(out)
        judged = [None] * len(scripts)
        for i, jd in zip(small, sessions.run_judged([scripts[i] for i in small], flags=("wf", "tree"), shards=16)):
            judged[i] = jd
        for i, jd in zip(big, sessions.run_judged(sparse, flags=("wfs", "tree"), shards=16)):
            judged[i] = jd
    else:
        rest = [i for i in range(len(scripts)) if id(scripts[i]) not in tf]
        judged = [None] * len(scripts)
        for i, jd in zip(rest, sessions.run_judged([scripts[i] for i in rest], flags=("wf", "tree"), shards=16)):
            judged[i] = jd
    for i, jd in zip(tfi, tf_future.result()):
        judged[i] = jd
    checked_states = 0
    for jd in judged:
        f = sc.Findings(jd)
        rep.count()
        upto = f.stop_at if f.stop_at is not None else len(jd.ops)
        checked_states += max(0, upto - 6)
        if sc.report(rep, jd, f, ("wf",), "C03"):
            rep.distinct(tuple(jd.script[6:]))
    rep.cov["states_checked"] = checked_states
    rep.cov["respell_second_match_sessions_D27"] = nresp
    rep.cov["traces_validated_against_impl"] = len(judged)
    rep.cov["distribution"] = sc.distribution(judged)
    rep.cov["rule"] = ("seeded random admissible histories (create/open/list/remove/rename/read/write/seek/truncate/flush, ~10% invalid "
                       "names, decorated paths, case variants) on 11 volume configurations (FAT12/16/32, sector 512-4096, 1-2 FATs, 16-512 root "
                       "entries, volumes of 30-2000 clusters); wf_issues (extracted Coq) evaluated on the raw image after every op; distinct = "
                       "distinct op sequences with no unlisted issue")
    rep.sample({"config": scripts[0][2], "ops": [sc.short(l, 80) for l in scripts[0][6:16]]})
