"""Correspondence of the FS-INFORMATION SECTOR and the FAT32 STATUS BYTE inside the image model (coq/Model/VolFsInfo.v:
vol32_mount, v32_step = stats / file calls / frees with the status mark, vol32_unmount with its device-write list - the machine the
theorems C05_vol32_* / C12_vol32_* / C13_vol32_* are about) with the real library, on real FAT32 volumes.
NOT a registered property: a helper stream called from tools/props/c05.py, c12.py and c13.py.

Per session: format a FAT32 volume on the sparse device (4 configurations: 1 or 2 FAT copies, 512 / 1024 byte sectors, mirroring
off with copy 1 active), populate it through the library (one file of 0..5 clusters, unmounted cleanly), dump the device, then PRE-SET
with `poke`:  the stored free count from {kept as the library wrote it, unknown 0xFFFFFFFF, correct, wrong but in range (too large /
too small by a little), out of range};  the next-free word from {kept, unknown, 0, 1, a cluster number, total+1, total+2, total+3,
huge};  the status byte 0x41 from {0, 1, 2, 3, 0x84};  sometimes non-zero bytes in the reserved areas of the sector.
Then mount and run: stats, create_file, write / read / seek / truncate on new files and on the existing one (truncate and remove
free chains), flush, drop, remove, ended by unmount or by dropping the FileSystem.  The model runner (mode cfsinfo) starts from the
SAME dump + pokes and after EVERY call compares the device (advanced only by the library's logged writes) with the model image on
the boot sector (status byte), the whole logical FS-info sector, every range the library wrote, the table entries (every copy) of
the clusters involved and the cluster written; after unmount every reserved sector, and the library's list of device writes with
vol32_unmount_writes.  Outcomes (stats numbers, counts, positions) and the in-memory latch are compared as well.

Checked DIRECTLY on the device, independent of the model (failing input = the script):
 C05  after unmount of a session whose mount-time count was unknown / right / discarded: the free-count word is unknown or equals
      Spec/Abs.count_free of the DEVICE; the hint is unknown, a cluster number 2..total+1, or the word found at mount; signatures kept;
      a stored count SMALLER than reality (0 / 1 / 5 / real-1, D28 repaired) and more allocations than it allows: no panic, no wrap;
      once the count is used up stats equals Abs.count_free of the device at that moment, and never exceeds the cluster count.
 C12  status byte after every call: bits 1-7 those of the mount byte; dirty from the first structural device write on; after
      unmount equal to the mount byte.
 C13  (only when called from c13.py) sessions of non-mutating calls only: no device write at all - except the property's own exception (stats on a sector without a
      usable count) and the known class dirty-mount-stats-writes-fsinfo (KNOWN-FINDING, only for exactly that class)."""
import vlib
from vlib import hexs
from props import sess_common as sc

CORR = "Model/VolFsInfo.v vol32_mount / v32_step / vol32_unmount vs src/fs.rs on FAT32 devices (model runner cfsinfo)"
UNKNOWN = 0xFFFFFFFF
MOUNT_BYTES = [0, 1, 2, 3, 0x84]

# (label, device bytes, format line, pokes after format)
CONFS = [
    ("fat32-c512-2fat", 67000 * 512, "format 512 67000 512 32 - 2 - - -", []),
    ("fat32-c512-1fat", 66200 * 512, "format 512 66200 512 32 - 1 - - -", []),
    ("fat32-s1k-c1k", 66600 * 1024, "format 1024 66600 1024 32 - 2 - - -", []),
    ("fat32-c512-nomirror-active1", 67000 * 512, "format 512 67000 512 32 - 2 - - -", ["poke 40 8100"]),
]


def u32(v):
    return (v & 0xFFFFFFFF).to_bytes(4, "little").hex()


def head_of(conf, prefill):
    label, devsize, fmt, pokes = conf
    h = ["dev %d 0" % devsize, "wlog 0", fmt] + pokes
    h += ["mount 1 0 lossy", "create_file 0 %s 1" % hexs("pre.bin")]
    if prefill:
        h.append("write_pat 1 %d 7" % prefill)
    h += ["drop_all", "unmount", "pages"]
    return h


class Sess:
    """one generated session: executor lines + the model-runner line for each (None = no model line)"""
    def __init__(self):
        self.lines = []     # executor script lines after the head
        self.mlines = []    # per line: model command prefix (the library's writes are appended) or None
        self.kinds = []     # per line: what it is, for the direct checks
        self.readonly = True

    def add(self, line, mline, kind, mutating=False):
        self.lines.append(line); self.mlines.append(mline); self.kinds.append(kind)
        if mutating:
            self.readonly = False


def gen_session(rng, conf, geo, prefill, force_ro):
    """geo = (bits, cs, total, count_free, fsi_off, vol32ok, fat0, fatb, nfats, data0, bps) of the populated volume"""
    bits, cs, total, cfree, fsi, okb, fat0, fatb, nf, data0, bps = geo
    s = Sess()
    # ---- pre-set the sector and the status byte
    cnt_kind = rng.choice(["kept", "unknown", "correct", "wrong-more", "wrong-less", "out-of-range", "unknown", "correct"])
    if cnt_kind == "kept" or cnt_kind == "correct":
        stored = cfree
    elif cnt_kind == "unknown":
        stored = UNKNOWN
    elif cnt_kind == "wrong-more":
        stored = min(total, cfree + rng.choice([1, 2, 100]))
        if stored == cfree:
            stored = cfree - 1
    elif cnt_kind == "wrong-less":
        # (a stored count smaller than the clusters a session allocates is the deterministic family forget_session)
        stored = cfree - rng.choice([1, 2, 50])
    else:
        stored = rng.choice([total + 1, total + 2, 0x0FFFFFFF, 0xFFFFFFFE])
    nxt_kind = rng.choice(["kept", "unknown", "zero", "one", "cluster", "last", "total+2", "total+3", "huge", "cluster"])
    nxt = {"kept": None, "unknown": UNKNOWN, "zero": 0, "one": 1, "cluster": rng.range(2, total + 1), "last": total + 1,
           "total+2": total + 2, "total+3": total + 3, "huge": 0x80000000}[nxt_kind]
    mb = rng.choice(MOUNT_BYTES)
    pokes = []
    if cnt_kind != "kept":
        pokes.append((fsi + 488, u32(stored)))
    if nxt is not None:
        pokes.append((fsi + 492, u32(nxt)))
    pokes.append((65, "%02x" % mb))
    resv = rng.chance(1, 5)
    if resv:
        pokes.append((fsi + 4 + rng.below(470), "a5c3"))
        pokes.append((fsi + 496 + rng.below(10), "7e"))
    for off, hx in pokes:
        s.add("poke %d %s" % (off, hx), "poke %d %s" % (off, hx), "poke")
    s.add("wlog 1", None, "ctl")
    s.add("mount %d 0 lossy" % rng.below(2), "mount", "mount")
    # ---- the calls
    nfiles = 0
    open_h = {}        # handle -> name
    pre_open = False
    ncalls = rng.range(4, 11)
    for _ in range(ncalls):
        k = rng.below(12 if not force_ro else 5)
        if force_ro:
            k = [0, 0, 7, 8, 20][k]
        elif not open_h and k >= 4:
            k = 2 if nfiles < 2 and (pre_open or rng.chance(1, 2)) else 3 if not pre_open else rng.below(2)
        if k <= 1:
            s.add("stats", "stats", "stats")
        elif k == 2 and nfiles < 2:
            nfiles += 1
            h = 10 + nfiles; name = "f%d.bin" % nfiles
            s.add("create_file 0 %s %d" % (hexs(name), h), "ext 1", "create", True)
            s.add(None, "open_fresh %d" % h, "model-only")
            open_h[h] = name
        elif k == 3 and not pre_open:
            pre_open = True
            s.add("open_file 0 %s 20" % hexs("pre.bin"), None, "open")
            first = 3 if prefill else 0
            s.add(None, "open 20 %d %d" % (first, prefill) if prefill else "open_fresh 20", "model-only")
            open_h[20] = "pre.bin"
        elif k in (4, 5) and open_h:
            h = rng.choice(sorted(open_h))
            n = rng.choice([1, 5, cs - 1, cs, cs + 1, 100, 2 * cs])
            data = bytes((rng.below(256) for _ in range(min(n, cs + 8)))).hex()
            s.add("write %d %s" % (h, data), "fop %d write %s" % (h, data), "fop", True)
        elif k == 6 and open_h:
            h = rng.choice(sorted(open_h))
            s.add("truncate %d" % h, "fop %d truncate" % h, "fop", True)
        elif k == 7 and (open_h or force_ro):
            if not open_h:
                s.add("open_file 0 %s 20" % hexs("pre.bin"), None, "open")
                first = 3 if prefill else 0
                s.add(None, "open 20 %d %d" % (first, prefill) if prefill else "open_fresh 20", "model-only")
                open_h[20] = "pre.bin"; pre_open = True
            h = rng.choice(sorted(open_h))
            wh = rng.choice(["start", "end", "cur"])
            off = rng.choice([0, 1, cs - 1, cs, cs + 1, 3 * cs]) if wh == "start" else rng.choice([0, -1, -cs, 5])
            s.add("seek %d %s %d" % (h, wh, off), "fop %d seek %s %d" % (h, wh, off), "fop")
        elif k == 8 and open_h:
            h = rng.choice(sorted(open_h))
            n = rng.choice([0, 1, 7, cs, cs + 3])
            s.add("read %d %d" % (h, n), "fop %d read %d" % (h, n), "fop")
        elif k == 9 and open_h:
            h = rng.choice(sorted(open_h))
            s.add("flush %d" % h, "ext 0", "flush", True)
        elif k == 10 and open_h:
            h = rng.choice(sorted(open_h))
            name = open_h.pop(h)
            s.add("drop_file %d" % h, "ext 0", "drop", True)
            s.add("remove 0 %s" % hexs(name), "remove %d" % h, "remove", True)
            if h == 20:
                pre_open = True      # the file is gone: do not open it again
        else:
            if rng.chance(1, 3):
                s.add("status_flags", None, "status_flags")
            else:
                s.add("stats", "stats", "stats")
    s.add("drop_all", "ext 0", "drop")
    s.add(rng.choice(["unmount", "dropfs"]), "unmount", "unmount")
    meta = {"cnt": cnt_kind, "stored": stored, "nxt": nxt_kind, "nxtval": nxt, "mb": mb, "resv": resv, "fsi": fsi, "total": total,
            "cfree": cfree, "bps": bps}
    return s, meta


def forget_session(conf, geo, stored):
    """deterministic family (D28, repaired): the stored count is SMALLER than reality (0, 1, 5, real-1), clean status byte; the
    session allocates more clusters than the count says there are (one cluster per write): the library must neither panic nor
    wrap - it forgets the count (map_free_clusters with checked_sub) - and statistics afterwards must be the free entries of the
    raw table.  Checked directly on the device (statsd: Spec/Abs.count_free of the device at that moment)."""
    bits, cs, total, cfree, fsi, okb, fat0, fatb, nf, data0, bps = geo
    s = Sess()
    s.add("poke %d %s" % (fsi + 488, u32(stored)), "poke %d %s" % (fsi + 488, u32(stored)), "poke")
    s.add("wlog 1", None, "ctl")
    s.add("mount 1 0 lossy", "mount", "mount")
    s.add("stats", "stats", "stats")
    s.add("create_file 0 %s 11" % hexs("f1.bin"), "ext 1", "create", True)
    s.add(None, "open_fresh 11", "model-only")
    nwrites = min(stored, 5) + 2
    for i in range(nwrites):
        data = bytes(((i * 37 + j) & 0xFF for j in range(cs))).hex()
        s.add("write 11 %s" % data, "fop 11 write %s" % data, "fop", True)
        if i == nwrites - 1:
            s.add("stats", "statsd", "statsd")
    s.add("seek 11 start %d" % cs, "fop 11 seek start %d" % cs, "fop")
    s.add("truncate 11", "fop 11 truncate", "fop", True)
    s.add("stats", "statsd", "statsd")
    s.add("drop_all", "ext 0", "drop")
    s.add("unmount", "unmount", "unmount")
    meta = {"cnt": "too-small-%s" % ("real-1" if stored > 5 else stored), "stored": stored, "nxt": "kept", "nxtval": None, "mb": 0,
            "resv": False, "fsi": fsi, "total": total, "cfree": cfree, "bps": bps, "forget": True}
    return s, meta


def stream(rep, tier, rng, who, n=None):
    if n is None:
        n = 16 if tier == "quick" else 320
    items = []
    for i in range(n):
        conf = CONFS[i % len(CONFS)]
        cs_guess = 1024 if "s1k" in conf[0] else 512
        prefill = rng.choice([0, 1, cs_guess, cs_guess + 1, 3 * cs_guess, 5 * cs_guess - 1])
        items.append([conf, prefill, who == "C13" and i % 2 == 0 or rng.chance(1, 6)])
    for k, st in enumerate(["0", "5"] if tier == "quick" else ["0", "1", "5", "real-1"]):
        items.append([CONFS[k % len(CONFS)], 700, "forget:" + st])
    # ---- pass 1: one populated volume per configuration (geometry and the decoder's free count through the model runner); the
    # free count of the other populations follows by arithmetic (checked: the model's statistics and the decoder's count of the
    # device at unmount are compared with the library's in every session)
    used = [c for c in CONFS if any(it[0] is c for it in items)]
    P0 = {c[0]: 3 * (1024 if "s1k" in c[0] else 512) + 1 for c in used}
    pre = vlib.run_scripts([head_of(c, P0[c[0]]) for c in used])
    mout = vlib.model_run("cfsinfo", "\n".join("imgc 0 " + r[-1].payload for r in pre) + "\n")
    base = {}
    for c, line, r in zip(used, mout, pre):
        t = line.split()
        if t[0] != "ok" or t[1] != "32":
            rep.violation("[%s fsinfo] the populated %s volume is not decoded as FAT32 by the model runner: %s" % (who, c[0], line[:80]),
                          {"script": [o.line for o in r], "theorem_or_correspondence": CORR}, nofail=True)
            continue
        base[c[0]] = tuple(int(x) for x in t[1:])
        if t[6] != "1":
            rep.violation("[%s fsinfo] the precondition Vol32 (vol32b) of the theorems does not hold for the formatted %s volume" % (who, c[0]),
                          {"script": [o.line for o in r], "theorem_or_correspondence": "Proofs/VolFsInfoProofs.v Vol32"}, nofail=True)
    geo = {}; heads = {}
    for conf, prefill, _ in items:
        k = (conf[0], prefill)
        if conf[0] not in base or k in geo:
            continue
        b = list(base[conf[0]]); cs = b[1]
        b[3] = b[3] + 4 - (prefill + cs - 1) // cs      # the populated file of pass 1 owns 4 clusters
        geo[k] = tuple(b); heads[k] = head_of(conf, prefill)
    # ---- pass 2: the sessions
    sessions_ = []
    for conf, prefill, ro in items:
        k = (conf[0], prefill)
        if k not in geo:
            continue
        if isinstance(ro, str) and ro.startswith("forget:"):
            st = ro.split(":")[1]
            s, meta = forget_session(conf, geo[k], geo[k][3] - 1 if st == "real-1" else int(st))
        else:
            s, meta = gen_session(rng, conf, geo[k], prefill, bool(ro))
        sessions_.append((conf, prefill, s, meta, heads[k]))
    scripts = [head + [l for l in s.lines if l is not None] for conf, prefill, s, meta, head in sessions_]
    results = []
    for i in range(0, len(scripts), 40):
        results += vlib.run_scripts(scripts[i:i + 40])
    # ---- the model-runner pass
    mtext = []
    plan = []     # per session: list of (result index or None, kind, has_model_line)
    for (conf, prefill, s, meta, head), res in zip(sessions_, results):
        mtext.append("img 0 " + res[len(head) - 1].payload)
        ri = len(head)
        pl = []
        stopped = False
        for line, ml, kind in zip(s.lines, s.mlines, s.kinds):
            r = None
            if line is not None:
                r = res[ri]; ri += 1
            if stopped or (r is not None and r.kind == "skipped"):
                pl.append((r, kind, False)); continue
            if ml is None:
                pl.append((r, kind, False)); continue
            if ml.startswith("open_fresh"):
                pl.append((r, kind, False)); continue      # a handle the runner creates on first use
            if kind in ("poke", "model-only"):
                mtext.append(ml)
            elif kind == "mount":
                mtext.append("mount " + line.split()[1])
            else:
                ws = " ".join("%d:%s" % (off, hx) for off, hx, _ in r.writes())
                mtext.append("%s | %s" % (ml, ws))
            pl.append((r, kind, True))
            if r is not None and r.kind in ("panic", "hang"):
                stopped = True
        plan.append(pl)
    mout = vlib.model_run("cfsinfo", "\n".join(mtext) + "\n")
    # ---- evaluation
    mi = 0
    dist = {"stored_count": {}, "next_word": {}, "mount_byte": {}, "ops": {}, "outcomes": {}, "by_volume": {}, "bytes_compared": 0,
            "calls": 0, "unmount_wrote_sector": 0, "readonly_sessions": 0, "readonly_wrote": 0, "reserved_bytes_preset": 0,
            "count_forgotten_sessions": 0, "stats_checked_on_device": 0, "stats_calls": 0}
    for (conf, prefill, s, meta, head), res, pl, scr in zip(sessions_, results, plan, scripts):
        rep.count()
        label = conf[0]
        dist["by_volume"][label] = dist["by_volume"].get(label, 0) + 1
        dist["stored_count"][meta["cnt"]] = dist["stored_count"].get(meta["cnt"], 0) + 1
        dist["next_word"][meta["nxt"]] = dist["next_word"].get(meta["nxt"], 0) + 1
        dist["mount_byte"]["0x%02x" % meta["mb"]] = dist["mount_byte"].get("0x%02x" % meta["mb"], 0) + 1
        dist["reserved_bytes_preset"] += meta["resv"]
        bad = False
        def viol(text, upto_line, nofail):
            nonlocal bad
            bad = True
            cut = scr if upto_line is None else scr[:scr.index(upto_line) + 1] if upto_line in scr else scr
            rep.violation("[%s fsinfo %s] %s" % (who, label, text),
                          {"script": cut, "theorem_or_correspondence": CORR} if nofail else {"script": cut}, nofail=nofail)
        img_line = mout[mi]; mi += 1
        total = meta["total"]; fsi = meta["fsi"]; mb = meta["mb"]
        lacks = meta["stored"] == UNKNOWN or meta["stored"] > total
        d16 = (mb & 1) == 1 and not lacks
        coherent = (mb & 1) == 1 or lacks or meta["stored"] == meta["cfree"]
        status = mb               # the device's status byte, tracked from the write log
        structural = False
        mounted = False
        stats_called = False
        wrote_ro = []
        allocs = 0          # forget family: clusters allocated so far (one per successful write)
        if meta.get("forget"):
            dist["count_forgotten_sessions"] += 1
        for r, kind, has_m in pl:
            ml = None
            if has_m:
                ml = mout[mi]; mi += 1
            if bad or r is None:
                continue
            if r.kind == "skipped":
                continue
            line = r.line
            if kind in ("poke", "ctl"):
                continue
            dist["calls"] += 1
            op = line.split(" ")[0]
            dist["ops"][op] = dist["ops"].get(op, 0) + 1
            oc = op + ":" + (r.kind if r.kind != "err" else "err " + r.payload.split(" ")[0])
            dist["outcomes"][oc] = dist["outcomes"].get(oc, 0) + 1
            if r.kind in ("panic", "hang"):
                msg = bytes.fromhex(r.payload).decode("utf-8", "replace") if r.kind == "panic" and r.payload else ""
                viol("%s -> %s %s" % (sc.short(line, 60), r.kind, msg[:100]), line, False); continue
            ws = r.writes()
            # ---- direct: the status byte (C12) from the device's own write log
            for off, hx, _ in ws:
                nb = len(hx) // 2
                if off <= 65 < off + nb:
                    status = int(hx[2 * (65 - off):2 * (65 - off) + 2], 16)
                if not (off == 65 and nb == 1) and not (fsi <= off and off + nb <= fsi + 512):
                    structural = True
            if kind == "mount":
                if not r.ok:
                    viol("mount of the pre-set volume failed: %s %s" % (r.kind, r.payload[:60]), line, False); continue
                mounted = True
            if mounted and kind != "unmount":
                if (status & 0xFE) != (mb & 0xFE):
                    viol("status byte 0x41 is %#04x after %s: bits 1-7 differ from the mount-time byte %#04x" % (status, sc.short(line, 50), mb), line, False); continue
                if structural and not (status & 1):
                    viol("the device has been written (%s) but the dirty bit at 0x41 is not set: status byte %#04x" % (sc.short(line, 50), status), line, False); continue
            if kind == "unmount" and status != mb:
                viol("status byte 0x41 is %#04x after %s, it was %#04x at mount" % (status, op, mb), line, False); continue
            # ---- direct: read-only sessions (C13)
            if mounted and s.readonly and ws:
                wrote_ro.append((line, ws))
            if kind in ("stats", "statsd"):
                stats_called = True
                dist["stats_calls"] += 1
            # ---- correspondence
            if not has_m or ml is None:
                continue
            parts = [x.strip() for x in ml.split("|")]
            if kind == "mount":
                if not ml.startswith("ok"):
                    viol("model of mount rejects the volume the library mounts: %s" % ml[:60], line, True)
                continue
            cmp_ = parts[-1]
            if kind == "statsd":
                # ---- direct (C05, D28): statistics on a volume whose stored count is smaller than reality
                t0 = parts[0].split(" dev ")
                devnow = int(t0[1]) if len(t0) == 2 else None
                parts[0] = t0[0]
                if r.ok and devnow is not None:
                    libfree = int(r.payload.split()[2])
                    dist["stats_checked_on_device"] += 1
                    if libfree > total:
                        viol("stats reports %d free clusters on a volume of %d clusters (stored count %d)" % (libfree, total, meta["stored"]), line, False); continue
                    if allocs > meta["stored"] and libfree != devnow:
                        viol("the stored count %d was used up by %d allocations; stats then reports %d free clusters, the raw table has %d free "
                             "entries" % (meta["stored"], allocs, libfree, devnow), line, False); continue
            if kind in ("stats", "statsd"):
                want = "ok " + r.payload.strip() if r.ok else r.kind
                if parts[0] != want:
                    viol("stats: model '%s', library '%s %s'" % (parts[0], r.kind, r.payload), line, True); continue
            elif kind == "fop":
                if meta.get("forget") and op == "write" and r.ok:
                    allocs += 1
                want = r.kind + ((" " + r.payload.split(" ")[0]) if r.payload else "")
                if op == "read":
                    want = r.kind + " " + (r.payload if r.payload else "-")
                if parts[0] != want:
                    viol("'%s': model '%s', library '%s'" % (sc.short(line, 40), parts[0][:60], want[:60]), line, True); continue
            elif kind == "remove":
                want = "ok" if r.ok else "err " + r.payload.split(" ")[0]
                if parts[0] != want:
                    viol("remove: model '%s', library '%s'" % (parts[0], want), line, True); continue
            if kind != "unmount":
                if not cmp_.startswith("same"):
                    viol("device and model image differ after '%s': %s" % (sc.short(line, 40), cmp_[:170]), line, True); continue
                dist["bytes_compared"] += int(cmp_.split()[1])
            if kind == "unmount":
                dv = parts[1].split()
                devcount, devfree, devnext, devstatus = (None if dv[0] == "-" else int(dv[0])), int(dv[1]), int(dv[2]), int(dv[3])
                wrote_sector = any(fsi <= off < fsi + 512 for off, hx, _ in ws)
                if meta.get("forget") and allocs > meta["stored"]:
                    coherent = True      # the wrong count was forgotten and (statsd) recomputed from the table
                dist["unmount_wrote_sector"] += wrote_sector
                # ---- direct: the FS-info clause of C05 on the device, decoded by Spec/Abs (the shape of C05_vol32_session_fsinfo_any_mount):
                # the word is the decoder's count, or unknown, or - mount latched no count (dirty byte / unknown / out of range) and the
                # sector was not written at unmount - the untouched word found at mount, which nobody trusts
                untouched = (not wrote_sector) and devfree == meta["stored"] and (lacks or (mb & 1))
                if coherent and devfree != UNKNOWN and devfree != devcount and not untouched:
                    viol("after %s the FS-info sector says %d free clusters, the independent decoder counts %d on the device "
                         "(mount-time count: %s)" % (op, devfree, devcount, meta["cnt"]), line, False); continue
                if coherent and devfree == UNKNOWN and stats_called:
                    viol("statistics were computed in this session but the FS-info sector carries no count after %s" % op, line, False); continue
                stored_next = meta["nxtval"]
                if not (devnext == UNKNOWN or 2 <= devnext <= total + 1 or (stored_next is not None and devnext == stored_next) or stored_next is None):
                    viol("after %s the next-free word is %d: neither unknown, a cluster number (2..%d) nor the word found at mount"
                         % (op, devnext, total + 1), line, False); continue
                if devstatus != mb:
                    viol("status byte on the device after %s: %#04x, at mount %#04x" % (op, devstatus, mb), line, False); continue
                # ---- and the correspondence (after the direct clauses: a failing input is reported as such)
                if not cmp_.startswith("same"):
                    viol("device and model image differ after '%s': %s" % (sc.short(line, 40), cmp_[:170]), line, True); continue
                dist["bytes_compared"] += int(cmp_.split()[1])
        # ---- C13 verdict for a read-only session
        if who == "C13" and s.readonly and not bad:
            dist["readonly_sessions"] += 1
            if wrote_ro:
                dist["readonly_wrote"] += 1
                line, ws = wrote_ro[0]
                fsinfo_only = all(fsi <= off and off + len(hx) // 2 <= fsi + 512 for l_, w_ in wrote_ro for off, hx, _ in w_)
                if fsinfo_only and stats_called and lacks:
                    pass        # the property's exception: the sector lacks a usable count
                elif fsinfo_only and stats_called and d16 and "dirty-mount-stats-writes-fsinfo" in sc.KF:
                    rep.known_finding(sc.kf_text("dirty-mount-stats-writes-fsinfo"))
                else:
                    viol("read-only session wrote to the storage: %s issued %d device write(s), first at offset %d (mount byte %#04x, "
                         "stored count %s)" % (sc.short(line, 50), len(ws), ws[0][0], mb, meta["cnt"]), line, False)
        if not bad:
            rep.distinct(("fsinfo", label, meta["cnt"], meta["nxt"], mb, tuple(l for l in s.lines if l)))
    rep.cov["fsinfo_sessions"] = len(sessions_)
    rep.cov["fsinfo_distribution"] = dist
    rep.cov["fsinfo_rule"] = ("FAT32 volumes (%d configurations) populated through the library, FS-info words / status byte / reserved bytes "
                              "pre-set by poke; mount, stats / file calls / remove, unmount or drop; extracted VolFsInfo machine vs the "
                              "device after every call (boot sector, FS-info sector, written ranges, table entries, unmount write list); "
                              "C05 / C12 / C13 clauses evaluated directly on the device" % len(CONFS))
