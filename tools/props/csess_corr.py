"""Whole-DEVICE correspondence of ONE FILE SESSION composed through the directory entry (coq/Model/VolSession.v: sess_create =
VolDir.vol_create_empty_file_root + the handle bound to the new short slot, sess_step = VolFile.vol_step + the time stamps
File::write / File::read put into the handle's DirEntryEditor, vol_flush_entry = File::flush / drop writing the 32-byte entry
back iff dirty; theorems C04_session_flush_decodes, C04_session_format_decodes, C03_session_deferred_writeback) with the real
library.  NOT a registered property: a helper stream called from tools/props/c04.py.

Per session: a small FAT12 / FAT16 volume (root directory filling whole sectors) is formatted by the REAL format_volume on a
device with some fill byte; the model formats the same request itself (Model/FormatImage.v) and from then on works on ITS OWN
image only.  mount (update_accessed_date on or off), create_file(name) under a scripted clock, a boundary-focused history of
write / read / seek / truncate calls each under its own clock value (`clock y m d h mi s ms`, so that the model's clock
argument IS the library's time provider), then flush and/or drop, unmount.  The model runner (mode csess) keeps the model's
image and the device image (the formatted image + the library's logged device writes) and compares the WHOLE images after
create, after EVERY call, after the flush / drop and after unmount - EXACTLY, the status byte included: the model runs the
MOUNTED operations of Model/VolStatus.v (the dirty flag is written when the code writes it - C12_vol_create, C12_vol_file_step,
C12_vol_remove_file, C12_vol_unmount_restores - and is no longer masked); the final device dump (`pages`) is compared page by page with the model's image as well.  Outcomes,
positions and sizes are compared after every call.
Directly on the implementation, independent of the model (the C04 clause itself): the library's own final dump is decoded by
Spec/Abs.abs + Spec/Wf.wf_issues: exactly one root node, the file `name` whose content is the byte array the session observed
(tracked from the library's own return values), size field = its length, no issue, free clusters = total - ceil(len/cluster);
a second mount reads the same bytes back.  Before the first flush the device is decoded too: what it shows is what
C03_session_deferred_writeback states (entry still size 0 / no cluster, the chain's clusters LOST, nothing else) - the recorded
known-finding class deferred-entry-writeback; a deviation from that statement is reported as a broken correspondence.
Rounds (Model/VolRemove.v, C05_vol_remove_reclaims_all, C05_vol_cycles_keep_capacity): a session has 1-3 files, each written
as above; in 3 of 5 cases the handle is dropped and the file REMOVED (root_dir().remove(name): free_cluster_chain on the FAT
copies, then the deletion loop) - the whole device is compared with the model's image after the remove, and the DEVICE bytes
are decoded (Spec/Abs + Spec/Wf, independent of the model): the removed entry is gone, every cluster of its chain is free again
(free count = total - clusters of the files still there), nothing lost, no issue.  A later round on the same volume is a fill /
delete cycle, or a remove beside other files with their own chains."""
import hashlib
import vlib, namelib
from vlib import hexs
from props import cvol_corr

CORR = ("Model/VolSession.v sess_create / sess_step / vol_flush_entry + Model/VolRemove.v vol_remove_file_root (model csess; "
        "C04_session_flush_decodes, C04_session_format_decodes, C03_session_deferred_writeback, C05_vol_remove_reclaims_all, "
        "C05_vol_cycles_keep_capacity) vs src/dir.rs + src/file.rs + src/dir_entry.rs + src/table.rs on the whole device image")

CONFS = cvol_corr.CONFS
NAMES = ["a.txt", "B", "file.txt", "File.TXT", "x" * 13, "y" * 14, "z" * 26, "thirteenchars.26charsxxxxx", "name.with.many.dots.ext",
         "UPPER", "lower.c", "MiXed.Txt", "straße", "Жук.txt", "é.x", "~tilde", "#hash&amp", " lead", "e5å", "€",
         "averyveryverylongname_that_needs_many_lfn_slots_0123456789.bin"]
BAD = ["bad:name", "que?", "x" * 256]


def rand_clock(rng, prev=None):
    k = rng.below(100)
    if prev is not None and k < 15:
        return prev
    if prev is not None and k < 30:
        # the same 2-second slot without milliseconds: set_modified compares equal after the first stamp
        y, m, d, h, mi, s, ms = prev
        return (y, m, d, h, mi, s - s % 2, 0)
    return (1980 + rng.below(128), 1 + rng.below(12), 1 + rng.below(28), rng.below(24), rng.below(60), rng.below(60),
            rng.choice([0, 0, 10 * rng.below(100), rng.below(1000)]))


def gen_round(rng, nops, geo, used, handle):
    from props import c02 as c02mod
    bits, cs, total = geo
    while True:
        name = rng.choice(NAMES) if rng.chance(95, 100) else rng.choice(BAD)
        if name.lower() not in used:
            break
    used.add(name.lower())
    c0 = rand_clock(rng)
    how = rng.below(100)
    if how < 8:
        ops = []
    elif how < 16:
        ops = ["read 10", "seek start 0"]
    else:
        fill = total <= 64 and rng.chance(1, 6)
        ops = [o for _, o in c02mod.model_history(rng, cs, total, rng.range(1, nops + 1), fill, 1)]
    clocks = []
    c = c0
    for _ in ops:
        c = rand_clock(rng, c)
        clocks.append(c)
    end = rng.choice(["flush", "drop", "flush+drop", "flush+drop"])
    return {"name": name, "c0": c0, "ops": ops, "clocks": clocks, "end": end, "remove": False, "handle": handle}


def gen_session(rng, conf, nops, geo):
    """1-3 rounds of create_file ; calls ; flush / drop, each optionally followed by remove(name) of the file just written (the
    handle dropped first): fill / delete cycles, and removes while other files with their own chains are on the volume"""
    acc = 1 if rng.chance(1, 3) else 0
    k = rng.below(100)
    nr = 1 if k < 45 else (2 if k < 80 else 3)
    used = set()
    rounds = []
    for i in range(nr):
        r = gen_round(rng, nops if i == 0 else max(3, nops // 2), geo, used, 1 + i)
        r["remove"] = rng.chance(3, 5)
        rounds.append(r)
    # the status byte the volume is mounted with: clean, dirty, io-error, reserved bits set by someone else (D11)
    b0 = rng.choice([0, 0, 0, 0, 0, 1, 2, 3, 4, 0x84, 0xFC, 0xFF])
    return {"conf": conf, "acc": acc, "rounds": rounds, "b0": b0, "name": rounds[0]["name"], "ops": rounds[0]["ops"], "end": rounds[0]["end"]}


def build_script(s):
    label, dev, fmt, fill = s["conf"]
    lines = ["dev %d %d" % (dev, fill), "wlog 0", "format " + fmt, "pages"]
    if s["b0"]:
        lines.append("poke 37 %02x" % s["b0"])
    lines += ["wlog 1", "mount 1 %d lossy" % s["acc"]]
    m = {"p_format": 3, "rounds": []}
    for r in s["rounds"]:
        h = r["handle"]
        mr = {"ops": [], "i_end": [], "i_xdrop": None, "i_remove": None}
        lines.append("clock %d %d %d %d %d %d %d" % r["c0"])
        mr["i_create"] = len(lines)
        lines.append("create_file 0 %s %d" % (hexs(r["name"]), h))
        for o, ck in zip(r["ops"], r["clocks"]):
            lines.append("clock %d %d %d %d %d %d %d" % ck)
            t = o.split(" ")
            mr["ops"].append(len(lines))
            lines.append("%s %d" % (t[0], h) + ("" if len(t) == 1 else " " + " ".join(t[1:])))
            lines.append("seek %d cur 0" % h)
        for e in r["end"].split("+"):
            mr["i_end"].append(len(lines))
            lines.append("flush %d" % h if e == "flush" else "drop_file %d" % h)
        if r["remove"]:
            if "drop" not in r["end"]:
                mr["i_xdrop"] = len(lines)
                lines.append("drop_file %d" % h)
            mr["i_remove"] = len(lines)
            lines.append("remove 0 %s" % hexs(r["name"]))
        m["rounds"].append(mr)
    m["i_unmount"] = len(lines)
    lines += ["unmount", "wlog 0", "pages"]
    m["p_final"] = len(lines) - 1
    lines.append("mount 1 0 lossy")
    m["reads"] = []
    for r in s["rounds"]:
        h = 10 + r["handle"]
        m["reads"].append(len(lines) + 1)
        lines += ["open_file 0 %s %d" % (hexs(r["name"]), h), "read_all %d 4000000" % h, "drop_file %d" % h]
    m["i_list"] = len(lines)
    m["i_stats"] = len(lines) + 1
    lines += ["list 0", "stats", "unmount"]
    return lines, m


def wr_tokens(results):
    ws = []
    for r in results:
        ws += ["%d:%s" % (off, hx) for off, hx, _ in r.writes()]
    return " ".join(ws)


def stream(rep, tier, rng, who, n=None):
    if n is None:
        n = 36 if tier == "quick" else 600
    nops = 10 if tier == "quick" else 30
    _, table = namelib.upper_table("default")
    # geometry of every configuration through the model's own format
    mout = vlib.model_run("csess", "\n".join("fmt %s %d 0" % (c[2], c[3]) for c in CONFS) + "\n")
    geo = {}
    for conf, line in zip(CONFS, mout):
        t = line.split()
        if t[0] != "ok":
            rep.violation("[%s session] the model cannot format the %s volume: %s" % (who, conf[0], line[:80]),
                          {"theorem_or_correspondence": CORR}, nofail=True)
            continue
        geo[conf[0]] = (int(t[1]), int(t[2]), int(t[3]))
        if t[4] != "1":
            rep.violation("[%s session] the preconditions fixed_root_geom / vgeom_ok of the session theorems do not hold for the formatted "
                          "%s volume" % (who, conf[0]), {"theorem_or_correspondence": "Proofs/VolDirProofs.v fixed_root_geom"}, nofail=True)
    sessions_ = []
    for i in range(n):
        conf = CONFS[i % len(CONFS)]
        if conf[0] not in geo:
            continue
        sessions_.append(gen_session(rng, conf, nops, geo[conf[0]]))
    built = [build_script(s) for s in sessions_]
    results = []
    for i in range(0, len(built), 40):
        results += vlib.run_scripts([b[0] for b in built[i:i + 40]])
    # ---- one model-runner pass
    mtext = ["upper " + table]
    plan = []
    for si, (s, (lines, m), res) in enumerate(zip(sessions_, built, results)):
        conf = s["conf"]
        mtext.append("fmt %s %d %d" % (conf[2], conf[3], s["acc"])); plan.append((si, "fmt", None))
        if s["b0"]:
            mtext.append("poke 37 %02x" % s["b0"]); plan.append((si, "poke", None))
        for ri, (r, mr) in enumerate(zip(s["rounds"], m["rounds"])):
            ic = mr["i_create"]
            cr = res[ic]
            mtext.append("create %s %d %d %d %d %d %d %d | %s" % ((hexs(r["name"]),) + tuple(r["c0"]) + (wr_tokens(res[ic - 1:ic + 1]),)))
            plan.append((si, "create", ri))
            if cr.kind == "ok":
                for k, (o, ck) in enumerate(zip(r["ops"], r["clocks"])):
                    i = mr["ops"][k]
                    mtext.append("step %d %d %d %d %d %d %d %s | %s" % (tuple(ck) + (o, wr_tokens(res[i:i + 2]))))
                    plan.append((si, "step", (ri, k)))
                mtext.append("dec"); plan.append((si, "dec_before", ri))
                first = True
                for i in mr["i_end"]:
                    if first:
                        mtext.append("flush | " + wr_tokens([res[i]])); plan.append((si, "flush", (ri, i)))
                        first = False
                    else:
                        mtext.append("sync m | " + wr_tokens([res[i]])); plan.append((si, "sync", (ri, i)))
            else:
                for i in mr["i_end"]:
                    mtext.append("sync m | " + wr_tokens([res[i]])); plan.append((si, "sync", (ri, i)))
            if mr["i_xdrop"] is not None:
                mtext.append("sync m | " + wr_tokens([res[mr["i_xdrop"]]])); plan.append((si, "sync", (ri, mr["i_xdrop"])))
            if mr["i_remove"] is not None:
                mtext.append("remove %s | %s" % (hexs(r["name"]), wr_tokens([res[mr["i_remove"]]]))); plan.append((si, "remove", ri))
                mtext.append("dec"); plan.append((si, "dec_after_remove", ri))
        mtext.append("sync x | " + wr_tokens([res[m["i_unmount"]]])); plan.append((si, "unmount", None))
        mtext.append("digest"); plan.append((si, "digest", None))
        fp = res[m["p_final"]]
        mtext.append("decp %d %s" % (conf[3], fp.payload if fp.kind == "ok" else "")); plan.append((si, "decp", None))
    mout = vlib.model_run("csess", "\n".join(mtext) + "\n")[1:]
    assert len(mout) == len(plan), (len(mout), len(plan))
    # ---- evaluation
    dist = {"by_volume": {}, "ops": {}, "outcomes": {}, "ends": {}, "rounds": {}, "acc_on": 0, "create_refused": 0, "steps": 0,
            "whole_image_compares": 0, "offsets_compared": 0, "flush_wrote_entry": 0, "flush_clean": 0,
            "deferred_writeback_seen_before_flush": 0, "content_bytes_decoded": 0, "stamps_changed_dirty_only": 0,
            "removes": 0, "removes_with_clusters": 0, "clusters_given_back": 0, "removes_beside_other_files": 0,
            "remove_refused": 0, "fill_delete_cycles": 0, "mount_status_byte": {}}
    state = {}

    def lfn_hex(name):
        u16 = name.encode("utf-16-le")
        return "".join("%02x%02x" % (u16[i + 1], u16[i]) for i in range(0, len(u16), 2))

    def parse_dec(out):
        head, _, ents = out.partition(" : ")
        hv = head.split(" ")
        es = [x.split(",") for x in ents.split(";")] if ents else []
        return hv, {e[0]: e for e in es if len(e) == 5}, len(es)

    for (si, what, arg), out in zip(plan, mout):
        s = sessions_[si]; lines, m = built[si]; res = results[si]; conf = s["conf"]
        label = conf[0]
        bits, cs, total = geo[label]
        stt = state.setdefault(si, {"bad": False, "content": bytearray(), "pos": 0, "created": False, "live": {}, "removed": []})

        def ncl(b):
            return (len(b) + cs - 1) // cs

        def viol(text, upto, nofail):
            stt["bad"] = True
            rep.violation("[%s session %s] %s" % (who, label, text),
                          {"script": lines[:upto + 1], "theorem_or_correspondence": CORR} if nofail else {"script": lines[:upto + 1]},
                          nofail=nofail)
        if stt["bad"]:
            continue
        parts = [x.strip() for x in out.split("|")]
        if what == "fmt":
            rep.count()
            dist["by_volume"][label] = dist["by_volume"].get(label, 0) + 1
            dist["rounds"][len(s["rounds"])] = dist["rounds"].get(len(s["rounds"]), 0) + 1
            dist["acc_on"] += s["acc"]
            pf = res[m["p_format"]]
            lib = cvol_corr.md5s(cvol_corr.pages_of(pf)) if pf.kind == "ok" else None
            t = out.split(" ")
            if t[0] != "ok" or lib is None or cvol_corr.parse_digest(t[5:]) != lib:
                viol("the formatted device differs from the model's formatted image", m["p_format"], True)
            continue
        if what == "poke":
            dist["mount_status_byte"]["%02x" % s["b0"]] = dist["mount_status_byte"].get("%02x" % s["b0"], 0) + 1
            continue
        if what == "create":
            r = s["rounds"][arg]; mr = m["rounds"][arg]
            dist["ends"][r["end"]] = dist["ends"].get(r["end"], 0) + 1
            cr = res[mr["i_create"]]
            stt["content"] = bytearray(); stt["pos"] = 0
            if cr.kind not in ("ok", "err"):
                viol("create_file %r -> %s %s" % (r["name"], cr.kind, cr.payload[:80]), mr["i_create"], False); continue
            if (parts[0].split(" ")[0] == "ok") != (cr.kind == "ok"):
                viol("create_file %r: model '%s', library '%s %s'" % (r["name"], parts[0], cr.kind, cr.payload[:40]), mr["i_create"], True); continue
            if not parts[2].startswith("same"):
                viol("device and model image differ after create_file %r: %s" % (r["name"], parts[2][:120]), mr["i_create"], True); continue
            dist["whole_image_compares"] += 1; dist["offsets_compared"] += int(parts[2].split()[1])
            stt["created"] = cr.kind == "ok"
            if stt["created"]:
                stt["live"][r["name"]] = stt["content"]
            else:
                dist["create_refused"] += 1
            continue
        if what == "step":
            ri, k = arg
            r_ = s["rounds"][ri]; mr = m["rounds"][ri]
            o = r_["ops"][k]; i = mr["ops"][k]
            r = res[i]; rp = res[i + 1]
            t = o.split(" ")
            dist["steps"] += 1
            dist["ops"][t[0]] = dist["ops"].get(t[0], 0) + 1
            oc = t[0] + ":" + (r.kind if r.kind != "err" else "err " + r.payload.split(" ")[0])
            dist["outcomes"][oc] = dist["outcomes"].get(oc, 0) + 1
            if r.kind not in ("ok", "err"):
                viol("%s -> %s %s" % (o[:60], r.kind, r.payload[:80]), i, False); continue
            content = stt["content"]; pos = stt["pos"]
            if t[0] == "write" and r.ok:
                kk = int(r.payload); data = b"" if t[1] == "-" else bytes.fromhex(t[1])
                if pos + kk > len(content):
                    content.extend(b"\0" * (pos + kk - len(content)))
                content[pos:pos + kk] = data[:kk]; pos += kk
            elif t[0] == "read" and r.ok:
                data = b"" if r.payload in ("", "-") else bytes.fromhex(r.payload)
                if data != bytes(content[pos:pos + len(data)]):
                    viol("read at %d returned bytes that were never written there" % pos, i, False); continue
                pos += len(data)
            elif t[0] == "seek" and r.ok:
                pos = int(r.payload)
            elif t[0] == "truncate" and r.ok:
                del content[pos:]
            stt["pos"] = pos
            want = r.kind + ((" " + r.payload.split(" ")[0]) if r.payload else "")
            if t[0] == "read":
                want = r.kind + " " + (r.payload if r.payload else "-")
            if len(parts) != 3:
                viol("model runner: %s" % out[:100], i, True); continue
            if parts[0] != want:
                viol("session machine and library disagree on '%s': model '%s', library '%s'" % (o[:40], parts[0][:80], want[:80]), i, True); continue
            ms = parts[1].split(" ")
            if int(ms[0]) != pos or ms[1] != str(len(content)) or not rp.ok or int(rp.payload) != pos:
                viol("position/size after '%s': model %s/%s, library %s/%d" % (o[:40], ms[0], ms[1], rp.payload, len(content)), i, True); continue
            if not parts[2].startswith("same"):
                viol("device and model image differ after '%s': %s" % (o[:40], parts[2][:120]), i + 1, True); continue
            dist["whole_image_compares"] += 1; dist["offsets_compared"] += int(parts[2].split()[1])
            continue
        if what == "dec_before":
            # the device before the first flush of this round: the statement of C03_session_deferred_writeback (beside the files of
            # earlier rounds, which are flushed and closed)
            r_ = s["rounds"][arg]; mr = m["rounds"][arg]
            hv, ents, nents = parse_dec(out)
            nlost = ncl(stt["content"])
            others = sum(ncl(b) for n_, b in stt["live"].items() if n_ != r_["name"])
            e = ents.get(lfn_hex(r_["name"]))
            ok = (len(hv) == 5 and int(hv[0]) == len(stt["live"]) and hv[1] == "0" and int(hv[2]) == nlost and int(hv[4]) == nlost
                  and int(hv[3]) == total - nlost - others and e is not None and e[1] == "0" and e[2] == "0" and e[3] == "x")
            if not ok:
                viol("before the first flush the device does not decode as C03_session_deferred_writeback states (entry size 0 / no cluster, "
                     "%d lost clusters, nothing else): %s" % (nlost, out[:120]), mr["i_end"][0] - 1, True); continue
            if nlost:
                dist["deferred_writeback_seen_before_flush"] += 1
            continue
        if what in ("flush", "sync", "unmount"):
            i = arg[1] if arg is not None else m["i_unmount"]
            r = res[i]
            if r.kind != "ok" and (stt["created"] or what == "unmount"):
                viol("%s -> %s %s" % (lines[i], r.kind, r.payload[:80]), i, False); continue
            if len(parts) != 3 or not parts[2].startswith("same"):
                viol("device and model image differ after '%s': %s" % (lines[i], (parts[2] if len(parts) == 3 else out)[:120]), i, True); continue
            dist["whole_image_compares"] += 1; dist["offsets_compared"] += int(parts[2].split()[1])
            if what == "flush":
                wrote = any(True for _ in r.writes())
                dirty = parts[0].split(" ")[1] == "1"
                if wrote != dirty:
                    viol("'%s': the library %s the entry, the model's editor is %s" % (lines[i], "wrote" if wrote else "did not write",
                                                                                       "dirty" if dirty else "clean"), i, True); continue
                dist["flush_wrote_entry" if wrote else "flush_clean"] += 1
                if wrote and len(stt["content"]) == 0:
                    dist["stamps_changed_dirty_only"] += 1
            continue
        if what == "remove":
            # root_dir().remove(name) of the file just written and closed (Model/VolRemove.v): outcome and WHOLE device
            r_ = s["rounds"][arg]; mr = m["rounds"][arg]
            i = mr["i_remove"]; r = res[i]
            if r.kind not in ("ok", "err"):
                viol("remove %r -> %s %s" % (r_["name"], r.kind, r.payload[:80]), i, False); continue
            want = r.kind + ((" " + r.payload.split(" ")[0]) if (r.kind == "err" and r.payload) else "")
            if parts[0] != want:
                viol("remove %r: model '%s', library '%s'" % (r_["name"], parts[0][:60], want[:60]), i, True); continue
            if r_["name"] in stt["live"] and r.kind != "ok":
                viol("remove of the existing closed file %r -> err %s" % (r_["name"], r.payload[:60]), i, False); continue
            if len(parts) != 3 or not parts[2].startswith("same"):
                viol("device and model image differ after remove %r: %s" % (r_["name"], (parts[2] if len(parts) == 3 else out)[:120]), i, True); continue
            dist["whole_image_compares"] += 1; dist["offsets_compared"] += int(parts[2].split()[1])
            if r.kind == "ok":
                b = stt["live"].pop(r_["name"], b"")
                stt["removed"].append(r_["name"])
                dist["removes"] += 1
                if len(b):
                    dist["removes_with_clusters"] += 1; dist["clusters_given_back"] += ncl(b)
                if stt["live"]:
                    dist["removes_beside_other_files"] += 1
                if arg + 1 < len(s["rounds"]):
                    dist["fill_delete_cycles"] += 1
            else:
                dist["remove_refused"] += 1
            continue
        if what == "dec_after_remove":
            # the C05 clause itself on the DEVICE bytes (independent of the model's image): every cluster of the removed file is free
            # again, nothing is lost, the other files are all there
            r_ = s["rounds"][arg]; mr = m["rounds"][arg]
            hv, ents, nents = parse_dec(out)
            want_free = total - sum(ncl(b) for b in stt["live"].values())
            if len(hv) != 5 or int(hv[0]) != len(stt["live"]) or hv[1] != "0" or hv[2] != "0" or int(hv[3]) != want_free:
                viol("after remove %r the device decodes to %s node(s), %s decode / %s well-formedness issue(s) (%s lost), %s free clusters; "
                     "expected %d node(s), no issue, %d free (removing a file gives back all of its clusters)"
                     % (r_["name"], hv[0], hv[1], hv[2], hv[4] if len(hv) > 4 else "?", hv[3] if len(hv) > 3 else "?", len(stt["live"]), want_free),
                     mr["i_remove"], False)
                continue
            if lfn_hex(r_["name"]) in ents and r_["name"] in stt["removed"]:
                viol("after remove %r the entry is still decoded" % r_["name"], mr["i_remove"], False)
            continue
        if what == "digest":
            fp = res[m["p_final"]]
            lib = cvol_corr.md5s(cvol_corr.pages_of(fp)) if fp.kind == "ok" else None
            if lib is None or cvol_corr.parse_digest(out.split(" ")[1:]) != lib:
                mod = cvol_corr.parse_digest(out.split(" ")[1:])
                diff = sorted(o for o in set(lib or {}) | set(mod) if (lib or {}).get(o) != mod.get(o))
                viol("after unmount %d device page(s) differ from the model's image (first at %s)" % (len(diff), diff[0] if diff else "?"),
                     m["p_final"], True)
            continue
        if what == "decp":
            # ---- the property itself on the library's own final dump (independent of the model's image)
            hv, ents, nents = parse_dec(out)
            live = stt["live"]
            problems = []
            if int(hv[0]) != len(live):
                problems.append("%s root nodes, %d files were created and not removed" % (hv[0], len(live)))
            if hv[1] != "0" or hv[2] != "0":
                problems.append("%s decode / %s well-formedness issue(s), %s lost cluster(s)" % (hv[1], hv[2], hv[4]))
            for name, content in live.items():
                content = bytes(content)
                e = ents.get(lfn_hex(name))
                if e is None:
                    problems.append("no entry decoded for %r" % name); continue
                dec = b"" if e[4] == "-" else bytes.fromhex(e[4])
                if int(e[1]) != len(content):
                    problems.append("size field %s, the session observed %d bytes" % (e[1], len(content)))
                if dec != content:
                    problems.append("decoded content (%d bytes) is not the byte array the session observed (%d bytes)" % (len(dec), len(content)))
                if (e[2] == "0") != (len(content) == 0):
                    problems.append("first cluster %s for %d bytes" % (e[2], len(content)))
                if e[3] != ("x" if ncl(content) == 0 else str(ncl(content))):
                    problems.append("chain of %s clusters for %d bytes" % (e[3], len(content)))
            want_free = total - sum(ncl(b) for b in live.values())
            if int(hv[3]) != want_free:
                problems.append("%s free clusters, expected %d" % (hv[3], want_free))
            for r_, ir in zip(s["rounds"], m["reads"]):
                ra = res[ir]
                if r_["name"] in live:
                    back = b"" if ra.payload in ("", "-") else bytes.fromhex(ra.payload)
                    if not ra.ok or back != bytes(live[r_["name"]]):
                        problems.append("after remount the library reads %d bytes back from %r" % (len(back), r_["name"]))
                elif res[ir - 1].kind == "ok":
                    problems.append("after remount %r (removed / never created) can be opened" % r_["name"])
            stl = res[m["i_stats"]]
            if stl.ok and int(stl.payload.split(" ")[2]) != want_free:
                problems.append("stats reports %s free clusters after remount" % stl.payload.split(" ")[2])
            if problems:
                viol("after the session and unmount the independent decoder / a second mount do not see the session's files: %s"
                     % "; ".join(problems), m["i_stats"], False)
                continue
            dist["content_bytes_decoded"] += sum(len(b) for b in live.values())
            rep.distinct(("session", label, s["acc"], tuple((r_["name"], tuple(r_["ops"]), r_["end"], r_["remove"]) for r_ in s["rounds"])))
    rep.cov["session_corr_sessions"] = len(sessions_)
    rep.cov["session_corr_distribution"] = dist
    rep.cov["session_corr_rule"] = ("1-3 files per freshly formatted FAT12/16 volume (%d configurations, device fill bytes 0x00/0xD1/0xE5/0xFF, with and "
                                    "without label, 1-2 FAT copies); per file: create_file under a scripted clock; 0-%d write/read/seek/truncate calls "
                                    "each under its own clock value; flush / drop / both; then in 3 of 5 cases drop + remove(name) (fill / delete "
                                    "cycles, removes beside other files); mounted with status byte 0 / 1 / 2 / 3 / 4 / 0x84 / 0xFC / 0xFF; WHOLE device (status byte "
                                    "included, unmasked) vs model image after create, every call, flush, remove, "
                                    "unmount; Spec/Abs + Spec/Wf on the device after every remove and on the library's final dump vs the observed "
                                    "byte arrays; remount read-back" % (len(CONFS), nops))
    if sessions_:
        s0 = sessions_[0]
        rep.sample({"session": {"volume": s0["conf"][0], "update_accessed_date": s0["acc"],
                                "rounds": [{"name": r_["name"], "ops": [o[:50] for o in r_["ops"][:6]], "end": r_["end"], "remove": r_["remove"]}
                                           for r_ in s0["rounds"]]}})
