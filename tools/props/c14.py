"""C14 - flushed file data survives a power cut: after every successful flush/drop of a file handle the judge records
(path, content); after EVERY later device write (each a possible crash point: everything after it is lost) the raw image
is decoded by the independent decoder (Spec/Abs.v) and the file must be found under its name with exactly that content,
as long as the file itself was not modified again.  The flush itself must end with a device flush."""
import vlib, sessions
from vlib import hexs
from props import sess_common as sc

PROP_FILES = ["Props/C14.v"]

def run(rep, tier, seed):
    rng = vlib.Rng(seed)
    confs = [c for c in sessions.configs(tier) if not c[0].startswith("fat32") and not c[0].startswith("fat16")]
    big = [c for c in sessions.configs(tier) if c[0].startswith("fat32") or c[0].startswith("fat16")]
    n = 36 if tier == "quick" else 500
    scripts = []
    for i in range(n):
        conf = confs[i % len(confs)] if (i % 9 or tier == "quick" and i % 18) else big[(i // 9) % len(big)]
        g = sessions.Gen(rng, True, True)
        toks = conf[2].split()
        bps = 512 if toks[1] == "-" else int(toks[1]); g.cluster = bps if toks[3] == "-" else int(toks[3])
        head = ["dev %d 0" % conf[1], "wlog 0", conf[2], "pages", "wlog 1", "mount 1 0 lossy"]
        if i % 3 == 1:
            # the volume is already marked dirty when it is mounted (an earlier session ended without unmount; the library never
            # clears that bit): flush and drop must reach the storage all the same
            head = ["dev %d 0" % conf[1], "wlog 0", conf[2], "poke %d %s" % (65 if conf[0].startswith("fat32") else 37, rng.choice(["01", "01", "03", "81"])),
                    "pages", "wlog 1", "mount 1 0 lossy"]
        nops = 30
        while len(g.lines) < nops:
            # more flush points than the default mix
            if g.fh and rng.chance(1, 5):
                h = rng.choice(sorted(g.fh)); g.emit("flush %d" % h)
            else:
                g.step()
        # closing by drop alone (no explicit flush), with a clock that does not advance: an in-place overwrite changes neither
        # size nor time stamp, an empty file created in a sub-directory changes no entry of an open handle
        k = rng.range(600, 1400)
        tail = ["drop_all",
                "create_file 0 %s 70" % hexs("durable one.bin"), "write_pat 70 %d 11" % (k + rng.range(100, 900)), "drop_file 70",
                "open_file 0 %s 71" % hexs("durable one.bin"), "seek 71 start %d" % rng.range(0, k - 200), "write_pat 71 %d 12" % rng.range(1, 200), "drop_file 71",
                "create_dir 0 %s 72" % hexs("durable dir"), "drop_dir 72",
                "create_file 0 %s 73" % hexs("durable dir/empty.txt"), "drop_file 73",
                "open_file 0 %s 74" % hexs("durable one.bin"), "write_pat 74 %d 13" % rng.range(1, 300), "flush 74", "seek 74 start 3", "write_pat 74 5 14", "drop_file 74"]
        scripts.append(head + g.lines + tail + ["drop_all", "unmount"])
    # log rotation over two mounts: a file is emptied (truncate at 0) and closed, the volume unmounted; the next session writes it
    # again and flushes, then OTHER files are created and written (on FAT12/16 the allocation search restarts at the first
    # cluster after a mount): what was flushed must still be there after every one of those writes
    for conf in (confs[:3] if tier == "quick" else confs) + big[:1]:
        hx = hexs
        for variant in range(2):
            rot = ["dev %d 0" % conf[1], "wlog 0", conf[2], "pages", "wlog 1", "mount 1 0 lossy",
                  "create_file 0 %s 1" % hx("LOG.TXT"), "write_pat 1 %d 21" % (600 if variant == 0 else 5000), "flush 1", "seek 1 start 0", "truncate 1", "flush 1", "drop_file 1"]
            if variant == 1:
                rot += ["create_file 0 %s 2" % hx("kept.bin"), "write_pat 2 900 22", "drop_file 2"]
            rot += ["drop_all", "unmount", "mount 1 0 lossy",
                   "open_file 0 %s 3" % hx("LOG.TXT"), "write_pat 3 %d 23" % (80 if variant == 0 else 1300), "flush 3", "drop_file 3",
                   "create_file 0 %s 4" % hx("OTHER.BIN"), "write_pat 4 2000 24", "flush 4", "drop_file 4",
                   "create_dir 0 %s 5" % hx("newdir"), "create_file 5 %s 6" % hx("inner.txt"), "write_pat 6 700 25", "drop_file 6",
                   "open_file 0 %s 7" % hx("LOG.TXT"), "read_all 7 10000", "drop_all", "unmount"]
            scripts.append(rot)
    flags = ("tree", "crash") if tier == "quick" else ("tree", "crash")
    judged = sessions.run_judged(scripts, flags=flags, shards=16)
    total_checks = 0; flushes = 0
    for jd in judged:
        rep.count()
        f = sc.Findings(jd)
        ok = sc.report(rep, jd, f, (), "C14")
        upto = f.stop_at if f.stop_at is not None else len(jd.ops)
        total_checks += jd.crash_checks
        for (oi, wi, path) in jd.crash:
            if oi > upto:
                break
            ok = False
            fname = bytes.fromhex(path).decode("utf-8", "replace") if path != "-" else "/"
            if wi == -1:
                rep.violation("[C14] %s returned Ok but the storage was not flushed after the last write that file %s needs: a power cut losing "
                              "everything after the last device flush does not leave the file with the content it had when the call returned"
                              % (sc.short(jd.ops[oi].line, 60), fname), {"script": sc.script_prefix(jd, oi), "crash_after_write": "last-device-flush"})
            else:
                rep.violation("[C14] power cut after device write #%d of %s: file %s (flushed earlier, not modified since) is not found with its flushed content"
                              % (wi, sc.short(jd.ops[oi].line, 60), fname),
                              {"script": sc.script_prefix(jd, oi), "crash_after_write": wi})
            break
        for oi, o in enumerate(jd.ops[:upto]):
            if sc.opname(o) in ("flush", "drop_file") and o.kind == "ok":
                flushes += 1
                evs = [e for e in o.events if e[0] in ("w", "f")]
                # flush: always ends with a device flush; drop: whatever it writes must be followed by a device flush
                if (sc.opname(o) == "flush" and not evs) or (evs and evs[-1][0] != "f"):
                    ok = False
                    rep.violation("[C14] %s returned Ok but the storage was not flushed after its last write" % sc.short(o.line, 40),
                                  {"script": sc.script_prefix(jd, oi)})
                    break
        if ok:
            rep.distinct(tuple(jd.script[5:]))
    rep.cov["crash_point_checks"] = total_checks
    sessions.run_crash_continue(rep, "C14", rng, tier, "content")
    rep.cov["flush_calls"] = flushes
    rep.cov["traces_validated_against_impl"] = len(judged)
    rep.cov["distribution"] = sc.distribution(judged)
    rep.cov["rule"] = ("random histories with extra flush points; a fact (path, content) is recorded at every successful flush/drop of a file "
                       "handle and withdrawn when that file is written/truncated again or any remove/rename happens; after every later device "
                       "write the image is decoded independently and every standing fact re-checked (crash_point_checks counts fact x crash point); "
                       "distinct = op sequences without finding")
    rep.sample({"config": scripts[0][2], "ops": [sc.short(l, 80) for l in scripts[0][6:16]]})
