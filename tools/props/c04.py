"""C04 - what a session saw is what is on the disk: at remount points the handles are dropped, the volume unmounted and
mounted again and traversed completely through the library (every directory listed, every file read, extents read from the
raw image); independently the raw image is decoded by Spec/Abs.v after every op and compared with the abstract state."""
import vlib, sessions
from vlib import hexs
from props import sess_common as sc
from props import volfile_corr
from props import csess_corr
from props import csess2_corr

PROP_FILES = ["Props/C04.v"]

def traversal(g):
    lines = []
    h = 900
    for d in sorted(g.dirs):
        if d == ():
            lines.append("list 0")
        else:
            h += 1
            lines += ["open_dir 0 %s %d" % (hexs("/".join(d)), h), "list %d" % h, "drop_dir %d" % h]
    for f in sorted(g.files):
        h += 1
        lines += ["open_file 0 %s %d" % (hexs("/".join(f)), h), "read_all %d 200000" % h, "extents %d" % h, "drop_file %d" % h]
    return lines

def remount_session(rng, conf, nops, points):
    label, size, fmt = conf
    g = sessions.Gen(rng, True, True)
    toks = fmt.split()
    bps = 512 if toks[1] == "-" else int(toks[1])
    g.cluster = bps if toks[3] == "-" else int(toks[3])
    head = [sessions.dev_line(rng, size), "wlog 0", fmt, "pages", "wlog 1", "mount 1 0 lossy"]
    for k in range(points):
        target = len(g.lines) + nops // points
        while len(g.lines) < target:
            g.step()
        g.fh.clear(); g.dh = {0: ()}
        how = rng.choice(["unmount", "unmount", "dropfs"])
        g.lines += ["drop_all", how, "mount 1 0 lossy"] + traversal(g)
    return head + g.lines

def run(rep, tier, seed):
    rng = vlib.Rng(seed)
    # file level (C04_file_decodes_*): the image-level machine next to the library, and Spec/Abs.v decoding the DEVICE bytes of
    # one file after every history (chain walk, content, extents) - props/volfile_corr.py
    volfile_corr.stream(rep, tier, vlib.Rng(seed * 104729 + 11), "C04")
    # the composition through the directory entry (C04_session_*): format ; create_file ; calls under a scripted clock ; flush /
    # drop ; unmount - the extracted Model/VolSession.v next to the library, WHOLE device image compared after every call, and
    # Spec/Abs + Spec/Wf on the library's final dump against the byte array the session observed - props/csess_corr.py
    csess_corr.stream(rep, tier, vlib.Rng(seed * 104729 + 29), "C04")
    # several files per session (C04_session2_*, C02_image_interleaved_*, C14_session2_*): 2-3 handles created in the root, calls
    # interleaved under a scripted clock, flush / drop of single handles in random order - the extracted Model/VolSession2.v next
    # to the library, WHOLE device and DURABLE device image compared after every call, Spec/Abs on the device after every call
    # against the facts of the flushed files - props/csess2_corr.py
    csess2_corr.stream(rep, tier, vlib.Rng(seed * 104729 + 31), "C04")
    confs = sessions.configs(tier)
    n = 60 if tier == "quick" else 1000
    scripts = []
    for i in range(n):
        conf = confs[i % len(confs)]
        if conf[0].startswith("fat32") and tier == "quick" and i % 3:
            conf = confs[rng.below(7)]
        scripts.append(remount_session(rng, conf, 36, 3))
    small512 = [c for c in confs if c[0] in ("fat12-small", "fat12-1fat", "fat16-min", "fat32-min", "fat12-default-1M")]
    for i in range(24 if tier == "quick" else 300):
        conf = small512[i % len(small512)]
        if tier == "quick" and conf[0] == "fat32-min" and i > 10:
            conf = small512[0]
        scripts.append(sessions.dir_heavy_session(rng, conf, nfiles=rng.range(8, 16)))
    # root entry counts that do not fill whole sectors (the specification rounds the root region UP to whole sectors; the data area
    # starts behind it): library and independent decoder must place every cluster alike
    for k, conf in enumerate([("fat12-root100", 2000 * 512, "format 512 2000 512 12 100 2 - - -"), ("fat16-root17", 5000 * 512, "format 512 5000 512 16 17 2 - - -"),
                              ("fat12-s4k-root224", 300 * 4096, "format 4096 300 4096 12 224 1 - - -"), ("fat12-s1k-root33", 900 * 1024, "format 1024 900 1024 12 33 2 - - -")]):
        if tier != "quick" or k < 2:
            for j in range(1 if tier == "quick" else 5):
                scripts.append(remount_session(rng, conf, 24, 2))
    # directories without room (full fixed root / chain directory on a full volume): failed creates leave orphan long-name slots
    # behind, later entries land directly behind them - the library's listing after remount and the independent decode must agree
    for i in range(4 if tier == "quick" else 40):
        scripts.append(sessions.full_dir_session(rng, "root" if i % 2 else "chain") + ["mount 1 0 lossy", "list 0", "unmount"])
    # volumes exactly at the cluster counts where the FAT width changes (4084|4085, 65524|65525): the width follows from the
    # count alone, the library and the independent decoder must agree on it (geometry found through the boot-sector hook)
    for (clusters, start) in ((4084, 4090), (4085, 4090), (65524, 65600), (65525, 65600)):
        r = vlib.sectors_for_clusters(512, 512, clusters, start)
        if r is None:
            continue
        ts, bits = r
        conf = ("fat%d-%dclusters" % (bits, clusters), ts * 512, "format 512 %d 512 - %s 2 - - -" % (ts, "-"))
        for k in range(1 if tier == "quick" else 6):
            scripts.append(remount_session(rng, conf, 24, 2))
    # FAT32 objects whose first cluster needs the high word of the entry, then loses it again
    for i in range(2 if tier == "quick" else 20):
        scripts.append(sessions.fat32_high_cluster_session(rng))
    scripts += [sc_ for _, sc_ in sessions.matrix_sessions(rng, tier)]        # the standard script (with its remount) on every boundary volume
    judged = sessions.run_judged(scripts, flags=("tree",), shards=16)
    remounts = 0
    for jd in judged:
        f = sc.Findings(jd)
        rep.count()
        remounts += sum(1 for o in jd.ops if o.line.startswith("mount")) - 1
        if sc.report(rep, jd, f, ("tree", "file", "match"), "C04"):
            rep.distinct(tuple(jd.script[6:]))
    rep.cov["remount_points"] = remounts
    rep.cov["traces_validated_against_impl"] = len(judged)
    rep.cov["distribution"] = sc.distribution(judged)
    rep.cov["rule"] = ("random histories with 3 remount points each (drop all handles; unmount or drop the file system; mount; list every "
                       "directory, read every file completely, read its extents from the raw image); the abstract machine judges every listing/"
                       "read, and the independent decoder's tree is compared with the abstract tree after every op; distinct = distinct op "
                       "sequences without finding")
    rep.sample({"config": scripts[0][2], "ops": [sc.short(l, 80) for l in scripts[0][6:16]]})
