"""C13 - read-only use never writes: populated volumes, then sessions of only non-mutating calls, ended by drop or unmount;
any device write in that phase is a violation (exception: FAT32 stats when the FS-info sector has no free count)."""
import vlib, sessions
from vlib import hexs
from props import sess_common as sc
from props import cfsinfo_corr

PROP_FILES = ["Props/C13.v"]

def run(rep, tier, seed):
    rng = vlib.Rng(seed)
    confs = sessions.configs(tier)
    n = 60 if tier == "quick" else 900
    scripts = []; metas = []
    for i in range(n):
        conf = confs[i % len(confs)]
        if conf[0].startswith("fat32") and tier == "quick" and i % 2:
            conf = confs[rng.below(7)]
        is32 = conf[0].startswith("fat32")
        g = sessions.Gen(rng, True, True)
        head = ["dev %d 0" % conf[1], "wlog 0", conf[2], "pages", "wlog 1", "mount 1 0 lossy"]
        while len(g.lines) < 25:
            g.step()
        setup = head + g.lines + ["drop_all", "unmount"]
        dirty = rng.chance(1, 3)
        nocount = is32 and rng.chance(1, 3)
        force_stats = False
        pokes = []
        # a volume another system marked dirty / hard-error in the second FAT entry (this library never writes those bits)
        fatdirty = not conf[0].startswith("fat12") and rng.chance(1, 3)
        if fatdirty:
            from props import c05
            gm = c05.geom_of(conf)
            for k in range(gm.fats):
                base = (gm.reserved + k * gm.spf) * gm.bps
                if is32:
                    pokes.append("poke %d %s" % (base + 4, (0x07FFFFFF if rng.chance(1, 2) else 0x0BFFFFFF).to_bytes(4, "little").hex()))
                else:
                    pokes.append("poke %d %s" % (base + 2, (0x7FFF if rng.chance(1, 2) else 0xBFFF).to_bytes(2, "little").hex()))
        if dirty:
            pokes.append("poke %d 01" % (65 if is32 else 37))
        fsi_free_off = (512 * 1 + 488 if "1024" not in conf[2].split()[1] else 1024 + 488)
        if nocount:
            pokes.append("poke %d ffffffff" % fsi_free_off)
        elif is32 and rng.chance(1, 2):
            # the sector HAS a count, at a boundary of its range (0 = "volume full", 1, a large one): a stored count is a stored
            # count - statistics must not store anything
            pokes.append("poke %d %s" % (fsi_free_off, rng.choice([0, 0, 1, 2, 1000]).to_bytes(4, "little").hex()))
            force_stats = True
        ro = sessions.Gen(rng, False, True)
        ro.dirs = dict(g.dirs); ro.files = dict(g.files); ro.cluster = g.cluster
        ro.nexth = 500
        ro_lines_start = len(setup) + len(pokes) + 1
        if force_stats:
            ro.emit("stats")
        while len(ro.lines) < 30:
            k = rng.below(10)
            if k == 0: ro.emit("stats")
            elif k == 1: ro.emit("status_flags")
            elif k == 2: ro.emit("label"); ro.emit("label_root")
            else: ro.step()
        end = rng.choice(["unmount", "dropfs"])
        s = setup + pokes + ["mount 1 0 lossy"] + ro.lines + ["drop_all", end]
        scripts.append(s); metas.append((ro_lines_start, is32, dirty, nocount))
    # deterministic family: FAT32, the information sector HAS a count at a boundary of its range; statistics, then close
    for conf in [c for c in confs if c[0].startswith("fat32")]:
        fsi_free_off = (512 * 1 + 488 if "1024" not in conf[2].split()[1] else 1024 + 488)
        for cnt in (0, 1, 2):
            for end in ("unmount", "dropfs"):
                setup = ["dev %d 0" % conf[1], "wlog 0", conf[2], "pages", "wlog 1", "mount 1 0 lossy",
                         "create_file 0 %s 1" % hexs("some file.txt"), "write_pat 1 3000 1", "drop_all", "unmount",
                         "poke %d %s" % (fsi_free_off, cnt.to_bytes(4, "little").hex()), "mount 1 0 lossy"]
                ro_lines = ["stats", "list 0", "open_file 0 %s 2" % hexs("some file.txt"), "read_all 2 5000", "stats", "status_flags", "drop_all", end]
                scripts.append(setup + ro_lines); metas.append((len(setup), True, False, False))
    # deterministic family: the volume is dirty because a shrinking truncate (or a growing write) was interrupted - the table was
    # updated at once, the entry's size only at close, and the handle was never closed (`forget`).  Such a volume is "dirty at
    # mount"; the read-only session seeks to / beyond the end of the surviving chain, to the recorded size and past it
    for conf in confs:
        for variant in ("shrink", "shrink0", "grow"):
            for end in ("unmount", "dropfs"):
                nm = hexs("victim file.bin")
                setup = ["dev %d 0" % conf[1], "wlog 0", conf[2], "pages", "wlog 1", "mount 1 0 lossy",
                         "create_file 0 %s 1" % nm, "write_pat 1 70000 3", "drop_all",
                         "create_file 0 %s 2" % hexs("other.txt"), "write_pat 2 900 4", "drop_all", "unmount", "mount 1 0 lossy",
                         "open_file 0 %s 3" % nm]
                if variant == "shrink":
                    setup += ["seek 3 start 700", "truncate 3"]
                elif variant == "shrink0":
                    setup += ["seek 3 start 0", "truncate 3"]
                else:
                    setup += ["seek 3 end 0", "write_pat 3 50000 5"]
                setup += ["forget", "mount 1 0 lossy"]
                ro_lines = ["list 0", "open_file 0 %s 4" % nm, "seek 4 end 0", "read 4 100", "seek 4 start 69999", "read 4 10",
                            "seek 4 start 700", "read 4 5000", "seek 4 start 200000", "seek 4 cur 0", "read_all 4 200000", "extents 4",
                            "open_file 0 %s 5" % hexs("other.txt"), "read_all 5 2000", "status_flags", "drop_all", end]
                scripts.append(setup + ro_lines); metas.append((len(setup), conf[0].startswith("fat32"), True, False))
    res = vlib.run_scripts(scripts)
    ro_calls = 0
    for sc_lines, ops, (start, is32, dirty, nocount) in zip(scripts, res, metas):
        rep.count()
        ok = True
        stats_called = False
        for oi, o in enumerate(ops):
            if o.kind in ("panic", "hang"):
                ok = False
                rep.violation("[C13] %s -> %s" % (sc.short(o.line), o.kind), {"script": sc_lines[:oi + 1]}); break
            if oi < start:
                continue
            ro_calls += 1
            if sc.opname(o) == "stats":
                stats_called = True
            ws = o.writes()
            if not ws:
                continue
            # exception of the property: stats on FAT32 without a stored free count may store the recomputed count
            fsinfo_only = all(512 <= off < 1024 + 512 and off // 512 >= 1 for off, hx, d in ws) and is32
            if fsinfo_only and stats_called and nocount:
                continue
            if fsinfo_only and stats_called and dirty and "dirty-mount-stats-writes-fsinfo" in sc.KF:
                rep.known_finding(sc.kf_text("dirty-mount-stats-writes-fsinfo"))
                continue
            ok = False
            rep.violation("[C13] read-only session wrote to the storage: %s issued %d device write(s), first at offset %d"
                          % (sc.short(o.line, 60), len(ws), ws[0][0]), {"script": sc_lines[:oi + 1]})
            break
        if ok:
            rep.distinct(tuple(sc_lines[start:]))
    rep.cov["readonly_calls"] = ro_calls
    rep.cov["traces_validated_against_impl"] = len(scripts)
    rep.cov["rule"] = ("volumes populated by a random mutating history and unmounted; optionally the dirty bit set / the FS-info free count "
                       "erased; then mounted and driven by 30 non-mutating calls (list, open, seek, read, extents, label, status_flags, stats), "
                       "ended by unmount or drop; every device write in that phase is counted; distinct = distinct read-only op sequences without write")
    rep.sample({"readonly_ops": [sc.short(l, 70) for l in scripts[0][metas[0][0]:metas[0][0] + 10]]})
    # FAT32 at image level (Model/VolFsInfo.v): read-only and mutating sessions on volumes whose FS-info words / status byte are
    # pre-set; the extracted machine against the device after every call, the C13 clause evaluated on the device's write log
    cfsinfo_corr.stream(rep, tier, vlib.Rng(seed * 2731 + 1313), "C13", n=10 if tier == "quick" else 280)
