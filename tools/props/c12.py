"""C12 - the dirty bit brackets structural changes: status byte (from the raw image) examined at every call boundary of
mutating histories, for pre-set status bytes, with clean unmount, drop, and abandonment + remount."""
import vlib, sessions
from props import sess_common as sc
from props import csess_corr
from props import cfsinfo_corr

PROP_FILES = ["Props/C12.v"]

def run(rep, tier, seed):
    rng = vlib.Rng(seed)
    confs = [c for c in sessions.configs(tier)]
    n = 64 if tier == "quick" else 1000
    scripts = []; metas = []
    for i in range(n):
        conf = confs[i % len(confs)]
        if conf[0].startswith("fat32") and tier == "quick" and i % 3:
            conf = confs[rng.below(7)]
        b0 = rng.choice([0, 0, 0, 1, 2, 3, 4, 0x80, 0xFC, 0xFF, rng.below(256)])
        off = 65 if conf[0].startswith("fat32") else 37
        label, size, fmt = conf
        g = sessions.Gen(rng, True, True)
        toks = fmt.split()
        bps_ = 512 if toks[1] == "-" else int(toks[1])
        g.cluster = bps_ if toks[3] == "-" else int(toks[3])
        nops = rng.range(3, 30)
        while len(g.lines) < nops:
            g.step()
        s = ["dev %d 0" % size, "wlog 0", fmt, "pages", "wlog 1", "poke %d %02x" % (off, b0), "mount 1 0 lossy"] + g.lines
        if i % 4 == 3:
            # a boot sector without the extended boot signature 0x29 (volume id / label / type absent: the specification allows it,
            # this library's formatter never writes it): the status byte next to it means the same
            s[5:6] = ["poke %d %02x" % (off, b0), "poke %d %s" % (off + 1, rng.choice(["00", "28"]) + "00" * 23)]
        end = rng.choice(["unmount", "dropfs", "forget", "forget"])
        if end != "forget" and g.files and rng.chance(2, 3):
            # a second session on the cleanly closed volume whose FIRST change is one particular kind of structural change
            fpath = sessions.hexs("/".join(rng.choice(sorted(g.files))))
            first = rng.choice([
                ["open_file 0 %s 800" % fpath, "seek 800 start %d" % rng.choice([1, 2, 100, g.cluster - 1, g.cluster]), "truncate 800", "drop_file 800"],
                ["open_file 0 %s 800" % fpath, "write 800 %s" % sessions.hexs(b"in-place"), "drop_file 800"],
                ["open_file 0 %s 800" % fpath, "seek 800 end 0", "write_pat 800 %d 4" % rng.range(1, 2 * g.cluster), "flush 800"],
                ["remove 0 %s" % fpath],
                ["rename 0 %s 0 %s" % (fpath, sessions.hexs("renamed in second session.x"))],
                ["create_dir 0 %s 0" % sessions.hexs("dir made in second session")],
            ])
            s += ["drop_all", end, "mount 1 0 lossy"] + first
            end = rng.choice(["unmount", "forget", "forget"])
        s += ["drop_all", end] if end != "forget" else ["forget"]
        s += ["mount 1 0 lossy", "status_flags", "unmount"]
        scripts.append(s); metas.append((b0, end))
    # deterministic family: on a cleanly closed volume of every FAT width the FIRST change of the second session is each kind of
    # structural change in turn (for truncate: every position class - inside / at the end of the last cluster, which frees nothing,
    # inside an earlier cluster, at 0), the session is then abandoned or unmounted
    widths = [c for c in confs if c[0] in ("fat12-small", "fat16-min", "fat32-min")]
    for conf in widths:
        label, size, fmt = conf
        toks = fmt.split()
        cl = (512 if toks[1] == "-" else int(toks[1])) if toks[3] == "-" else int(toks[3])
        off = 65 if label.startswith("fat32") else 37
        fpath = sessions.hexs("two and a half clusters.bin")
        firsts = [["open_file 0 %s 800" % fpath, "seek 800 start %d" % pos, "truncate 800", "drop_file 800"]
                  for pos in (2 * cl + 1, 2 * cl + cl // 2, 3 * cl - 1, cl + 1, 2 * cl, cl, 1, 0)]
        firsts += [["open_file 0 %s 800" % fpath, "write 800 %s" % sessions.hexs(b"in-place"), "drop_file 800"],
                   ["open_file 0 %s 800" % fpath, "seek 800 end 0", "write_pat 800 %d 4" % (cl // 2 - 1), "flush 800"],
                   ["open_file 0 %s 800" % fpath, "seek 800 end 0", "write_pat 800 %d 4" % cl, "flush 800"],
                   ["remove 0 %s" % fpath],
                   ["rename 0 %s 0 %s" % (fpath, sessions.hexs("renamed in second session.x"))],
                   ["create_dir 0 %s 0" % sessions.hexs("dir made in second session")],
                   ["create_file 0 %s 801" % sessions.hexs("empty made in second session"), "drop_file 801"]]
        for k, first in enumerate(firsts):
            end = ("forget", "unmount", "dropfs")[k % 3] if tier == "quick" else None
            for e in ([end] if end else ["forget", "unmount", "dropfs"]):
                s = ["dev %d 0" % size, "wlog 0", fmt, "pages", "wlog 1", "poke %d %02x" % (off, 0), "mount 1 0 lossy",
                     "create_file 0 %s 700" % fpath, "write_pat 700 %d 9" % (2 * cl + cl // 2), "drop_file 700", "drop_all", "unmount",
                     "mount 1 0 lossy"] + first
                s += ["drop_all", e] if e != "forget" else ["forget"]
                s += ["mount 1 0 lossy", "status_flags", "unmount"]
                scripts.append(s); metas.append((0, e))
    judged = sessions.run_judged(scripts, flags=("tree", "regions", "info"), shards=16)
    boundaries = 0
    for jd, (b0, end) in zip(judged, metas):
        rep.count()
        f = sc.Findings(jd)
        ok = sc.report(rep, jd, f, (), "C12")
        upto = f.stop_at if f.stop_at is not None else len(jd.ops)
        structural = False
        abandoned_structural = False
        mounted = False
        for oi, o in enumerate(jd.ops[:upto]):
            name = sc.opname(o)
            if name == "mount":
                if o.kind != "ok":
                    break
                mounted = True
                structural = False
            for (r1, r2, st, off, ln, depth) in jd.regions.get(oi, []):
                if st:
                    structural = True
            info = jd.info.get(oi)
            if info is None or not mounted:
                continue
            status = int(info["status"])
            boundaries += 1
            bad = None
            if name in ("unmount", "dropfs") and o.kind == "ok":
                mounted = False
                if oi < len(jd.ops) - 1 and status != b0:       # the first unmount of the script
                    bad = "status byte after %s is 0x%02x, it was 0x%02x at mount" % (name, status, b0)
            elif name == "forget":
                mounted = False
                abandoned_structural = structural
                if structural and not status & 1:
                    bad = "volume abandoned after a structural change with status byte 0x%02x (dirty bit clear)" % status
            else:
                if structural and not status & 1:
                    bad = "structural change done but the on-disk status byte is 0x%02x (dirty bit clear) after %s" % (status, sc.short(o.line, 60))
                elif status & b0 != b0 or (status & 0xFC) != (b0 & 0xFC):
                    bad = "status bits set at mount (0x%02x) were changed: 0x%02x after %s" % (b0, status, sc.short(o.line, 60))
            if bad:
                ok = False
                rep.violation("[C12] " + bad, {"script": sc.script_prefix(jd, oi)})
                break
        # abandonment: the remount must report dirty
        if ok and f.stop_at is None and end == "forget":
            st = [o for o in jd.ops if sc.opname(o) == "status_flags"]
            if st and st[-1].kind == "ok" and (abandoned_structural or b0 & 1):
                if st[-1].payload.split(" ")[0] != "1":
                    ok = False
                    rep.violation("[C12] volume abandoned after a structural change is reported clean when mounted again", {"script": jd.script})
        if ok:
            rep.distinct((b0, end, tuple(jd.script[7:])))
    rep.cov["call_boundaries_examined"] = boundaries
    rep.cov["traces_validated_against_impl"] = len(judged)
    rep.cov["distribution"] = sc.distribution(judged)
    rep.cov["rule"] = ("mutating histories of 3-30 calls on FAT12/16 (status byte at 0x25) and FAT32 (0x41) with the status byte pre-set to "
                       "0, 1, 2, 3, 4, 0x80, 0xFC, 0xFF and random values; a structural change = a device write outside the status byte / FS-info "
                       "sector that changes bytes other than time-stamp fields of directory slots (classified by Spec/Regions.v); status byte read "
                       "from the raw image at every call boundary; ends: unmount, drop, or abandonment (forget) followed by remount + status_flags")
    rep.sample({"status_byte_at_mount": metas[0][0], "end": metas[0][1], "ops": [sc.short(l, 80) for l in scripts[0][5:14]]})
    # the dirty bit INSIDE the image model (Model/VolStatus.v; C12_vol_create, C12_vol_file_step, C12_vol_remove_file,
    # C12_vol_unmount_restores): create ; calls ; flush / drop ; remove sessions mounted with status byte 0 / 1 / 2 / 3 / 4 / 0x84 /
    # 0xFC / 0xFF - the WHOLE device, status byte included and unmasked, against the extracted mounted operations after every call
    csess_corr.stream(rep, tier, vlib.Rng(seed * 6151 + 12), "C12", n=12 if tier == "quick" else 200)
    # the FS-info sector and the FAT32 status byte inside the image model (Model/VolFsInfo.v) against the library on FAT32 devices
    cfsinfo_corr.stream(rep, tier, vlib.Rng(seed * 3989 + 1212), "C12", n=10 if tier == "quick" else 280)
