"""C06 - formatting yields a valid empty volume for every accepted request.

proof            Props/C06.v part 1 (totality, error kind, validity of every accepted geometry, default options succeed for
                 42 <= ts < 2^32) over Model/Format.v; part 2 (C06_image_*: boot-sector copies, FAT copies, root directory,
                 free space / FS-info, frame, no panic, decode through Spec/Abs.v + Spec/Wf.v) over Model/FormatImage.v for
                 every request, every 32-bit sector count and every initial device content
correspondence   identical request lines to `fatfs-exec fmtbs` (real library, boot-sector hook) and to the extracted
                 model (`model c06`): outputs must be equal byte for byte;
                 format_image: a few hundred sampled requests per run (all FAT widths, sector sizes 512..4096, 1-2 FATs,
                 root entries, labels incl. 0x00/0xE5/0x05 lead bytes, media, volume ids, explicit and device-derived
                 sector counts, blank and stale devices): the real format_volume runs on a sparse device and EVERY byte of
                 the device afterwards (`pages`) is compared with the image the extracted model computes from the same
                 initial content (`model c06i`) - written regions and untouched remainder alike;
                 the FAT32 BAD-range branch of format_fat (tables reaching entry 0x0FFFFFF0; not computable by the
                 extracted model) is compared on a sparse 128 GiB device with the statement of C06_image_fat
direct checks    on the implementation's own output, independent of the model: no panic, only InvalidInput, every
                 accepted boot sector satisfies the extracted Spec/FormatSpec.v clauses (`model c06v`), default
                 options accepted iff ts >= 42; real format_volume on RAM images: boot sector = hook bytes, mounts
                 (strict), stats free = all clusters (minus root cluster on FAT32), root empty, label, FAT copies
                 equal and empty, FAT32 backup boot sector and FS-info sector
sweep            `fatfs-exec fmtsweep`: the hook for every sector count of a range, run-length encoded; every run is
                 checked at both ends against the model and the Spec clauses (all clauses are monotone in ts inside
                 a run); thorough tier: the whole range 0 .. 2^32-1 for default options (debug build)."""
import concurrent.futures as cf
import collections, time
import vlib, fatimg

PROP_FILES = ["Props/C06.v"]
VARIANTS = ["default", "release"]

U32 = 2**32 - 1
BPS_ALL = [512, 1024, 2048, 4096, 8192, 16384, 32768]
BPS_OK = [512, 1024, 2048, 4096]
ROOTS = [0, 1, 15, 16, 17, 512, 65535]
BYTE_THRESHOLDS = [4200 * 1024, 512 << 20, 16 << 20, 128 << 20, 260 << 20, 8 << 30] + [1 << k for k in range(9, 48)]
CLUSTER_LIMITS = [4084, 4085, 65524, 65525, 0x0FFFFFF4, 0x0FFFFFF5]


def mkline(bps, ts, bpc, fat, root, fats, media="-", volid="-", label="-"):
    return "%s %d %s %s %s %s %s %s %s" % (bps, ts, bpc, fat, root, fats, media, volid, label)


def cfg_vals(bps, root, fats):
    return (512 if bps == "-" else bps, 512 if root == "-" else root, 2 if fats == "-" else fats)


def breakpoints(bps, bpc, fat, root, fats):
    """sector counts around every threshold of the sizing code for one configuration"""
    b, r, f = cfg_vals(bps, root, fats)
    out = set(range(0, 51))
    for t in BYTE_THRESHOLDS:
        for d in (-2, -1, 0, 1, 2):
            out.add(t // b + d)
    for k in range(0, 33):
        for d in (-1, 0, 1):
            out.add((1 << k) + d)
    for base in (65535, 65536, U32):
        for d in (-2, -1, 0, 1, 2):
            out.add(base + d)
    rds = (r * 32 + b - 1) // b
    for res, rr in ((1, rds), (8, 0)):
        for d in (-2, -1, 0, 1, 2):
            out.add(res + rr + 8 + d)
    # cluster-count limits of the three FAT types, when the cluster size is known
    spcs = [bpc // b] if (bpc != "-" and 1 <= bpc // b <= 255) else [1, 2, 4, 8, 16, 32, 64]
    for spc in spcs:
        for bits, res, rr in ((12, 1, rds), (16, 1, rds), (32, 8, 0)):
            for c in CLUSTER_LIMITS:
                spf = ((c + 2) * bits + b * 8 - 1) // (b * 8)
                ts0 = res + rr + f * spf + c * spc
                ds = range(-spc - 3, spc + 4) if spc <= 4 else list(range(-3, 4)) + [-spc - 1, -spc, -spc + 1, spc - 1, spc, spc + 1, 2 * spc]
                for d in ds:
                    out.add(ts0 + d)
    return sorted(t for t in out if 0 <= t <= U32)


def boundary_configs(rng, tier):
    confs = [("-", "-", "-", "-", "-")]
    full = []
    for bps in BPS_ALL:
        bpcs = ["-"] + [bps << j for j in range(0, 8)] + [bps << 8, 1 << 31]
        if bps > 512:
            bpcs.append(bps >> 1)
        for bpc in bpcs:
            if bpc != "-" and not (512 <= bpc <= (1 << 31)):
                continue
            for fat in ("-", 12, 16, 32):
                for root in ["-"] + ROOTS:
                    for fats in ("-", 1):
                        full.append((bps, bpc, fat, root, fats))
    rng.shuffle(full)
    # always: every sector size x every FAT type with default cluster size
    for bps in BPS_ALL:
        for fat in ("-", 12, 16, 32):
            confs.append((bps, "-", fat, "-", "-"))
    n = 200 if tier == "quick" else 2600
    return confs + full[:n]


def random_lines(rng, n):
    """dense seeded grid, mostly requests that have a chance to be accepted"""
    out = []
    for _ in range(n):
        bps = rng.choice(["-", 512, 512, 1024, 2048, 4096, 4096] + ([8192, 16384, 32768] if rng.chance(1, 6) else []))
        b = 512 if bps == "-" else bps
        k = rng.below(10)
        if k < 3:
            ts = rng.range(0, 70000)
        elif k < 7:
            e = rng.range(0, 31)
            ts = rng.range(1 << e, (1 << (e + 1)) - 1)       # log-uniform
        elif k < 9:
            ts = rng.range(0, U32)
        else:
            ts = rng.choice([1 << rng.range(0, 32), (1 << rng.range(1, 32)) - 1, U32 - rng.below(4), rng.below(64)])
        ts = min(ts, U32)
        k = rng.below(10)
        if k < 4:
            bpc = "-"
        elif k < 9:
            bpc = b << rng.range(0, 7)
        else:
            bpc = 1 << rng.range(9, 31)
        fat = rng.choice(["-", "-", "-", 12, 16, 32])
        root = rng.choice(["-", "-", 512, 0, 1, 15, 16, 17, 65535, rng.range(0, 65535), 16 * rng.range(1, 64)])
        fats = rng.choice(["-", 1, 2])
        media = rng.choice(["-", "-", "-", rng.range(0, 255)])
        volid = rng.choice(["-", "-", "-", rng.range(0, U32)])
        label = "-" if rng.chance(3, 4) else bytes(rng.range(32, 126) for _ in range(11)).hex()
        out.append(mkline(bps, ts, bpc, fat, root, fats, media, volid, label))
    return out


def targeted_lines(rng, n):
    """requests aimed at a given FAT type and cluster count (so that most are accepted)"""
    out = []
    for _ in range(n):
        b = rng.choice(BPS_OK)
        spc = 1 << rng.range(0, 7)
        bits = rng.choice([12, 16, 32])
        lo, hi = {12: (0, 4084), 16: (4085, 65524), 32: (65525, 0x0FFFFFF4)}[bits]
        if bits == 32 and rng.chance(3, 4):
            hi = 4000000
        c = rng.range(lo, hi) if rng.chance(4, 5) else rng.choice([lo, lo + 1, hi - 1, hi, max(lo - 1, 0), hi + 1])
        root = rng.choice([512, 16, 240, 1, 65535]) if bits != 32 else rng.choice([512, 0])
        fats = rng.choice([1, 2])
        rds = (root * 32 + b - 1) // b if bits != 32 else 0
        res = 8 if bits == 32 else 1
        spf = ((c + 2) * bits + b * 8 - 1) // (b * 8)
        ts = res + rds + fats * spf + c * spc + rng.range(0, spc)
        if ts > U32:
            continue
        fat = rng.choice(["-", bits])
        out.append(mkline(b, ts, b * spc, fat, root, fats))
    return out


def malformed_lines(rng, n):
    out = []
    for _ in range(n):
        bps = rng.choice(BPS_ALL)
        k = rng.below(5)
        ts = min(rng.choice([rng.below(64), rng.range(0, U32), 1 << rng.range(0, 32)]), U32)
        if k == 0:
            out.append(mkline(bps, ts, max(512, bps >> rng.range(1, 6)), rng.choice(["-", 12, 16, 32]), "-", "-"))   # cluster < sector
        elif k == 1:
            out.append(mkline(bps, ts, min(bps << rng.range(8, 16), 1 << 31), "-", "-", "-"))                      # > 255 sectors per cluster
        elif k == 2:
            out.append(mkline(rng.choice([8192, 16384, 32768]), ts, "-", rng.choice(["-", 12, 16, 32]), rng.choice(["-", 65535]), "-"))
        elif k == 3:
            out.append(mkline(rng.choice(BPS_OK), ts, "-", rng.choice([12, 16]), 0, rng.choice(["-", 1])))           # no root entries
        else:
            out.append(mkline(bps, rng.below(80), rng.choice(["-", bps]), rng.choice(["-", 12, 16, 32]), rng.choice(ROOTS), "-"))
    return out


def is_default_request(t):
    return t[0] in ("-", "512") and t[2] == "-" and t[3] == "-" and t[4] in ("-", "512") and t[5] in ("-", "2")


def fmt_script(t):
    """replay script: the same request through the real format_volume on a sparse device"""
    bps = 512 if t[0] == "-" else int(t[0])
    return ["dev %d 0" % min(int(t[1]) * bps, 1 << 44), "wlog 0", "format %s %s %s %s %s %s %s %s %s" % tuple(t)]


class Stats:
    def __init__(self):
        self.outcome = collections.Counter(); self.bps = collections.Counter(); self.fat_req = collections.Counter()
        self.bpc = collections.Counter(); self.root = collections.Counter(); self.ts_log2 = collections.Counter()
        self.fats = collections.Counter(); self.spc_ok = collections.Counter()
        self.viol = []       # (text, replay, nofail)
        self.n = 0; self.ok_keys = set(); self.samples = []

    def merge(self, o):
        for a in ("outcome", "bps", "fat_req", "bpc", "root", "ts_log2", "fats", "spc_ok"):
            getattr(self, a).update(getattr(o, a))
        self.viol += o.viol; self.n += o.n; self.ok_keys |= o.ok_keys
        self.samples = (self.samples + o.samples)[:4]


def process_chunk(lines, release_too=False):
    """one batch: real library (debug) vs model, direct checks on the library's output"""
    st = Stats()
    text = "\n".join(lines) + "\n"
    eo = vlib.exec_raw(["fmtbs"], text).split("\n")[:-1]
    mo = vlib.model_run("c06", text)
    if len(eo) != len(lines) or len(mo) != len(lines):
        st.viol.append(("bulk output length mismatch: exec %d model %d lines %d" % (len(eo), len(mo), len(lines)),
                        {"correspondence": "fmtbs vs model c06"}, True))
        return st
    ro = vlib.exec_raw(["fmtbs"], text, variant="release").split("\n")[:-1] if release_too else None
    vin, vidx = [], []
    for i, (l, e, m) in enumerate(zip(lines, eo, mo)):
        t = l.split(" ")
        st.n += 1
        ek = e.split(" ", 2)
        ts = int(t[1])
        st.bps[t[0]] += 1; st.fat_req[t[3]] += 1; st.fats[t[5]] += 1
        st.bpc["default" if t[2] == "-" else "given"] += 1
        st.root[t[4] if t[4] in ("-", "0", "1", "15", "16", "17", "512", "65535") else "other"] += 1
        st.ts_log2[ts.bit_length()] += 1
        # ---- direct checks (implementation only)
        if ek[0] == "panic":
            st.outcome["panic"] += 1
            msg = bytes.fromhex(ek[1]).decode("utf-8", "replace") if len(ek) > 1 else ""
            st.viol.append(("format panics for a request the builder accepts: fmtbs '%s' -> %s" % (l, msg),
                            {"fmtbs_line": l, "script": fmt_script(t)}, False))
        elif ek[0] == "err":
            st.outcome["err " + ek[1]] += 1
            if ek[1] != "InvalidInput":
                st.viol.append(("format rejects with %s instead of InvalidInput: fmtbs '%s'" % (ek[1], l),
                                {"fmtbs_line": l, "script": fmt_script(t)}, False))
            if is_default_request(t) and ts >= 42:
                st.viol.append(("default options rejected for %d sectors of 512 bytes (must succeed for 42..2^32-1)" % ts,
                                {"fmtbs_line": l, "script": fmt_script(t)}, False))
        elif ek[0] == "ok":
            st.outcome["ok fat" + ek[1]] += 1
            if is_default_request(t) and ts < 42:
                st.viol.append(("default options accepted for %d sectors (< 42)" % ts, {"fmtbs_line": l, "script": fmt_script(t)}, False))
            vin.append("%s %d %s %s" % (ek[2], ts, ek[1], t[3])); vidx.append(i)
        else:
            st.viol.append(("executor output not understood: %s" % e[:80], {"fmtbs_line": l}, True))
        # ---- correspondence
        same = (e == m) if ek[0] != "panic" else (m == "panic")
        if not same:
            st.viol.append(("correspondence Model/Format.v vs src/boot_sector.rs broken: fmtbs '%s': library %s, model %s"
                            % (l, e[:90], m[:90]), {"fmtbs_line": l, "script": fmt_script(t),
                                                   "theorem_or_correspondence": "format_boot_sector_bytes (model c06) vs verif_hooks::format_boot_sector_bytes"}, True))
        elif ek[0] != "panic":
            if ek[0] == "ok":
                st.ok_keys.add(hash(l))
        if ro is not None and ro[i] != e and ek[0] != "panic":
            st.viol.append(("release build differs from debug build: fmtbs '%s': debug %s release %s" % (l, e[:90], ro[i][:90]),
                            {"fmtbs_line": l, "script": fmt_script(t)}, False))
    if vin:
        vo = vlib.model_run("c06v", "\n".join(vin) + "\n")
        go = vlib.model_run("c06g", "\n".join(x.split(" ", 1)[0] for x in vin[:200]) + "\n")
        for j, (i, v) in enumerate(zip(vidx, vo)):
            if v != "valid":
                st.viol.append(("accepted request yields an invalid boot sector (clauses %s of Spec/FormatSpec.v): fmtbs '%s'"
                                % (v, lines[i]), {"fmtbs_line": lines[i], "script": fmt_script(lines[i].split(" ")), "clauses": v}, False))
        for j, g in enumerate(go):
            gg = g.split(" ")
            st.spc_ok[gg[1]] += 1
            # the extracted decoder (Model/Format.v fmt_deserialize_boot + Spec geometry) against an independent python decoder
            pg = fatimg.Geom(bytes.fromhex(vin[j].split(" ", 1)[0]))
            if [int(x) for x in gg] != [pg.bps, pg.spc, pg.reserved, pg.fats, pg.root_entries, pg.total_sectors, pg.spf, pg.clusters, pg.first_data]:
                st.viol.append(("extracted boot-sector decoder disagrees with tools/fatimg.py on fmtbs '%s': %s" % (lines[vidx[j]], g),
                                {"fmtbs_line": lines[vidx[j]], "theorem_or_correspondence": "fmt_deserialize_boot / c06g"}, True))
            if len(st.samples) < 2:
                st.samples.append({"fmtbs": lines[vidx[j]], "geometry(bps spc reserved fats root total spf clusters meta)": g})
    return st


def run_bulk(rep, lines, workers, chunk=20000, release_every=0):
    chunks = [lines[i:i + chunk] for i in range(0, len(lines), chunk)]
    tot = Stats()
    with cf.ThreadPoolExecutor(max_workers=workers) as ex:
        futs = [ex.submit(process_chunk, c, release_every and (k % release_every == 0)) for k, c in enumerate(chunks)]
        for f in futs:
            tot.merge(f.result())
    return tot


# ------------------------------------------------------------------------------------------------ sweep
def patch_ts(hx, ts):
    b = bytearray.fromhex(hx)
    if b[19] or b[20]:
        b[19:21] = ts.to_bytes(2, "little")
    else:
        b[32:36] = ts.to_bytes(4, "little")
    return b.hex()


def sweep_piece(args):
    lo, hi, cfg, variant = args
    bps, bpc, fat, root, fats = cfg
    out = vlib.exec_raw(["fmtsweep"], "%d %d %s %s %s %s %s\n" % (lo, hi, bps, bpc, fat, root, fats), variant=variant)
    runs = []
    viol = []
    n_end = None
    for l in out.split("\n"):
        if l.startswith("run "):
            p = l.split(" ", 5)
            runs.append((int(p[1]), int(p[2]), p[3], p[4], p[5] if len(p) > 5 else ""))
        elif l.startswith("end "):
            n_end = int(l[4:])
    if n_end != hi - lo + 1:
        viol.append(("sweep %d..%d incomplete" % (lo, hi), {"correspondence": "fmtsweep"}, True))
    exp = lo
    minp, meta, vin, vmeta = [], [], [], []
    default = cfg == ("-", "-", "-", "-", "-")
    stat = collections.Counter()
    for (a, b, kind, x, hx) in runs:
        if a != exp:
            viol.append(("sweep runs not contiguous at %d" % a, {"correspondence": "fmtsweep"}, True))
        exp = b + 1
        stat[kind + (" fat" + x if kind == "ok" else " " + x[:12])] += b - a + 1
        la, lb = mkline(bps, a, bpc, fat, root, fats), mkline(bps, b, bpc, fat, root, fats)
        if kind == "panic":
            viol.append(("format panics: fmtbs '%s' .. %d" % (la, b), {"fmtbs_line": la, "script": fmt_script(la.split(" "))}, False))
            continue
        if kind == "err":
            if x != "InvalidInput":
                viol.append(("format rejects with %s: fmtbs '%s'" % (x, la), {"fmtbs_line": la, "script": fmt_script(la.split(" "))}, False))
            if default and b >= 42:
                viol.append(("default options rejected for %d sectors of 512 bytes" % max(a, 42),
                             {"fmtbs_line": mkline(bps, max(a, 42), bpc, fat, root, fats),
                              "script": fmt_script(mkline(bps, max(a, 42), bpc, fat, root, fats).split(" "))}, False))
            minp += [la, lb]; meta += [(la, "err " + x), (lb, "err " + x)]
            continue
        if default and a < 42:
            viol.append(("default options accepted for %d sectors (< 42)" % a, {"fmtbs_line": la, "script": fmt_script(la.split(" "))}, False))
        ha, hb = hx, patch_ts(hx, b)
        minp += [la, lb]; meta += [(la, "ok %s %s" % (x, ha)), (lb, "ok %s %s" % (x, hb))]
        vin += ["%s %d %s %s" % (ha, a, x, fat), "%s %d %s %s" % (hb, b, x, fat)]; vmeta += [la, lb]
    if minp:
        mo = vlib.model_run("c06", "\n".join(minp) + "\n")
        for (l, e), m in zip(meta, mo):
            if e != m:
                viol.append(("correspondence Model/Format.v vs src/boot_sector.rs broken (sweep): fmtbs '%s': library %s, model %s"
                             % (l, e[:90], m[:90]), {"fmtbs_line": l, "script": fmt_script(l.split(" ")),
                                                    "theorem_or_correspondence": "model c06 vs fmtsweep run end"}, True))
                break
    if vin:
        vo = vlib.model_run("c06v", "\n".join(vin) + "\n")
        for l, v in zip(vmeta, vo):
            if v != "valid":
                viol.append(("accepted request yields an invalid boot sector (clauses %s): fmtbs '%s'" % (v, l),
                             {"fmtbs_line": l, "script": fmt_script(l.split(" ")), "clauses": v}, False))
                break
    return hi - lo + 1, len(runs), stat, viol


def run_sweeps(rep, pieces, workers):
    tot_n = tot_runs = 0
    stat = collections.Counter()
    with cf.ThreadPoolExecutor(max_workers=workers) as ex:
        for n, r, s, viol in ex.map(sweep_piece, pieces):
            tot_n += n; tot_runs += r; stat.update(s)
            for v in viol:
                rep.violation(*v[:2], nofail=v[2])
    return tot_n, tot_runs, stat


# ------------------------------------------------------------------------------------------------ real format_volume
def le(b, o, n):
    return int.from_bytes(b[o:o + n], "little")


def fat_entry(fat, bits, i):
    if bits == 12:
        v = le(fat, i + i // 2, 2)
        return (v >> 4) if i & 1 else (v & 0xFFF)
    if bits == 16:
        return le(fat, 2 * i, 2)
    return le(fat, 4 * i, 4) & 0x0FFFFFFF


def image_configs(rng, tier):
    # (bps, total_sectors, bpc, fat, root, fats, media, volid, label, fill)
    c = [("-", 2048, "-", "-", "-", "-", "-", "-", "-", 0),
         ("-", 42, "-", "-", "-", "-", "-", "-", "-", 0xF6),
         ("-", 8399, "-", "-", "-", "-", "-", "-", "-", 0),
         ("-", 8400, "-", "-", "-", "-", "-", "-", "-", 0xAA),
         ("-", 32768, "-", "-", "-", "-", "-", "-", bytes(b"MY VOLUME  ").hex(), 0),
         ("-", 131072, "-", "-", "-", "-", "-", 0xCAFEBABE, "-", 0),
         (512, 70000, 512, 32, "-", "-", "-", "-", bytes(b"FAT32 LABEL").hex(), 0xE5),
         (512, 66600, 512, "-", "-", 1, "-", "-", "-", 0),
         (1024, 70000, 1024, 32, "-", 2, 0xF0, "-", "-", 0),
         (4096, 70000, 4096, 32, "-", "-", "-", 1, bytes(b"BIG SECTORS").hex(), 0xFF),
         (4096, 5000, 32768, 12, 16, 1, "-", "-", "-", 0x55),
         (2048, 40000, 4096, 16, 1, 2, "-", "-", "-", 0),
         (512, 100, 65536, "-", "-", "-", "-", "-", "-", 0),       # no data cluster at all (accepted, 0 clusters)
         (512, 20000, 2048, "-", 17, 1, "-", "-", bytes(b"ODD ROOT   ").hex(), 0),
         (512, 4200, 512, 16, 65535, 2, "-", "-", "-", 0)]
    n = 24 if tier == "quick" else 260
    for _ in range(n):
        b = rng.choice(BPS_OK)
        spc = 1 << rng.range(0, 5)
        bits = rng.choice([12, 12, 16, 16, 32])
        lo, hi = {12: (1, 4084), 16: (4085, 30000), 32: (65525, 70000)}[bits]
        cl = rng.range(lo, hi)
        root = rng.choice([512, 16, 240, 1, 17, 4096]) if bits != 32 else 512
        fats = rng.choice([1, 2])
        rds = (root * 32 + b - 1) // b if bits != 32 else 0
        spf = ((cl + 2) * bits + b * 8 - 1) // (b * 8)
        ts = (8 if bits == 32 else 1) + rds + fats * spf + cl * spc + rng.range(0, spc)
        if ts * b > (3 << 30):
            continue
        label = "-" if rng.chance(1, 2) else bytes(rng.range(65, 90) for _ in range(11)).hex()
        c.append((b, ts, b * spc, rng.choice(["-", bits]), root, fats, rng.choice(["-", 0xF0, 0xF9]), rng.choice(["-", rng.range(0, U32)]), label,
                  rng.choice([0, 0, 0xFF, 0xE5, 0x20, 0xF6])))
    return c


def run_images(rep, rng, tier):
    confs = image_configs(rng, tier)
    # boot sector the hook predicts, geometry through the extracted decoder
    hook = vlib.exec_raw(["fmtbs"], "\n".join(mkline(*c[:9]) for c in confs) + "\n").split("\n")[:-1]
    okc = [(c, h) for c, h in zip(confs, hook)]
    scripts, metas = [], []
    for c, h in okc:
        bps = 512 if c[0] == "-" else c[0]
        hk = h.split(" ")
        # total sector count: given explicitly for half of the configurations, derived from the device size for the others
        explicit = (len(scripts) % 2 == 0)
        sc = ["dev %d %d" % (c[1] * bps, c[9]), "wlog 0",
              "format %s %s %s %s %s %s %s %s %s" % (c[0], c[1] if explicit else "-", c[2], c[3], c[4], c[5], c[6], c[7], c[8]), "wlog 1"]
        if hk[0] == "ok":
            sc += ["dump 0 512", "mount 1 0 lossy", "stats", "list 0", "label", "label_root", "status_flags", "unmount"]
        scripts.append(sc); metas.append((c, hk))
    res = vlib.run_scripts(scripts)
    geo_in = [hk[2] for (_, hk) in metas if hk[0] == "ok"]
    geo = vlib.model_run("c06g", "\n".join(geo_in) + "\n") if geo_in else []
    gi = 0
    second = []   # follow-up dumps that need the geometry
    n_ok = 0
    for sc, (c, hk), rs in zip(scripts, metas, res):
        rep.count()
        fr = rs[2]
        if fr.kind in ("panic", "hang", "bad"):
            rep.violation("format_volume %s: %r" % (fr.kind, fr), {"script": sc[:3]}); continue
        if hk[0] != "ok":
            if not (fr.kind == "err" and fr.payload.split(" ")[0] == "InvalidInput"):
                rep.violation("format_volume outcome %s %s differs from the boot-sector hook (%s)" % (fr.kind, fr.payload, " ".join(hk[:2])),
                              {"script": sc[:3]}, nofail=(fr.kind == "err"))
            continue
        g = [int(x) for x in geo[gi].split(" ")]; gi += 1
        bps, spc, reserved, fats, root_entries, total, spf, clusters, meta = g
        bits = int(hk[1])
        if fr.kind != "ok":
            rep.violation("format_volume fails (%s %s) although the boot-sector hook accepts the request" % (fr.kind, fr.payload), {"script": sc[:3]}); continue
        dump0, mnt, stats, lst, lab, labroot, flags = rs[4], rs[5], rs[6], rs[7], rs[8], rs[9], rs[10]
        if dump0.payload != hk[2]:
            rep.violation("boot sector written by format_volume differs from verif_hooks::format_boot_sector_bytes", {"script": sc[:5]}, nofail=True); continue
        if mnt.kind != "ok":
            rep.violation("freshly formatted volume does not mount (strict): %s %s" % (mnt.kind, mnt.payload), {"script": sc[:6]}); continue
        mb, mcs = mnt.payload.split(" ")
        if int(mb) != bits or int(mcs) != bps * spc:
            rep.violation("mounted volume reports FAT%s cluster %s, formatted as FAT%d cluster %d" % (mb, mcs, bits, bps * spc), {"script": sc[:6]}); continue
        if stats.kind != "ok":
            rep.violation("stats fails on a fresh volume: %s" % stats.payload, {"script": sc[:7]}); continue
        cs, tot, free = [int(x) for x in stats.payload.split(" ")]
        exp_free = clusters - 1 if bits == 32 else clusters
        if tot != clusters or free != exp_free or cs != bps * spc:
            rep.violation("fresh volume: stats says total %d free %d, expected total %d free %d" % (tot, free, clusters, exp_free), {"script": sc[:7]}); continue
        if lst.kind != "ok" or lst.extra:
            rep.violation("root directory of a fresh volume is not empty: %s %r" % (lst.kind, lst.extra[:2]), {"script": sc[:8]}); continue
        exp_label = c[8] if c[8] != "-" else bytes(b"NO NAME    ").hex()
        exp_volid = 0x12345678 if c[7] == "-" else c[7]
        exp_trim = bytes.fromhex(exp_label).rstrip(b" ").hex() or "-"     # volume_label_as_bytes() trims the padding
        if lab.kind != "ok" or lab.payload != "%s %d" % (exp_trim, exp_volid):
            rep.violation("label/volume id of the fresh volume: %s, expected %s %d" % (lab.payload, exp_label, exp_volid), {"script": sc[:9]}); continue
        exp_root = c[8] if c[8] != "-" else "none"
        if labroot.kind != "ok" or labroot.payload != exp_root:
            rep.violation("root-directory label entry of the fresh volume: %s, expected %s" % (labroot.payload, exp_root), {"script": sc[:10]}); continue
        if flags.kind != "ok" or flags.payload != "0 0":
            rep.violation("fresh volume is marked dirty / io-error: %s" % flags.payload, {"script": sc[:11]}); continue
        # raw regions: both FAT copies, root directory region, FAT32: backup boot sector, FS-info, root cluster
        fat_len = min(spf * bps, 1 << 20)
        d = ["dev %d %d" % (c[1] * bps, c[9]), "wlog 0", sc[2]]
        for k in range(fats):
            d.append("dump %d %d" % ((reserved + k * spf) * bps, fat_len))
        rds = meta - reserved - fats * spf
        if bits == 32:
            d += ["dump %d 512" % (6 * bps), "dump %d 512" % bps, "dump %d %d" % (meta * bps, bps * spc)]
        else:
            d.append("dump %d %d" % ((reserved + fats * spf) * bps, rds * bps))
        second.append((d, c, g, bits, hk[2], sc))
        n_ok += 1
    res2 = vlib.run_scripts([x[0] for x in second]) if second else []
    for (d, c, g, bits, hx, sc), rs in zip(second, res2):
        bps, spc, reserved, fats, root_entries, total, spf, clusters, meta = g
        dumps = [bytes.fromhex(r.payload) for r in rs[3:]]
        fatsb = dumps[:fats]
        okimg = True
        if any(f != fatsb[0] for f in fatsb):
            rep.violation("FAT copies of a fresh volume differ", {"script": d}); continue
        f0 = fatsb[0]
        media = 0xF8 if c[6] == "-" else c[6]
        nent = min(clusters + 2, len(f0) * 8 // bits)
        mask = {12: 0xFFF, 16: 0xFFFF, 32: 0x0FFFFFFF}[bits]
        e0, e1 = fat_entry(f0, bits, 0), fat_entry(f0, bits, 1)
        if e0 != ((mask & ~0xFF) | media) or e1 != mask:
            rep.violation("reserved FAT entries of a fresh volume: %x %x (media %x)" % (e0, e1, media), {"script": d}); continue
        first_free = 3 if bits == 32 else 2
        bad = [i for i in range(first_free, nent) if fat_entry(f0, bits, i) != 0]
        if bad or (bits == 32 and clusters > 0 and fat_entry(f0, 32, 2) < 0x0FFFFFF8):
            rep.violation("FAT of a fresh volume has allocated clusters: first %s" % bad[:3], {"script": d}); continue
        if bits == 32:
            backup, fsinfo, rootcl = dumps[fats], dumps[fats + 1], dumps[fats + 2]
            if backup.hex() != hx:
                rep.violation("FAT32 backup boot sector (sector 6) differs from sector 0", {"script": d}); continue
            if le(fsinfo, 0, 4) != 0x41615252 or le(fsinfo, 484, 4) != 0x61417272 or le(fsinfo, 508, 4) != 0xAA550000 \
               or le(fsinfo, 488, 4) != clusters - 1 or le(fsinfo, 492, 4) != 3:
                rep.violation("FS-info sector of a fresh FAT32 volume: free %d next %d (expected %d, 3)" % (le(fsinfo, 488, 4), le(fsinfo, 492, 4), clusters - 1),
                              {"script": d}); continue
            rootreg = rootcl
        else:
            rootreg = dumps[fats]
        exp = bytearray(len(rootreg))
        if c[8] != "-" and len(exp) >= 32:
            exp[0:11] = bytes.fromhex(c[8]); exp[11] = 0x08
        # the label entry carries time stamps of the formatter (zero in DirFileEntryData::new): compare name+attr, rest must be zero beyond the entry
        if bytes(rootreg[:12]) != bytes(exp[:12]) or any(rootreg[32:]):
            rep.violation("root directory region of a fresh volume is not empty apart from the label", {"script": d}); continue
        rep.distinct(("img",) + tuple(c))
        rep.cov["traces_validated_against_impl"] += 1
    rep.cov["image_formats"] = {"configurations": len(confs), "accepted_and_fully_checked": len(second),
                                "checks": "hook bytes = sector 0, strict mount, stats, list, label, label_root, status flags, FAT copies equal+empty, "
                                          "root region, FAT32 backup boot sector / FS-info / root cluster"}
    if second:
        rep.sample({"format_script": second[0][5][:3], "geometry": second[0][2]})



# ------------------------------------------------------------------------------------------------ format_image correspondence
CORR_NAME = "Model/FormatImage.v format_image (model c06i) vs src/fs.rs format_volume (whole device image, 4096-byte pages)"
NASTY_LABELS = [bytes([0x00]) + b"ZEROFIRST ", bytes([0xE5]) + b"DELETED   ", bytes([0x05]) + b"KANJI     ", b" LEADSPACE ",
                bytes([0xFF] * 11), bytes([0x00] * 11), b"lower case ", b"A.B,C+D;E=F"]


def parse_pages_md5(payload):
    import hashlib
    t = payload.split(" ") if payload else []
    return {int(t[i]): t[i + 1] for i in range(0, len(t) - 1, 2)}


def corr_requests(rng, tier):
    """(format tokens[9], explicit_ts, device bytes, fill, [(off, len, byte)]) - mostly accepted requests of every FAT width"""
    n = 300 if tier == "quick" else 2400
    out = []
    for i in range(n):
        k = rng.below(100)
        bits = 12 if k < 47 else 16 if k < 93 else 32
        b = rng.choice(BPS_OK)
        spc = 1 << rng.range(0, 4 if bits != 32 else 3)
        lo, hi = {12: (0, 4084), 16: (4085, 12000), 32: (65525, 66500)}[bits]
        cl = rng.range(lo, hi) if rng.chance(5, 6) else rng.choice([lo, lo + 1, hi])
        if bits == 12 and rng.chance(1, 2):
            cl = rng.range(0, 400)
        root = rng.choice([512, 16, 240, 1, 17, 100, 48, 4096 if rng.chance(1, 4) else 32]) if bits != 32 else rng.choice([512, 0, 16])
        fats = rng.choice([1, 2, 2]) if bits != 32 else rng.choice([1, 1, 2])
        rds = (root * 32 + b - 1) // b if bits != 32 else 0
        res = 8 if bits == 32 else 1
        spf = ((cl + 2) * bits + b * 8 - 1) // (b * 8)
        ts = res + rds + fats * spf + cl * spc + rng.range(0, spc)
        j = rng.below(20)
        if j == 0:
            ts = rng.range(0, 40)                              # refused: too small
        elif j == 1:
            bits_forced = rng.choice([x for x in (12, 16, 32) if x != bits])
        fat = bits if rng.chance(1, 2) else "-"
        if j == 1:
            fat = bits_forced                                  # mostly refused: forced width does not fit
        lk = rng.below(10)
        if lk < 4:
            label = "-"
        elif lk < 8:
            label = bytes(rng.range(32, 126) for _ in range(11)).hex()
        else:
            label = rng.choice(NASTY_LABELS).hex()
        media = rng.choice(["-", 0xF0, 0xF9, rng.range(0, 255)])
        volid = rng.choice(["-", rng.range(0, U32)])
        fill = rng.choice([0, 0, 0xD1, 0xFF, 0xE5, 0xF6, 0x20, rng.range(1, 255)])
        explicit = rng.chance(2, 3)
        extra = rng.choice([0, 0, 4096, 10000, 3 * b + 17]) if explicit else rng.range(0, b - 1)
        dev = ts * b + extra
        meta_bytes = (res + rds + fats * spf + 3 * spc) * b
        ranges = []
        m = rng.below(4)
        if m == 1 and meta_bytes <= 100000:
            ranges.append((0, min(meta_bytes + rng.range(0, 5000), dev), rng.range(1, 255)))     # the whole structure area is stale
        elif m >= 1:
            # stale bytes around every structure boundary: sector 0 tail, FS-info / backup sector, both ends of every FAT copy,
            # root directory / root cluster and the first data clusters
            marks = [0, 512, b, 2 * b, 6 * b, 7 * b, meta_bytes - 3 * spc * b, meta_bytes - 2 * spc * b, meta_bytes] + \
                    [(res + k * spf) * b for k in range(fats + 1)] + [(res + fats * spf + rds) * b]
            for _ in range(rng.range(1, 5)):
                mk = rng.choice(marks)
                off = max(0, mk - rng.range(0, 700))
                ranges.append((off, rng.range(1, 1500), rng.range(0, 255)))
            if rng.chance(1, 2):
                ranges.append((rng.range(0, max(meta_bytes, 1)), rng.range(1, 6000), rng.range(0, 255)))
        if rng.chance(1, 3):
            # stale directory-looking bytes where the root directory / root cluster will be, stale FAT bytes
            ranges.append(((res + fats * spf) * b, rng.range(32, min(4 * b, 6000)), 0x41))
            ranges.append((res * b, rng.range(1, min(spf * b, 6000)), 0xFF))
        ranges = [(o, min(l, dev - o), x) for (o, l, x) in ranges if o < dev and min(l, dev - o) > 0]
        toks = [str(b), str(ts), str(b * spc) if rng.chance(5, 6) else "-", str(fat), str(root) if bits != 32 or rng.chance(1, 2) else "-",
                str(fats), str(media), str(volid), label]
        out.append((toks, explicit, dev, fill, ranges))
    # deterministic family: requests the layout search lets through and only the final self-check of the boot sector refuses (zero
    # root entries on a FAT12/16 volume - by size, by cluster size, by forced width -, sector sizes above 4096), next to their
    # accepted neighbours (zero root entries on FAT32, 4096-byte sectors): through the REAL format_volume, error kind compared
    for toks, dev in [
            (["512", "2048", "-", "-", "0", "2", "-", "-", "-"], 2048 * 512), (["512", "16384", "-", "-", "0", "2", "-", "-", "-"], 16384 * 512),
            (["512", "81920", "-", "16", "0", "2", "-", "-", "-"], 81920 * 512), (["512", "5000", "512", "16", "0", "1", "-", "-", "-"], 5000 * 512),
            (["512", "400", "512", "12", "0", "2", "-", "-", "-"], 400 * 512), (["1024", "300", "-", "-", "0", "2", "-", "-", "-"], 300 * 1024),
            (["512", "70000", "512", "32", "0", "2", "-", "-", "-"], 70000 * 512), (["512", "70000", "512", "-", "0", "2", "-", "-", "-"], 70000 * 512),
            (["8192", "1000", "-", "-", "-", "2", "-", "-", "-"], 1000 * 8192), (["16384", "5000", "-", "-", "-", "2", "-", "-", "-"], 5000 * 16384),
            (["32768", "300", "-", "-", "512", "1", "-", "-", "-"], 300 * 32768), (["8192", "9000", "8192", "16", "512", "2", "-", "-", "-"], 9000 * 8192),
            (["4096", "1000", "-", "-", "-", "2", "-", "-", "-"], 1000 * 4096), (["4096", "9000", "4096", "16", "512", "2", "-", "-", "-"], 9000 * 4096)]:
        for explicit in (True, False):
            out.append((toks, explicit, dev, 0, []))
    return out


def corr_piece(reqs):
    """one batch: the real format_volume on the device and the model on the same initial image"""
    import hashlib
    scripts, mlines = [], []
    for toks, explicit, dev, fill, ranges in reqs:
        sc = ["dev %d %d" % (dev, fill)] + ["fillrange %d %d %d" % r for r in ranges] + ["wlog 0"]
        ft = list(toks)
        if not explicit:
            ft[1] = "-"
        sc += ["format " + " ".join(ft), "pages"]
        scripts.append(sc)
        mlines.append(" ".join(toks) + " %d %s" % (fill, ",".join("%d:%d:%d" % r for r in ranges) or "-"))
    res = vlib.run_scripts(scripts)
    mo = vlib.model_run("c06i", "\n".join(mlines) + "\n")
    out = []
    for (toks, explicit, dev, fill, ranges), sc, ml, rs, m in zip(reqs, scripts, mlines, res, mo):
        fr, pg = rs[-2], rs[-1]
        mt = m.split(" ")
        rec = {"key": tuple(toks) + (explicit, dev, fill, tuple(ranges)), "viol": None, "nofail": True, "outcome": None, "bits": None,
               "pages": 0, "script": sc}
        if fr.kind in ("panic", "hang", "bad"):
            rec["viol"] = "format_volume %s: %s" % (fr.kind, fr.payload[:120]); rec["nofail"] = False
            out.append(rec); continue
        ekind = "ok" if fr.kind == "ok" else "err " + fr.payload.split(" ")[0]
        mkind = "ok" if mt[0] == "ok" else " ".join(mt[:2]) if mt[0] == "err" else mt[0]
        rec["outcome"] = ekind
        if fr.kind == "err" and ekind != "err InvalidInput":
            # direct statement (no storage fault is injected here): a request is refused with the invalid-input error and no other
            rec["viol"] = "format_volume refuses the request with %s instead of InvalidInput" % fr.payload.split(" ")[0]; rec["nofail"] = False
            out.append(rec); continue
        elif ekind != mkind:
            rec["viol"] = "outcome differs: library %s, model %s" % (ekind, mkind)
            out.append(rec); continue
        if pg.kind != "ok":
            rec["viol"] = "pages failed"; out.append(rec); continue
        t = pg.payload.split(" ") if pg.payload else []
        epages = {int(t[i]): t[i + 1] for i in range(0, len(t) - 1, 2)}
        emd5 = {o: hashlib.md5(bytes.fromhex(h)).hexdigest() for o, h in epages.items()}
        mp = [x for x in mt[2:] if x] if mt[0] in ("ok", "err") else []
        mmd5 = {int(x.split(":")[0]): x.split(":")[1] for x in mp}
        rec["pages"] = len(emd5)
        if mt[0] == "ok":
            rec["bits"] = mt[1]
        if emd5 != mmd5:
            diff = sorted(o for o in set(emd5) | set(mmd5) if emd5.get(o) != mmd5.get(o))
            o0 = diff[0]
            mh = vlib.model_run("c06ix", ml + " %d\n" % o0)[0]
            eh = epages.get(o0, "%02x" % fill * 4096)
            first = next((i for i in range(4096) if mh[2 * i:2 * i + 2] != eh[2 * i:2 * i + 2]), 0)
            rec["viol"] = ("device image after format differs from the model's: first difference at byte offset %d (library %s, model %s), "
                           "%d page(s) differ" % (o0 + first, eh[2 * first:2 * first + 2], mh[2 * first:2 * first + 2], len(diff)))
            rec["first_difference"] = o0 + first
        out.append(rec)
    return out


def run_image_corr(rep, rng, tier):
    reqs = corr_requests(rng, tier)
    # FAT32 requests are the slow ones (a FAT of >= 256 KiB per copy): spread them over the batches
    nb = 16
    def cost(r):
        toks = r[0]
        return int(toks[1]) * int(toks[0]) // 60 + sum(x[1] for x in r[4]) + 20000     # ~ bytes the model writes
    batches = [[] for _ in range(nb)]
    load = [0] * nb
    for r in sorted(reqs, key=cost, reverse=True):
        i = load.index(min(load))
        batches[i].append(r); load[i] += cost(r)
    outcome = collections.Counter(); bitsc = collections.Counter(); fills = collections.Counter(); bpsc = collections.Counter()
    nonblank = labels = derived = npages = 0
    with cf.ThreadPoolExecutor(max_workers=nb) as ex:
        for recs in ex.map(corr_piece, batches):
            for r in recs:
                rep.count()
                outcome[r["outcome"] or "panic"] += 1
                if r["bits"]:
                    bitsc["fat" + r["bits"]] += 1
                k = r["key"]
                bpsc[k[0]] += 1; fills["0" if k[11] == 0 else "nonzero"] += 1
                nonblank += 1 if k[12] else 0; labels += 1 if k[8] != "-" else 0; derived += 0 if k[9] else 1
                npages += r["pages"]
                if r["viol"]:
                    replay = {"script": r["script"], "theorem_or_correspondence": CORR_NAME}
                    if "first_difference" in r:
                        replay["first_difference"] = r["first_difference"]
                    rep.violation("[format_image] %s: %s" % (" ".join(r["script"][-2:-1]), r["viol"]), replay, nofail=r["nofail"])
                else:
                    rep.cov["traces_validated_against_impl"] += 1
                    if r["outcome"] == "ok":
                        rep.distinct(("corr",) + k)
    rep.cov["format_image_correspondence"] = {
        "requests": len(reqs), "outcomes": dict(outcome), "fat_width_of_accepted": dict(bitsc), "bytes_per_sector": dict(bpsc),
        "device_fill": dict(fills), "devices_with_stale_ranges": nonblank, "with_label": labels, "sector_count_from_device_size": derived,
        "pages_compared": npages,
        "rule": "every byte of the device after the real format_volume = the image computed by the extracted format_image from the same "
                "initial device content (all 4096-byte pages that differ from the fill byte, both directions), so every written region "
                "AND the untouched remainder are compared"}



# ------------------------------------------------------------------------------------------------ FAT32 BAD range
def run_device_size_path(rep):
    """the volume size taken from the DEVICE (no total_sectors option: format_volume seeks to the end and divides): default
    options must succeed for every device of 42 .. 2^32-1 sectors of 512 bytes (a partial last sector is ignored) and be
    rejected with InvalidInput beyond; the hook / sweep take the sector count as a parameter and never run this path"""
    cases = [(41 * 512, False), (42 * 512, True), (42 * 512 + 511, True), (2048 * 512 + 1, True), ((1 << 32) * 512 // 2, True),
             (U32 * 512 - 512, True), (U32 * 512, True), (U32 * 512 + 1, True), (U32 * 512 + 511, True), ((U32 + 1) * 512, False),
             ((U32 + 1) * 512 + 5, False), ((1 << 33) * 512, False)]
    scripts = [["dev %d 0" % n, "wlog 0", "format - - - - - - - - -", "mount 1 0 lossy", "stats", "unmount"] for n, _ in cases]
    # a refused request followed by a RETRY on the same storage object (`format_again`: the position is where the refused call
    # left it): an explicit sector count that fits, a smaller sector... must succeed and mount; also after an accepted format
    retries = []
    for n in ((U32 + 1) * 512, (U32 + 1) * 512 + 5, (1 << 33) * 512):
        for again in ("format_again 512 %d - - - - - - -" % U32, "format_again 512 8000000 - - - - - - -", "format_again 4096 - - - - - - - -"):
            retries.append(["dev %d 0" % n, "wlog 0", "format - - - - - - - - -", again, "mount 1 0 lossy", "stats", "unmount"])
    for first in ("format 512 30 - - - - - - -", "format 512 5000 - 32 - - - - -", "format 512 5000 - - - - - - -"):
        retries.append(["dev %d 0" % (70000 * 512), "wlog 0", first, "format_again 512 70000 512 - - - - - -", "mount 1 0 lossy", "stats", "unmount"])
    for sc_lines, ops in zip(retries, vlib.run_scripts(retries)):
        rep.count()
        bad = [o for o in ops[2:] if o.kind != "ok" and not (o is ops[2] and o.kind == "err" and o.payload.startswith("InvalidInput"))]
        if bad:
            rep.violation("format_volume called again on the same storage object after %s: %s -> %s %s" % (
                "a refused request" if ops[2].kind == "err" else "an accepted one", bad[0].line[:60], bad[0].kind,
                bytes.fromhex(bad[0].payload).decode("utf-8", "replace")[:80] if bad[0].kind == "panic" else bad[0].payload[:40]), {"script": sc_lines})
        else:
            rep.distinct(("retry", tuple(sc_lines[:4])))
    res = vlib.run_scripts(scripts)
    done = 0
    for (n, want_ok), sc_lines, ops in zip(cases, scripts, res):
        rep.count()
        f = ops[2]
        if f.kind in ("panic", "hang"):
            rep.violation("format_volume on a device of %d bytes (size taken from the device): %s" % (n, f.kind), {"script": sc_lines[:3]}); continue
        if want_ok and f.kind != "ok":
            rep.violation("default options on a device of %d bytes (%d whole sectors of 512 bytes, size taken from the device): format fails with %s"
                          % (n, n // 512, f.payload[:40]), {"script": sc_lines[:3]}); continue
        if not want_ok and not (f.kind == "err" and f.payload.startswith("InvalidInput")):
            rep.violation("device of %d bytes (%d sectors): format must reject with InvalidInput, got %s %s" % (n, n // 512, f.kind, f.payload[:40]),
                          {"script": sc_lines[:3]}); continue
        if want_ok:
            st = ops[4]
            if ops[3].kind != "ok" or st.kind != "ok":
                rep.violation("volume formatted from the device size (%d bytes) does not mount / report statistics: %s %s" % (n, ops[3].kind, st.kind),
                              {"script": sc_lines}); continue
        done += 1
    rep.cov["device_size_path_cases"] = done


def run_bad_range(rep):
    """The top of the FAT32 range (tables reaching cluster numbers 0x0FFFFFF0..): the extracted model cannot zero a 1 GiB table,
    so the BAD-range branch of format_fat is tied to the code through the statements of C06_image_fat / C06_image_free_space:
    the real library formats a sparse 128 GiB device; (direct check) the FS-info free count must equal the number of free
    entries among the data clusters of the table (counted over the whole sparse table) and what stats() reports;
    (correspondence) the raw entries / FS-info words must be the ones the theorems give."""
    BAD0, BAD1 = 0x0FFFFFF0, 0x10000000
    for ts in (270532604, 270532603, 270532599, 270532598, 270532590):
        fatpos = 8 * 512
        first = BAD0 - 12
        sc = ["dev %d 0" % (ts * 512), "wlog 0", "format 512 %d 512 32 - 1 - - -" % ts, "dump 0 512",
              "dump %d %d" % (fatpos + 4 * first, 4 * (BAD1 - first)), "dump %d 12" % fatpos, "dump %d 8" % (512 + 488),
              "pages", "mount 1 0 lossy", "stats", "unmount"]
        rs = vlib.run_scripts([sc])[0]
        rep.count()
        replay = {"script": sc, "theorem_or_correspondence": "C06_image_fat / C06_image_free_space (BAD range 0x0FFFFFF0.. of format_fat) vs src/table.rs format_fat, src/fs.rs format_volume"}
        if any(r.kind != "ok" for r in rs[:10]):
            rep.violation("[bad range] format / mount / stats of a %d-sector FAT32 volume: %s" % (ts, [(r.kind, r.payload[:40]) for r in rs if r.kind != "ok"][:2]),
                          {"script": sc}); continue
        g = [int(x) for x in vlib.model_run("c06g", rs[3].payload + "\n")[0].split(" ")]
        total, spf = g[7], g[6]
        entries = spf * 512 // 4
        fsw = bytes.fromhex(rs[6].payload)
        fs_free, fs_next = le(fsw, 0, 4), le(fsw, 4, 4)
        # ---- direct: count the free entries 2 .. total+1 over the whole (sparse) table: only materialised pages can hold non-zero entries
        t = rs[7].payload.split(" ") if rs[7].payload else []
        nonfree = 0
        for i in range(0, len(t) - 1, 2):
            off, pg = int(t[i]), bytes.fromhex(t[i + 1])
            for j in range(0, 4096, 4):
                a = off + j
                if fatpos <= a < fatpos + spf * 512:
                    x = (a - fatpos) // 4
                    if 2 <= x < total + 2 and le(pg, j, 4) & 0x0FFFFFFF != 0:
                        nonfree += 1
        table_free = total - nonfree
        st = [int(x) for x in rs[9].payload.split(" ")]
        if not (fs_free == table_free == st[2]) or st[1] != total:
            rep.violation("[bad range] fresh FAT32 volume of %d sectors (%d clusters): FS-info says %d free, the table has %d free data-cluster "
                          "entries, stats reports total %d free %d" % (ts, total, fs_free, table_free, st[1], st[2]), {"script": sc}); continue
        # ---- correspondence with the theorems
        raw = bytes.fromhex(rs[4].payload)
        got = [le(raw, 4 * i, 4) & 0x0FFFFFFF for i in range(BAD1 - first)]
        exp = []
        for x in range(first, BAD1):
            if x >= entries:
                exp.append(None)
            elif x < total + 2:
                exp.append(0x0FFFFFF7 if x >= BAD0 else 0)                          # data_val
            else:
                exp.append(0x0FFFFFF7 if BAD0 <= x < BAD1 else 0x0FFFFFFF)          # spare_val
        bad = [(first + i, hex(a), hex(e)) for i, (a, e) in enumerate(zip(got, exp)) if e is not None and a != e]
        head = bytes.fromhex(rs[5].payload)
        nbad = max(0, total + 2 - BAD0)
        if bad or le(head, 0, 4) != 0x0FFFFFF8 or le(head, 4, 4) != 0xFFFFFFFF or le(head, 8, 4) & 0x0FFFFFFF != 0x0FFFFFFF \
           or fs_free != total - 1 - nbad or fs_next != 3:
            rep.violation("[bad range] %d sectors (%d clusters): FAT entries / FS-info (free %d next %d) differ from C06_image_fat / "
                          "C06_image_free_space: %s" % (ts, total, fs_free, fs_next, bad[:3]), replay, nofail=True); continue
        rep.cov["traces_validated_against_impl"] += 1
        rep.distinct(("badrange", ts))
        rep.cov.setdefault("bad_range_volumes", []).append(
            {"total_sectors": ts, "clusters": total, "table_entries": entries, "data_clusters_marked_bad": nbad,
             "fsinfo_free = free_entries_in_table = stats": fs_free})


# ------------------------------------------------------------------------------------------------ entry
def run(rep, tier, seed):
    rng = vlib.Rng(seed)
    t0 = time.time()
    quick = tier == "quick"
    workers = 12
    # ---- boundary stream
    lines = []
    nconf = 0
    for cfg in boundary_configs(rng, tier):
        nconf += 1
        for ts in breakpoints(*cfg):
            lines.append(mkline(cfg[0], ts, cfg[1], cfg[2], cfg[3], cfg[4]))
    nb = len(lines)
    # ---- random grid, targeted (mostly accepted) requests, malformed stream
    nr, nt, nm = (100000, 100000, 20000) if quick else (2400000, 2400000, 200000)
    lines += random_lines(rng, nr)
    lines += targeted_lines(rng, nt)
    nmal0 = len(lines)
    lines += malformed_lines(rng, nm)
    st = run_bulk(rep, lines, workers, chunk=20000 if quick else 50000, release_every=4 if quick else 6)
    for v in st.viol[:40]:
        rep.violation(v[0], v[1], nofail=v[2])
    rep.count(st.n)
    for k in st.ok_keys:
        rep.distinct(k)
    rep.cov["traces_validated_against_impl"] += st.n
    for s in st.samples:
        rep.sample(s)
    t1 = time.time()
    # ---- sweeps (run-length): default options over a range, a few other configurations over short ranges
    pieces = []
    if quick:
        edges = [0, 2048, 4096, 8192, 8400, 32768, 262144, 524288, 1048576, 16777216, 33554432, 67108864, 134217728, 1 << 31, U32]
        rngs = [(0, 1000000), (1000001, 2000000), (2000001, 3000000), (3000001, 4000000)] + [(max(e - 150000, 0), min(e + 150000, U32)) for e in edges[9:]]
        for a, b in rngs:
            pieces.append((a, b, ("-", "-", "-", "-", "-"), "default"))
        pieces.append((0, 300000, (4096, "-", "-", "-", 1), "default"))
        pieces.append((0, 300000, (512, 4096, "-", 17, "-"), "release"))
    else:
        step = 1 << 25
        for a in range(0, 1 << 32, step):
            pieces.append((a, min(a + step - 1, U32), ("-", "-", "-", "-", "-"), "default"))
        for cfg in [(4096, "-", "-", "-", 1), (512, 4096, "-", 17, "-"), (1024, "-", 16, 1, "-"), (2048, 65536, "-", "-", "-"),
                    (512, "-", 32, "-", "-"), (512, 512, "-", 65535, 1)]:
            pieces.append((0, 6000000, cfg, "default"))
            pieces.append((U32 - 3000000, U32, cfg, "release"))
    sn, sruns, sstat = run_sweeps(rep, pieces, 16)
    rep.count(sn)
    rep.cov["traces_validated_against_impl"] += 2 * sruns
    rep.cov["sweep"] = {"sector_counts_evaluated_by_the_library": sn, "runs_checked_at_both_ends": sruns,
                        "outcomes": dict(sstat), "full_32bit_range_default_options": not quick}
    t2 = time.time()
    # ---- real format_volume on RAM images
    run_images(rep, rng, tier)
    t3 = time.time()
    # ---- the whole device image after format_volume against the extracted format_image
    run_image_corr(rep, rng, tier)
    run_bad_range(rep)
    run_device_size_path(rep)
    t4 = time.time()
    rep.cov["distribution"] = {
        "boundary_configurations": nconf, "boundary_lines": nb, "random_grid_lines": nr, "targeted_lines": nt, "malformed_lines": nm,
        "outcomes": dict(st.outcome), "bytes_per_sector": dict(st.bps), "requested_fat_type": dict(st.fat_req),
        "cluster_size": dict(st.bpc), "root_entries": dict(st.root), "fats": dict(st.fats),
        "total_sectors_bit_length": {str(k): v for k, v in sorted(st.ts_log2.items())},
        "sectors_per_cluster_of_accepted(sample)": dict(st.spc_ok),
        "release_variant_lines": "every %d-th chunk" % (4 if quick else 6),
        "seconds": {"bulk": round(t1 - t0, 1), "sweep": round(t2 - t1, 1), "images": round(t3 - t2, 1), "format_image": round(t4 - t3, 1)}}
    rep.cov["rule"] = ("bulk: one evaluation = one request line (bps, total sectors, cluster size, FAT type, root entries, FAT count, media, id, label) "
                       "sent to the real library (hook) and to the extracted model and compared byte for byte, plus the Spec clauses on the "
                       "library's 512 bytes; distinct_nontrivial = distinct ACCEPTED requests whose boot sector matched the model and passed "
                       "every clause, plus distinct image configurations that passed all image-level checks; sweep evaluations are counted in "
                       "'evaluations' only")
    rep.cov["not_covered"] = ("the whole-volume statement abs(format_image ..) = empty volume is proved clause by clause (boot sector, FAT, root "
                              "directory via Abs.dir_scan, FS-info, frame) and evaluated through Spec/Abs.v + Spec/Wf.v on two examples, not as one "
                              "theorem over Abs.abs; device-size errors (device smaller than the requested volume) are not modelled")
