"""C09 - storage errors surface as I/O errors: exhaustive single-fault enumeration on the real library.
For representative histories on each FAT width, every operation is run once fault-free (counting its device calls)
and then once per call position k with the k-th device call failing; a call budget detects non-termination."""
import vlib
from vlib import hexs

PROP_FILES = ["Props/C09.v"]
NO_REPORT = ("drop_file", "drop_dir", "drop_all", "dropfs")      # destructors: cannot report errors

def histories():
    long1 = "a long file name for faults.dat"
    base = [
        "create_file 0 %s 1" % hexs(long1),
        "write_pat 1 2600 7",
        "flush 1",
        "create_dir 0 %s 2" % hexs("subdir"),
        "create_file 2 %s 3" % hexs("inner.txt"),
        "write_pat 3 700 9",
        "drop_file 3",
    ] + ["create_file 2 %s 3" % hexs("grow%d" % j) for j in range(7)] + [      # the 7th makes a 16-slot directory cluster overflow: the directory grows
        "drop_file 3",
        "seek 1 start 600",
        "read 1 900",
        # forward seeks from inside the file, over one and over several clusters, relative to start / current / end
        "seek 1 start 2590",
        "seek 1 start 10",
        "seek 1 cur 1500",
        "seek 1 start 520",
        "seek 1 end -5",
        "seek 1 start 700",
        "seek 1 cur 600",
        "read 1 100",
        "seek 1 start 600",
        "read 1 900",
        "list 0",
        "list 2",
        "stats",
        "rename 0 %s 2 %s" % (hexs("subdir/inner.txt"), hexs("moved and renamed.txt")),
        "open_file 0 %s 4" % hexs("SUBDIR/MOVED AND RENAMED.TXT"),
        "read_all 4 5000",
        "extents 4",
        "drop_file 4",
        "seek 1 start 1100",
        "truncate 1",
        "write_pat 1 1500 3",
        "drop_file 1",
        "remove 0 %s" % hexs("subdir/moved and renamed.txt"),
        "remove 0 %s" % hexs(long1),
    ] + ["remove 0 %s" % hexs("subdir/grow%d" % j) for j in range(7)] + [
        "open_dir 0 %s 5" % hexs("subdir"),
        # directory moves: the walk up through ".." of the destination (into-itself test), the ".." rewrite of the moved directory,
        # a rename whose new spelling matches the source itself (the remaining entries are scanned for a second match)
        "create_dir 0 %s 6" % hexs("top1"),
        "create_dir 0 %s 7" % hexs("top1/inner dir"),
        "create_dir 0 %s 8" % hexs("top2"),
        "rename 0 %s 0 %s" % (hexs("top1/inner dir"), hexs("top2/inner moved")),
        "rename 0 %s 0 %s" % (hexs("top2"), hexs("top2/inner moved/below itself")),
        "rename 0 %s 0 %s" % (hexs("top2/inner moved"), hexs("top2/INNER MOVED")),
        "list 8",
        "status_flags",
        "label_root",
        "drop_all",
        "remove 0 %s" % hexs("subdir"),
        "unmount",
    ]
    confs = [("fat12", 400 * 512, "format 512 400 512 12 32 2 - - -"),
             ("fat16", 4400 * 512, "format 512 4400 512 16 32 2 - - -"),
             ("fat32", 67000 * 512, "format 512 67000 512 32 - 2 - - -"),
             ("fat12-c2k-1fat", 2000 * 512, "format 512 2000 2048 12 512 1 - - -")]
    out = []
    for label, size, fmt in confs:
        head = ["dev %d 0" % size, "wlog 0", fmt, "mount 1 0 lossy"]
        out.append((label, head, base))
    # error paths: calls that FAIL part-way for want of room (a 16-entry fixed root that is full while clusters are free; a
    # sub-directory whose last cluster is full on a volume with exactly one / no free cluster) and what they undo - the cluster
    # a create_dir has already taken is given back, a rename keeps its source; a storage error during that undo is an I/O error
    full_root = ["create_file 0 %s 1" % hexs("root file %d" % j) for j in range(7)] + ["drop_all",                  # 7 x 2 slots
                 "create_dir 0 %s 2" % hexs("D"),                                                                   # slot 15
                 "create_file 2 %s 3" % hexs("inside.txt"), "write_pat 3 600 1", "drop_file 3",
                 "create_file 0 %s 3" % hexs("LAST"), "drop_file 3",                                                # slot 16: the root is full
                 "create_dir 0 %s 4" % hexs("no room for this directory"), "create_file 0 %s 5" % hexs("no room for this file.txt"),
                 "create_dir 0 %s 4" % hexs("NOROOM"), "create_file 0 %s 5" % hexs("NOROOM2"),
                 "rename 0 %s 0 %s" % (hexs("D/inside.txt"), hexs("moved into the full root.txt")),
                 "rename 0 %s 0 %s" % (hexs("D/inside.txt"), hexs("INROOT.TXT")),
                 "stats", "list 0", "remove 0 %s" % hexs("root file 3"), "create_dir 0 %s 6" % hexs("fits now"), "list 0", "drop_all", "unmount"]
    for label, size, fmt in [("fat12-root16-full", 400 * 512, "format 512 400 512 12 16 2 - - -"), ("fat16-root16-full", 4400 * 512, "format 512 4400 512 16 16 2 - - -")]:
        out.append((label, ["dev %d 0" % size, "wlog 0", fmt, "mount 1 0 lossy"], full_root))
    # 24 sectors: 1 reserved + 2 FATs of 1 + 2 root sectors = 5 -> 19 clusters of 512 bytes
    full_sub = ["create_dir 0 %s 1" % hexs("sub")] + ["create_file 1 %s 2" % hexs("e%d" % j) for j in range(7)] + ["drop_file 2",    # 2 + 7*2 = 16 slots: full
                "create_file 0 %s 3" % hexs("filler.bin"), "write_pat 3 %d 5" % (17 * 512), "drop_file 3", "stats",               # one cluster left
                "create_dir 1 %s 4" % hexs("a new directory with a long name"),       # takes the last cluster, then cannot grow sub: gives it back
                "create_file 1 %s 5" % hexs("a new file with a long name.txt"),        # grows sub with the last cluster
                "create_dir 1 %s 4" % hexs("second dir"), "create_file 1 %s 6" % hexs("x" * 200), "stats", "list 1", "drop_all", "unmount"]
    out.append(("fat12-sub-full", ["dev %d 0" % (24 * 512), "wlog 0", "format 512 24 512 12 32 2 - - -", "mount 1 0 lossy"], full_sub))
    return out

def run(rep, tier, seed):
    rng = vlib.Rng(seed)
    total_faults = 0; fired = 0; exempt = 0
    kinds = {}
    for label, head, ops in histories():
        if tier == "quick" and label == "fat12-c2k-1fat":
            continue
        # fault-free run with call logging: number of device calls per op
        free_script = head + ["logcalls 1"] + ops
        res = vlib.run_scripts([free_script])[0]
        base = len(head) + 1
        ncalls = [sum(1 for e in r.events if e[0] == "c") for r in res[base:]]
        # positions of the calls that are not plain reads (writes, flushes and the seek in front of each): few per operation,
        # always enumerated, also in the quick tier
        special = []
        for r in res[base:]:
            cs = [e for e in r.events if e[0] == "c"]
            sp = set()
            for j, e in enumerate(cs):
                if e[1] in ("write", "flush"):
                    sp.add(j); sp.add(j - 1)
            special.append(sorted(x for x in sp if x >= 0))
        bad0 = [r for r in res if r.kind in ("panic", "hang", "bad")]
        if bad0:
            rep.violation("[C09] fault-free reference run failed: %r" % bad0[0], {"script": free_script}, nofail=True)
            continue
        scripts = []; meta = []
        for i, op in enumerate(ops):
            n = ncalls[i]
            ks = list(range(n))
            if tier == "quick" and n > 60:
                step = max(1, n // 60)
                sp = special[i] if len(special[i]) <= 150 else [special[i][j] for j in range(0, len(special[i]), len(special[i]) // 150 + 1)]
                ks = sorted(set(list(range(0, n, step)) + [n - 1, n - 2, 0, 1, 2] + [rng.below(n) for _ in range(10)] + sp))
                ks = [k for k in ks if 0 <= k < n]
            for k in ks:
                scripts.append(head + ops[:i] + ["budget 300000", "fault %d any" % k, op])
                meta.append((i, k))
        # also the mount itself and (sampled) format
        res_all = vlib.run_scripts(scripts) if scripts else []
        for sc_lines, rs, (i, k) in zip(scripts, res_all, meta):
            total_faults += 1
            rep.count()
            r = rs[-1]
            name = r.line.split(" ")[0]
            xs = [e for e in r.events if e[0] == "x"]
            prior_bad = [q for q in rs[:-1] if q.kind in ("panic", "hang", "bad")]
            if prior_bad:
                rep.violation("[C09] prefix of the history failed without a fault: %r" % prior_bad[0], {"script": sc_lines}); continue
            if r.kind in ("panic", "hang"):
                msg = bytes.fromhex(r.payload).decode("utf-8", "replace") if r.kind == "panic" and r.payload else ""
                rep.violation("[C09] %s with device call %d failing: %s %s" % (r.line[:70], k, "PANIC" if r.kind == "panic" else "HANG (call budget exhausted)", msg),
                              {"script": sc_lines}); continue
            if not xs:
                continue            # the op issued fewer calls this time (fault not reached)
            fired += 1
            depth = int(xs[0][3]); kind = xs[0][2]
            kinds[kind] = kinds.get(kind, 0) + 1
            if depth > 0 or name in NO_REPORT:
                exempt += 1
                rep.distinct((label, i, k))
                continue
            if r.kind == "err" and r.payload.startswith("Io fault"):
                rep.distinct((label, i, k))
                continue
            what = "swallowed (call returned Ok)" if r.kind == "ok" else "reported as %s instead of Io" % r.payload.split(" ")[0]
            rep.violation("[C09] %s: the %s device call #%d of this operation failed outside a destructor and the failure was %s"
                          % (r.line[:70], kind, k, what), {"script": sc_lines})
        rep.cov["traces_validated_against_impl"] += 1
        if label == "fat12":
            rep.sample({"history": ops[:8], "calls_per_op": ncalls[:8]})
        # mount and format under faults
        extra = []
        for k in range(0, 12):
            extra.append(head[:3] + ["budget 300000", "fault %d any" % k, head[3]])
        fmt_free = vlib.run_scripts([head[:2] + ["logcalls 1", head[2]]])[0]
        nfmt = sum(1 for e in fmt_free[-1].events if e[0] == "c")
        fks = sorted(set([0, 1, 2, 3, nfmt - 1, nfmt - 2] + [rng.below(nfmt) for _ in range(20 if tier == "quick" else 300)]))
        for k in fks:
            extra.append(head[:2] + ["budget 30000000", "fault %d any" % k, head[2]])
        for sc_lines, rs in zip(extra, vlib.run_scripts(extra)):
            total_faults += 1; rep.count()
            r = rs[-1]
            xs = [e for e in r.events if e[0] == "x"]
            if r.kind in ("panic", "hang"):
                rep.violation("[C09] %s under a device fault: %s" % (r.line[:60], r.kind), {"script": sc_lines}); continue
            if not xs:
                continue
            fired += 1
            if int(xs[0][3]) > 0 or (r.kind == "err" and r.payload.startswith("Io fault")):
                rep.distinct((label, r.line[:10], sc_lines[-2]))
                continue
            rep.violation("[C09] %s: device call failed and the call returned %s %s" % (r.line[:60], r.kind, r.payload[:40]), {"script": sc_lines})
    rep.cov["fault_positions_run"] = total_faults
    rep.cov["faults_fired"] = fired
    rep.cov["faults_in_destructors_exempt"] = exempt
    rep.cov["failing_call_kinds"] = kinds
    rep.cov["rule"] = ("for each FAT width a 29-call history (create, multi-cluster write, flush, mkdir, rename+move, seek, read, truncate, "
                       "extents, stats, list, remove of multi-cluster files, unmount) plus mount and format: every device call position k of every "
                       "call (quick: at most ~70 positions per call, all for short calls) fails once; distinct = (history, call, k) whose outcome "
                       "was the storage's I/O error (or a destructor-issued call, exempt)")
