"""Whole-DEVICE correspondence of SESSIONS WITH SEVERAL OPEN FILES (coq/Model/VolSession2.v: s2_create = create_file while other
handles are open, s2_step (SOp i ..) = a call on handle i over the SHARED image and FS-info latch + the time stamps in handle
i's OWN editor, s2_step (SFlush i) = File::flush / drop of handle i writing ITS entry back iff dirty; theorems
C02_image_interleaved_refines / _session, C04_session2_flush_decodes, C04_session2_format_decodes, C14_session2_flushed_survives,
C14_session2_durable_is_flush_image) with the real library.  NOT a registered property: a helper stream called from
tools/props/c04.py.

Per session: a small FAT12 / FAT16 volume is formatted by the REAL format_volume; the model formats the same request itself and
from then on works on ITS OWN image only.  mount; 2-3 files with pairwise different names are created in the root - the first
at once, the others right before their first call, i.e. WHILE earlier handles are open and dirty -; a boundary-focused history
of write / read / seek / truncate calls on the handles in a random interleaving (props/c02.py model_history with nfiles = 2..3:
the clusters of the files interleave on the disk), every call under its own scripted clock value; flushes and drops of
individual handles at random points and, at the end, of all remaining handles in random order; unmount.
The model runner (mode csess2) compares after EVERY call (create, file call, flush, drop, unmount): the outcome, position and
size of the addressed handle, the WHOLE device image with the model's image, and the DURABLE images: the device image as of
the last device flush the library issued against Model/VolSession2.s2_durable (the model image right after its last flush /
drop step).
Directly on the implementation, independent of the model (the C04 / C14 clause itself): a FACT (name, byte array the session
observed, tracked from the library's own return values) is recorded when a flush / drop of a handle returns and withdrawn when
a later call modifies that file; after EVERY later call the independent decoder Spec/Abs.abs must show, on the DEVICE image
and on the device's DURABLE image, every file with a fact with exactly that content and size.  When all handles are flushed
the device is decoded with Spec/Wf.wf_issues as well: exactly the k files with the observed contents, no issue, free clusters =
total - sum ceil(len/cluster size); the same on the library's own final dump; a second mount reads every file back."""
import vlib, namelib
from vlib import hexs
from props import cvol_corr, csess_corr

CORR = ("Model/VolSession2.v s2_create / s2_step / s2_durable (model csess2; C02_image_interleaved_session, C04_session2_flush_decodes, "
        "C04_session2_format_decodes, C14_session2_flushed_survives, C14_session2_durable_is_flush_image) vs src/dir.rs + src/file.rs + "
        "src/dir_entry.rs + src/table.rs on the whole device image")

CONFS = cvol_corr.CONFS
NAMES = ["a.txt", "B", "file.txt", "x" * 13, "y" * 14, "z" * 26, "name.with.many.dots.ext", "UPPER", "lower.c", "MiXed.Txt",
         "straße", "Жук.txt", "é.x", "~tilde", "#hash&amp", " lead", "e5å", "€", "a.txt2", "b.txt", "FILE.TXT.bak"]


def ev_tokens(results):
    """the device events of some calls in order: "<off>:<hex>" for a write, "F" for a device flush"""
    ts = []
    for r in results:
        for e in r.events:
            if e[0] == "w":
                ts.append("%d:%s" % (int(e[1]), e[2]))
            elif e[0] == "f":
                ts.append("F")
    return " ".join(ts)


def gen_session(rng, conf, nops, geo):
    from props import c02 as c02mod
    bits, cs, total = geo
    k = 2 if rng.chance(1, 2) else 3
    names = []
    while len(names) < k:
        n = rng.choice(NAMES)
        if n.upper() not in [x.upper() for x in names]:
            names.append(n)
    acc = 1 if rng.chance(1, 3) else 0
    fill = total <= 64 and rng.chance(1, 8)
    fops = c02mod.model_history(rng, cs, total, rng.range(2, nops + 1), fill, k)
    if not fill and rng.chance(1, 2):
        # the files written alternately, a cluster (or a little more / less) at a time: their chains interleave on the disk
        pre = []
        for rnd in range(rng.range(1, 3)):
            for f in range(k):
                nb = cs + rng.choice([0, 0, 1, -1, 5])
                b = rng.below(256)
                pre.append((f, "write " + bytes((b + i * 11) % 256 for i in range(nb)).hex()))
        fops = pre + fops
    ck = csess_corr.rand_clock(rng)
    events = [("create", 0, ck)]
    created = {0}; gone = set()
    for idx, (f, o) in enumerate(fops):
        if f in gone:
            continue
        if f not in created:
            ck = csess_corr.rand_clock(rng, ck)
            events.append(("create", f, ck)); created.add(f)
        ck = csess_corr.rand_clock(rng, ck)
        events.append(("op", f, o, ck))
        c = rng.below(100)
        live = sorted(created - gone)
        if c < 14:
            events.append(("flush", rng.choice(live)))
        elif c < 20 and len(live) > 1 and not (fill and idx < total + 2):     # while the volume is being filled every file stays open
            g = rng.choice(live); events.append(("drop", g)); gone.add(g)
    rest = sorted(created - gone)
    while rest:
        f = rest.pop(rng.below(len(rest)))
        how = rng.choice(["flush", "drop", "flush+drop", "drop"])
        if "flush" in how:
            events.append(("flush", f))
        if "drop" in how:
            events.append(("drop", f))
    return {"conf": conf, "names": names, "acc": acc, "events": events, "k": k}


def build_script(s):
    label, dev, fmt, fill = s["conf"]
    lines = ["dev %d %d" % (dev, fill), "wlog 0", "format " + fmt, "pages", "wlog 1", "mount 1 %d lossy" % s["acc"]]
    m = {"p_format": 3, "ev": []}
    for ev in s["events"]:
        if ev[0] == "create":
            lines.append("clock %d %d %d %d %d %d %d" % ev[2])
            m["ev"].append(len(lines))
            lines.append("create_file 0 %s %d" % (hexs(s["names"][ev[1]]), ev[1] + 1))
        elif ev[0] == "op":
            lines.append("clock %d %d %d %d %d %d %d" % ev[3])
            t = ev[2].split(" ")
            m["ev"].append(len(lines))
            lines.append("%s %d" % (t[0], ev[1] + 1) + ("" if len(t) == 1 else " " + " ".join(t[1:])))
            lines.append("seek %d cur 0" % (ev[1] + 1))
        elif ev[0] == "flush":
            m["ev"].append(len(lines)); lines.append("flush %d" % (ev[1] + 1))
        else:
            m["ev"].append(len(lines)); lines.append("drop_file %d" % (ev[1] + 1))
    m["i_unmount"] = len(lines)
    lines += ["unmount", "wlog 0", "pages"]
    m["p_final"] = len(lines) - 1
    lines.append("mount 1 0 lossy")
    m["i_read"] = {}
    for f in sorted({ev[1] for ev in s["events"] if ev[0] == "create"}):
        lines.append("open_file 0 %s %d" % (hexs(s["names"][f]), 50 + f))
        m["i_read"][f] = len(lines)
        lines += ["read_all %d 4000000" % (50 + f), "drop_file %d" % (50 + f)]
    m["i_stats"] = len(lines)
    lines += ["stats", "unmount"]
    return lines, m


def lfn_hex(name):
    u16 = name.encode("utf-16-le")
    return "".join("%02x%02x" % (u16[i + 1], u16[i]) for i in range(0, len(u16), 2))


def parse_entries(ents):
    """decode line entries -> {lfn hex: (size, cluster, chain len|x, content bytes)}"""
    d = {}
    for e in (ents.split(";") if ents else []):
        t = e.split(",")
        if len(t) == 5:
            d[t[0]] = (int(t[1]), int(t[2]), t[3], b"" if t[4] == "-" else bytes.fromhex(t[4]))
    return d


def stream(rep, tier, rng, who):
    n = 36 if tier == "quick" else 600
    nops = 12 if tier == "quick" else 36
    _, table = namelib.upper_table("default")
    mout = vlib.model_run("csess2", "\n".join("fmt %s %d 0" % (c[2], c[3]) for c in CONFS) + "\n")
    geo = {}
    for conf, line in zip(CONFS, mout):
        t = line.split()
        if t[0] == "ok":
            geo[conf[0]] = (int(t[1]), int(t[2]), int(t[3]))
    sessions_ = []
    for i in range(n):
        conf = CONFS[i % len(CONFS)]
        if conf[0] in geo:
            sessions_.append(gen_session(rng, conf, nops, geo[conf[0]]))
    built = [build_script(s) for s in sessions_]
    results = []
    for i in range(0, len(built), 40):
        results += vlib.run_scripts([b[0] for b in built[i:i + 40]])
    # ---- one model-runner pass
    mtext = ["upper " + table]
    plan = []
    for si, (s, (lines, m), res) in enumerate(zip(sessions_, built, results)):
        conf = s["conf"]
        mtext.append("fmt %s %d %d" % (conf[2], conf[3], s["acc"])); plan.append((si, "fmt", None))
        mi = {}                      # file index -> model handle index (creation order among successful creates)
        for ei, (ev, i) in enumerate(zip(s["events"], m["ev"])):
            if ev[0] == "create":
                mtext.append("create %s %d %d %d %d %d %d %d | %s" % ((hexs(s["names"][ev[1]]),) + tuple(ev[2]) + (ev_tokens(res[i - 1:i + 1]),)))
                plan.append((si, "create", ei))
                if res[i].kind == "ok":
                    mi[ev[1]] = len(mi)
            elif ev[1] not in mi:
                mtext.append("sync m | " + ev_tokens(res[i:i + (2 if ev[0] == "op" else 1)])); plan.append((si, "skip", ei))
                continue
            elif ev[0] == "op":
                mtext.append("step %d %d %d %d %d %d %d %d %s | %s" % ((mi[ev[1]],) + tuple(ev[3]) + (ev[2], ev_tokens(res[i:i + 2]))))
                plan.append((si, "step", ei))
            elif ev[0] == "flush":
                mtext.append("flush %d | %s" % (mi[ev[1]], ev_tokens([res[i]]))); plan.append((si, "flush", ei))
            else:
                # the drop of a handle: File::flush with the result ignored
                mtext.append("flush %d | %s" % (mi[ev[1]], ev_tokens([res[i]]))); plan.append((si, "drop", ei))
            mtext.append("decf"); plan.append((si, "decf", ei))
            mtext.append("decfd"); plan.append((si, "decfd", ei))
        s["mi"] = dict(mi)
        mtext.append("dec"); plan.append((si, "dec_end", None))
        mtext.append("sync x | " + ev_tokens([res[m["i_unmount"]]])); plan.append((si, "unmount", None))
        mtext.append("digest"); plan.append((si, "digest", None))
        fp = res[m["p_final"]]
        mtext.append("decp %d %s" % (conf[3], fp.payload if fp.kind == "ok" else "")); plan.append((si, "decp", None))
        mtext.append("sync m |"); plan.append((si, "decp_end", None))
    mout = vlib.model_run("csess2", "\n".join(mtext) + "\n")[1:]
    assert len(mout) == len(plan), (len(mout), len(plan))
    # ---- evaluation
    dist = {"by_volume": {}, "files": {}, "ops": {}, "outcomes": {}, "steps": 0, "creates_while_dirty": 0, "flushes": 0, "drops": 0,
            "flush_wrote_entry": 0, "flush_clean": 0, "whole_image_compares": 0, "durable_image_compares": 0, "offsets_compared": 0,
            "facts_checked": 0, "fact_bytes_checked": 0, "max_facts_at_once": 0, "chains_provably_interleaved": 0, "sessions_all_decoded": 0,
            "content_bytes_decoded": 0}
    state = {}
    for (si, what, ei), out in zip(plan, mout):
        s = sessions_[si]; lines, m = built[si]; res = results[si]; conf = s["conf"]
        label = conf[0]
        bits, cs, total = geo[label]
        stt = state.setdefault(si, {"bad": False, "corr": None, "content": {}, "pos": {}, "fact": {}, "dfact": {}, "dirty": set(), "upto": 0})

        def viol(text, upto, nofail):
            # a broken correspondence is held back: the session goes on with the checks that do not need the model (the library's own
            # results, the decoder on the device) - if one of them fails, THAT is the failing input; otherwise the held one is reported
            # when the session ends
            if nofail:
                if stt["corr"] is None:
                    stt["corr"] = (text, upto)
                return
            stt["bad"] = True
            rep.violation("[%s session2 %s] %s" % (who, label, text), {"script": lines[:upto + 1]})
        if stt["bad"]:
            continue
        if what == "decp_end":
            if stt["corr"] is not None:
                text, upto = stt["corr"]
                stt["bad"] = True
                rep.violation("[%s session2 %s] %s" % (who, label, text), {"script": lines[:upto + 1], "theorem_or_correspondence": CORR}, nofail=True)
            continue
        parts = [x.strip() for x in out.split("|")]
        if what == "fmt":
            rep.count()
            dist["by_volume"][label] = dist["by_volume"].get(label, 0) + 1
            dist["files"][s["k"]] = dist["files"].get(s["k"], 0) + 1
            pf = res[m["p_format"]]
            lib = cvol_corr.md5s(cvol_corr.pages_of(pf)) if pf.kind == "ok" else None
            t = out.split(" ")
            if t[0] != "ok" or lib is None or cvol_corr.parse_digest(t[5:]) != lib:
                viol("the formatted device differs from the model's formatted image", m["p_format"], True)
                stt["bad"] = True
                rep.violation("[%s session2 %s] the formatted device differs from the model's formatted image" % (who, label),
                              {"script": lines[:m["p_format"] + 1], "theorem_or_correspondence": CORR}, nofail=True)
            continue

        def images_ok(i):
            """whole-image and durable-image comparison fields of a create / step / flush / sync answer"""
            if stt["corr"] is not None:
                return True
            if len(parts) != 4:
                viol("model runner: %s" % out[:100], i, True); return False
            if not parts[2].startswith("same"):
                viol("device and model image differ after '%s': %s" % (lines[i][:50], parts[2][:120]), i, True); return False
            if not parts[3].startswith("same"):
                viol("after '%s' the device image as of the library's last device flush is not the model's durable image "
                     "(Model/VolSession2.v s2_durable: the image right after the last flush / drop step): %s" % (lines[i][:50], parts[3][:120]), i, True)
                return False
            dist["whole_image_compares"] += 1; dist["durable_image_compares"] += 1
            dist["offsets_compared"] += int(parts[2].split()[1]) + int(parts[3].split()[1])
            return True
        if what in ("create", "step", "flush", "drop", "skip"):
            ev = s["events"][ei]; i = m["ev"][ei]; stt["upto"] = i
            r = res[i]
        if what == "skip":
            images_ok(i)
            continue
        if what == "create":
            f = ev[1]
            if r.kind not in ("ok", "err"):
                viol("create_file %r -> %s %s" % (s["names"][f], r.kind, r.payload[:80]), i, False); continue
            if stt["corr"] is None and (parts[0].split(" ")[0] == "ok") != (r.kind == "ok"):
                viol("create_file %r: model '%s', library '%s %s'" % (s["names"][f], parts[0], r.kind, r.payload[:40]), i, True)
            images_ok(i)
            if r.kind == "ok":
                stt["content"][f] = bytearray(); stt["pos"][f] = 0
                # a new, empty file is a fact from the moment create_file returns
                stt["fact"][f] = b""
                if stt["dirty"]:
                    dist["creates_while_dirty"] += 1
            continue
        if what == "step":
            f = ev[1]; o = ev[2]; rp = res[i + 1]
            t = o.split(" ")
            dist["steps"] += 1
            dist["ops"][t[0]] = dist["ops"].get(t[0], 0) + 1
            oc = t[0] + ":" + (r.kind if r.kind != "err" else "err " + r.payload.split(" ")[0])
            dist["outcomes"][oc] = dist["outcomes"].get(oc, 0) + 1
            if r.kind not in ("ok", "err"):
                viol("%s -> %s %s" % (lines[i][:60], r.kind, r.payload[:80]), i, False); continue
            content = stt["content"][f]; pos = stt["pos"][f]
            if t[0] == "write" and r.ok:
                kk = int(r.payload); data = b"" if t[1] == "-" else bytes.fromhex(t[1])
                if kk > 0:
                    if pos + kk > len(content):
                        content.extend(b"\0" * (pos + kk - len(content)))
                    content[pos:pos + kk] = data[:kk]; pos += kk
                    stt["fact"].pop(f, None); stt["dfact"].pop(f, None); stt["dirty"].add(f)
            elif t[0] == "read" and r.ok:
                data = b"" if r.payload in ("", "-") else bytes.fromhex(r.payload)
                if data != bytes(content[pos:pos + len(data)]):
                    viol("read at %d of file %d returned bytes that were never written there" % (pos, f), i, False); continue
                pos += len(data)
            elif t[0] == "seek" and r.ok:
                pos = int(r.payload)
            elif t[0] == "truncate" and r.ok:
                if pos < len(content):
                    stt["fact"].pop(f, None); stt["dfact"].pop(f, None); stt["dirty"].add(f)
                del content[pos:]
            stt["pos"][f] = pos
            want = r.kind + ((" " + r.payload.split(" ")[0]) if r.payload else "")
            if t[0] == "read":
                want = r.kind + " " + (r.payload if r.payload else "-")
            if not rp.ok or int(rp.payload) != pos:
                viol("position of file %d after '%s': the library reports %s, its own results add up to %d" % (f, lines[i][:40], rp.payload, pos), i + 1, False); continue
            if stt["corr"] is not None:
                continue
            if len(parts) != 4:
                viol("model runner: %s" % out[:100], i, True); continue
            if parts[0] != want:
                viol("session machine and library disagree on '%s': model '%s', library '%s'" % (lines[i][:40], parts[0][:80], want[:80]), i, True); continue
            hs = parts[1].split(";")
            ms = hs[s["mi"][f]].split(" ") if s["mi"][f] < len(hs) else ["?", "?"]
            if ms[0] != str(pos) or ms[1] != str(len(content)):
                viol("position/size of file %d after '%s': model %s/%s, library %s/%d" % (f, lines[i][:40], ms[0], ms[1], rp.payload, len(content)), i, True); continue
            images_ok(i + 1)
            continue
        if what in ("flush", "drop"):
            f = ev[1]
            if r.kind != "ok":
                viol("%s -> %s %s" % (lines[i], r.kind, r.payload[:80]), i, False); continue
            wrote = any(e[0] == "w" for e in r.events)
            flushed = [e for e in r.events if e[0] in ("w", "f")]
            # C14, directly: whatever flush / drop writes is followed by a device flush, as the last device event of the call
            if not flushed or flushed[-1][0] != "f":
                viol("'%s' did not end with a device flush: what it wrote (and every earlier write of the session) is not durable" % lines[i], i, False); continue
            images_ok(i)
            dirty = parts[0].split(" ")[1] == "1" if stt["corr"] is None else wrote
            if wrote != dirty:
                viol("'%s': the library %s the entry, the model's editor of that handle is %s" % (lines[i], "wrote" if wrote else "did not write",
                                                                                                  "dirty" if dirty else "clean"), i, True); continue
            dist["flush_wrote_entry" if wrote else "flush_clean"] += 1
            dist["flushes" if what == "flush" else "drops"] += 1
            stt["fact"][f] = bytes(stt["content"][f]); stt["dirty"].discard(f)
            # the call ended with a device flush: the fact holds on the DURABLE image as well (C14)
            stt["dfact"][f] = stt["fact"][f]
            continue
        if what in ("decf", "decfd"):
            # ---- the C04 / C14 clause itself on the DEVICE image (decf) and on the device image as of the last device flush (decfd)
            # after this call: every file with a fact decodes with that content
            facts = stt["fact"] if what == "decf" else stt["dfact"]
            which = "" if what == "decf" else " on the DURABLE image (as of the library's last device flush)"
            head, _, ents = out.partition(" : ")
            hv = head.split(" ")
            d = parse_entries(ents)
            if hv[1] != "0":
                viol("after '%s' the root of the device decodes with %s issue(s)%s" % (lines[stt["upto"]][:50], hv[1], which), stt["upto"] + 1, False); continue
            bad = None
            for f, fact in facts.items():
                e = d.get(lfn_hex(s["names"][f]))
                if e is None:
                    bad = "the decoder does not list %r" % s["names"][f]
                elif e[0] != len(fact) or e[3] != fact:
                    bad = ("%r was flushed with %d bytes and not modified since; the decoder shows size %d and %s content"
                           % (s["names"][f], len(fact), e[0], "the same" if e[3] == fact else "OTHER"))
                if bad:
                    break
                dist["facts_checked"] += 1; dist["fact_bytes_checked"] += len(fact)
            if bad:
                viol("after '%s'%s: %s" % (lines[stt["upto"]][:50], which, bad), stt["upto"] + 1, False); continue
            dist["max_facts_at_once"] = max(dist["max_facts_at_once"], len(facts))
            continue
        if what in ("dec_end", "decp"):
            # ---- every handle is flushed / dropped: the whole volume, with the well-formedness pass
            upto = m["i_unmount"] - 1 if what == "dec_end" else m["i_stats"]
            head, _, ents = out.partition(" : ")
            hv = head.split(" ")
            d = parse_entries(ents)
            files = sorted(stt["content"])
            problems = []
            if len(hv) != 5:
                viol("model runner: %s" % out[:100], upto, True); continue
            if int(hv[0]) != len(files):
                problems.append("%s root nodes for %d created files" % (hv[0], len(files)))
            if hv[1] != "0" or hv[2] != "0":
                problems.append("%s decode / %s well-formedness issue(s), %s lost cluster(s)" % (hv[1], hv[2], hv[4]))
            ncl = 0
            firsts = []
            for f in files:
                content = bytes(stt["content"][f])
                e = d.get(lfn_hex(s["names"][f]))
                n = (len(content) + cs - 1) // cs
                ncl += n
                if e is None:
                    problems.append("%r not decoded" % s["names"][f]); continue
                if e[0] != len(content) or e[3] != content:
                    problems.append("%r: size field %d, %s content; the session observed %d bytes" % (s["names"][f], e[0], "same" if e[3] == content else "other", len(content)))
                if (e[1] == 0) != (len(content) == 0) or e[2] != ("x" if n == 0 else str(n)):
                    problems.append("%r: first cluster %d, chain %s for %d bytes" % (s["names"][f], e[1], e[2], len(content)))
                if n:
                    firsts.append((e[1], n))
            if int(hv[3]) != total - ncl:
                problems.append("%s free clusters, expected %d" % (hv[3], total - ncl))
            if what == "decp":
                for f in files:
                    ra = res[m["i_read"][f]]
                    back = b"" if ra.payload in ("", "-") else bytes.fromhex(ra.payload)
                    if not ra.ok or back != bytes(stt["content"][f]):
                        problems.append("after remount the library reads %d bytes of %r back" % (len(back), s["names"][f]))
                stl = res[m["i_stats"]]
                if stl.ok and int(stl.payload.split(" ")[2]) != total - ncl:
                    problems.append("stats reports %s free clusters after remount" % stl.payload.split(" ")[2])
            if problems:
                viol("with every handle flushed / dropped%s the independent decoder does not see the session's files: %s"
                     % (" and the volume unmounted" if what == "decp" else "", "; ".join(problems)), upto, False)
                continue
            if what == "decp":
                dist["sessions_all_decoded"] += 1
                dist["content_bytes_decoded"] += sum(len(stt["content"][f]) for f in files)
                # a lower bound: sessions in which the cluster range [first, first + chain length) of one file contains the first cluster of another
                firsts.sort()
                if any(firsts[j + 1][0] < firsts[j][0] + firsts[j][1] for j in range(len(firsts) - 1)):
                    dist["chains_provably_interleaved"] += 1
                rep.distinct(("session2", label, tuple(s["names"]), s["acc"], tuple(e[:3] for e in s["events"])))
            continue
        if what == "unmount":
            r = res[m["i_unmount"]]
            if r.kind != "ok":
                viol("unmount -> %s %s" % (r.kind, r.payload[:80]), m["i_unmount"], False); continue
            images_ok(m["i_unmount"])
            continue
        if what == "digest":
            fp = res[m["p_final"]]
            lib = cvol_corr.md5s(cvol_corr.pages_of(fp)) if fp.kind == "ok" else None
            if lib is None or cvol_corr.parse_digest(out.split(" ")[1:]) != lib:
                mod = cvol_corr.parse_digest(out.split(" ")[1:])
                diff = sorted(o for o in set(lib or {}) | set(mod) if (lib or {}).get(o) != mod.get(o))
                viol("after unmount %d device page(s) differ from the model's image (first at %s)" % (len(diff), diff[0] if diff else "?"),
                     m["p_final"], True)
            continue
    rep.cov["session2_corr_sessions"] = len(sessions_)
    rep.cov["session2_corr_distribution"] = dist
    rep.cov["session2_corr_rule"] = ("2-3 files per freshly formatted FAT12/16 volume (%d configurations); creates while other handles are dirty; "
                                     "0-%d interleaved write/read/seek/truncate calls each under its own clock value; flush / drop of single handles at "
                                     "random points and of all at the end in random order; WHOLE device vs model image and DURABLE device image vs "
                                     "s2_durable after every call; Spec/Abs on the device after every call vs the facts of flushed files; Spec/Abs + "
                                     "Spec/Wf with all handles flushed and on the library's final dump; remount read-back" % (len(CONFS), nops))
    if sessions_:
        s0 = sessions_[0]
        rep.sample({"session2": {"volume": s0["conf"][0], "names": s0["names"], "update_accessed_date": s0["acc"],
                                 "events": [str(e[:3])[:60] for e in s0["events"][:10]]}})
