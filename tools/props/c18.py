"""C18 - timestamps: proof (Props/C18.v) + correspondence of Model/Time.v with the real library
through the public set/flush/reopen/list path + direct check of the property statement."""
import vlib
from vlib import hexs

PROP_FILES = ["Props/C18.v"]
NAME = hexs("stamp.bin")

def r10(ms): return ms // 10 * 10
def fmt_dt(y, mo, d, h, mi, s, ms): return "%d-%d-%d/%d:%d:%d.%d" % (y, mo, d, h, mi, s, ms)

def gen_cases(rng, tier):
    dates, times = [], []
    # boundaries
    for y in (1980, 1981, 2000, 2106, 2107):
        for mo in (1, 2, 11, 12):
            for d in (1, 2, 28, 30, 31):
                dates.append((y, mo, d))
    for h in (0, 1, 12, 22, 23):
        for mi in (0, 1, 31, 58, 59):
            for s in (0, 1, 2, 29, 30, 58, 59):
                for ms in (0, 1, 9, 10, 499, 500, 990, 999):
                    times.append((h, mi, s, ms))
    # neighbouring values: consecutive creation times inside one 2-second slot (10 ms steps, odd second), and
    # modification times 2 s apart - the editor compares with the stored value before rewriting
    for base in [(10, 20, 30), (23, 59, 58), (0, 0, 0), (rng.range(0, 23), rng.range(0, 59), rng.range(0, 29) * 2)]:
        for dms in (0, 10, 20, 990, 1000, 1010, 1990, 0, 1500, 10):
            s_ = base[2] + dms // 1000
            times.append((base[0], base[1], s_, dms % 1000))
    nd, nt = (600, 2500) if tier == "quick" else (0, 120000)
    if tier == "thorough":
        dates = [(y, mo, d) for y in range(1980, 2108) for mo in range(1, 13) for d in range(1, 32)]
    for _ in range(nd):
        dates.append((rng.range(1980, 2107), rng.range(1, 12), rng.range(1, 31)))
    for _ in range(nt):
        times.append((rng.range(0, 23), rng.range(0, 59), rng.range(0, 59), rng.range(0, 999)))
    return dates, times

def run(rep, tier, seed):
    rng = vlib.Rng(seed)
    dates, times = gen_cases(rng, tier)
    n = max(len(dates), len(times))
    cases = []
    for i in range(n):
        cases.append((dates[i % len(dates)], times[i % len(times)], dates[(i * 7 + 3) % len(dates)], times[(i * 5 + 1) % len(times)],
                      dates[(i * 11 + 5) % len(dates)]))
    # consecutive creation stamps with the same date inside one 2-second slot (10 ms steps, odd second): the editor
    # compares with the stored value before rewriting, so neighbours are the interesting pairs
    walk = []
    for (d0, (h, mi, s0)) in [((2001, 2, 3), (10, 20, 30)), ((1980, 1, 1), (0, 0, 0)), ((2107, 12, 31), (23, 59, 58))]:
        for dms in (0, 10, 20, 990, 1000, 1010, 1990, 0, 1500, 10, 1000, 0):
            walk.append((d0, (h, mi, s0 + dms // 1000, dms % 1000), d0, (h, mi, s0 + dms // 1000, dms % 1000), d0))
    cases = walk + cases
    exhaustive_dates = tier == "thorough"
    # ---- implementation: set / flush / drop / reopen / list on each FAT width
    confs = [("12", 1048576, "-"), ("16", 16 * 1048576, "-"), ("32", 40 * 1048576, "512")]
    if tier == "quick":
        confs_cases = [(confs[0], cases), (confs[1], cases[:400]), (confs[2], cases[:400])]
    else:
        confs_cases = [(confs[0], cases), (confs[1], cases[:5000]), (confs[2], cases[:5000])]
    # ---- model: codec words and decoded values for every case
    minp = []
    for (cd, ct, md, mt, ad) in cases:
        minp.append("d %d %d %d" % cd); minp.append("t %d %d %d %d" % ct)
        minp.append("d %d %d %d" % md); minp.append("t %d %d %d %d" % mt)
        minp.append("d %d %d %d" % ad)
    mout = vlib.model_run("c18", "\n".join(minp) + "\n")
    assert len(mout) == len(minp), (len(mout), len(minp))
    for (fat, size, bpc), cs in confs_cases:
        script = ["dev %d 0" % size, "format - - %s %s - - - - -" % (bpc, fat), "mount 1 0 lossy", "clock 1999 9 9 9 9 9 0",
                  "create_file 0 %s 1" % NAME]
        for (cd, ct, md, mt, ad) in cs:
            script += ["set_created 1 %d %d %d %d %d %d %d" % (cd + ct), "set_modified 1 %d %d %d %d %d %d %d" % (md + mt),
                       "set_accessed 1 %d %d %d" % ad, "flush 1", "drop_file 1", "list 0", "open_file 0 %s 1" % NAME]
        res = vlib.run_scripts([script])[0]
        if not all(r.kind == "ok" for r in res[:5]):
            rep.violation("setup failed on FAT%s: %r" % (fat, [r for r in res[:5] if r.kind != "ok"]), {"script": script[:5]}, nofail=True)
            continue
        base = 5
        for i, (cd, ct, md, mt, ad) in enumerate(cs):
            ops = res[base + 7 * i: base + 7 * i + 7]
            rep.count()
            bad = [o for o in ops if o.kind != "ok"]
            if bad:
                rep.violation("FAT%s: call failed/panicked for valid stamps: %r" % (fat, bad[0]),
                              {"script": script[:5] + script[base + 7 * i: base + 7 * i + 7]})
                break
            ent = ops[5].extra[0]
            got_c, got_m, got_a = ent[5], ent[6], ent[7]
            # direct statement of the property (independent of the model)
            exp_c = fmt_dt(*(cd + (ct[0], ct[1], ct[2], r10(ct[3]))))
            exp_m = fmt_dt(*(md + (mt[0], mt[1], mt[2] // 2 * 2, 0)))
            exp_a = "%d-%d-%d" % ad
            if (got_c, got_m, got_a) != (exp_c, exp_m, exp_a):
                rep.violation("FAT%s: stamps after set/flush/reopen differ from the documented rounding: got %s %s %s expected %s %s %s"
                              % (fat, got_c, got_m, got_a, exp_c, exp_m, exp_a),
                              {"script": script[:5] + script[base + 7 * i: base + 7 * i + 7]})
                break
            # correspondence with the model (decoded values through the model's encode/decode; raw words from the slot write)
            k = 5 * i if cs is cases else 5 * i
            mo = mout[5 * i: 5 * i + 5]
            dcd = mo[0].split(); tct = mo[1].split(); dmd = mo[2].split(); tmt = mo[3].split(); dad = mo[4].split()
            if dcd[0] != "ok" or dmd[0] != "ok" or dad[0] != "ok":
                rep.violation("model date_encode panics on a valid date", {"case": [cd, md, ad]}, nofail=True); break
            m_c = "%s-%s-%s/%s:%s:%s.%s" % (dcd[2], dcd[3], dcd[4], tct[2], tct[3], tct[4], tct[5])
            m_m = "%s-%s-%s/%s:%s:%s.%s" % (dmd[2], dmd[3], dmd[4], tmt[6], tmt[7], tmt[8], tmt[9])
            m_a = "%s-%s-%s" % (dad[2], dad[3], dad[4])
            # raw words: the flush writes the 32-byte short entry field by field; collect them by slot offset
            ws = ops[3].writes()
            slot = {}
            if ws:
                b0 = ws[0][0]
                for off, hx, _ in ws:
                    if hx != "-":
                        for j, byte in enumerate(bytes.fromhex(hx)):
                            slot[off - b0 + j] = byte
            def w16(o): return slot.get(o, 0) | (slot.get(o + 1, 0) << 8)
            raw = (slot.get(13), w16(14), w16(16), w16(18), w16(22), w16(24)) if ws else None
            mraw = (int(tct[1]), int(tct[0]), int(dcd[1]), int(dad[1]), int(tmt[0]), int(dmd[1]))
            if (m_c, m_m, m_a) != (got_c, got_m, got_a) or (raw is not None and raw != mraw):
                rep.violation("FAT%s: correspondence Model/Time.v vs implementation broken: model %s %s %s raw %s, impl %s %s %s raw %s"
                              % (fat, m_c, m_m, m_a, mraw, got_c, got_m, got_a, raw),
                              {"script": script[:5] + script[base + 7 * i: base + 7 * i + 7], "theorem": "C18_editor_created/modified/accessed"},
                              nofail=True)
                break
            rep.distinct((cd, ct, md, mt, ad))
            if i < 2 and fat == "12":
                rep.sample({"set_created": cd + ct, "set_modified": md + mt, "set_accessed": ad, "listed": [got_c, got_m, got_a], "raw_words": raw})
        rep.cov["traces_validated_against_impl"] += len(cs)
    rep.cov["exhaustive_dates"] = exhaustive_dates
    stamping(rep, tier, rng)
    rep.cov["rule"] = ("cases = (created date+time, modified date+time, accessed date) drawn from boundary values of every field plus "
                       "seeded random values (thorough: the full date domain 47616 values); each is set on an open file, flushed, the handle "
                       "dropped, the entry re-listed; distinct = distinct 5-tuples that passed both the direct rounding check and the "
                       "model comparison (decoded values and raw slot words); plus stamping histories under a scripted clock")

def rand_dt(rng):
    return (rng.range(1980, 2107), rng.range(1, 12), rng.range(1, 28), rng.range(0, 23), rng.range(0, 59), rng.range(0, 59), rng.range(0, 999))

def stamping(rep, tier, rng):
    """histories under a scripted clock: create, write, read (option on/off), rename, operations on other entries."""
    nh = 60 if tier == "quick" else 600
    scripts, models, metas = [], [], []
    for h in range(nh):
        fat, size, bpc = rng.choice([("12", 1048576, "-"), ("16", 16 * 1048576, "-"), ("32", 40 * 1048576, "512")])
        acc = rng.below(2)
        sc = ["dev %d 0" % size, "wlog 0", "format - - %s %s - - - - -" % (bpc, fat), "wlog 1", "mount 1 %d lossy" % acc]
        mo = ["new"]
        t = rand_dt(rng)
        sc += ["clock %d %d %d %d %d %d %d" % t, "create_file 0 %s 1" % hexs("a.txt")]
        mo += ["create %d %d %d %d %d %d %d" % t]
        name = "a.txt"
        checks = []   # (index of list op in sc, index of show in mo)
        nops = rng.range(3, 10)
        for _ in range(nops):
            t = rand_dt(rng)
            sc.append("clock %d %d %d %d %d %d %d" % t)
            k = rng.below(12)
            if k >= 9:
                # several calls on ONE handle without flush / drop in between, the clock moving between them; the later write
                # starts exactly on a cluster boundary (4096 is a multiple of every cluster size used here) or inside a cluster
                first = rng.choice([4096, 4096, 8192, 100])
                t2 = rand_dt(rng)
                if k == 9:
                    sc += ["seek 1 end 0", "seek 1 start 0", "write_all 1 %s" % hexs(b"p" * first)]; mo += ["write %d %d %d %d %d %d %d" % t]
                elif k == 10:
                    sc += ["set_created 1 %d %d %d %d %d %d %d" % t, "seek 1 start 0", "write_all 1 %s" % hexs(b"p" * first)]
                    mo += ["setc %d %d %d %d %d %d %d" % t, "write %d %d %d %d %d %d %d" % t]
                else:
                    sc += ["seek 1 start 0", "write_all 1 %s" % hexs(b"p" * first), "seek 1 start 0", "read 1 %d" % first]
                    mo += ["write %d %d %d %d %d %d %d" % t, "readmaybe %d %d %d %d" % (acc, t[0], t[1], t[2])]
                sc += ["clock %d %d %d %d %d %d %d" % t2, "seek 1 start %d" % first, "write_all 1 %s" % hexs(b"q" * rng.range(1, 900))]
                mo += ["write %d %d %d %d %d %d %d" % t2]
            elif k == 0:
                sc += ["write_all 1 %s" % hexs(b"x" * rng.range(1, 700))]; mo += ["write %d %d %d %d %d %d %d" % t]
            elif k == 1:
                # reads from the start, from inside a cluster, from cluster boundaries of every cluster size in use and near the end
                # (a seek beyond the end clamps; a read that returns 0 bytes stamps nothing: only modelled when data came back)
                sc += ["seek 1 start %d" % rng.choice([0, 0, 0, 16, 511, 512, 513, 700, 2048, 4095, 4096, 4100]), "read 1 %d" % rng.range(1, 600)]
                mo += ["readmaybe %d %d %d %d" % (acc, t[0], t[1], t[2])]
            elif k == 2:
                new = rng.choice(["b.txt", "a.txt", "Long Name For Stamp.dat", "c"])
                sc += ["drop_file 1", "rename 0 %s 0 %s" % (hexs(name), hexs(new)), "open_file 0 %s 1" % hexs(new)]
                name = new
            elif k == 3:
                sc += ["create_file 0 %s 2" % hexs("other.bin"), "write_all 2 %s" % hexs(b"yy" * 300), "drop_file 2"]
            elif k == 4:
                sc += ["create_dir 0 %s 3" % hexs("sub"), "create_file 3 %s 4" % hexs("inner.txt"), "drop_file 4", "drop_dir 3"]
            elif k == 5:
                sc += ["remove 0 %s" % hexs("other.bin")]
            elif k == 6:
                sc += ["flush 1"]
            else:
                # clean remount: the next stamp write-back is the first device write of the new session
                sc += ["drop_all", "unmount", "mount 1 %d lossy" % acc, "open_file 0 %s 1" % hexs(name)]
                t2 = rand_dt(rng)
                if k == 7:
                    sc += ["set_modified 1 %d %d %d %d %d %d %d" % t2]; mo += ["setm %d %d %d %d %d %d %d" % t2]
                else:
                    sc += ["set_created 1 %d %d %d %d %d %d %d" % t2]; mo += ["setc %d %d %d %d %d %d %d" % t2]
            sc += ["drop_file 1", "list 0", "open_file 0 %s 1" % hexs(name)]
            mo += ["show"]
            checks.append((len(sc) - 2, len(mo) - 1, name))
        scripts.append(sc); models.append(mo); metas.append(checks)
    res = vlib.run_scripts(scripts)
    for sc, mo, checks, rs in zip(scripts, models, metas, res):
        # resolve readmaybe using the implementation's read result length (0 bytes => no stamping)
        mo2 = []
        reads = [r for r, l in zip(rs, sc) if l.startswith("read 1 ")]
        ri = 0
        for l in mo:
            if l.startswith("readmaybe"):
                r = reads[ri]; ri += 1
                if r.kind == "ok" and r.payload not in ("", "-"):
                    mo2.append("read " + l.split(" ", 1)[1])
                else:
                    mo2.append("nop")
            else:
                mo2.append(l)
        out = vlib.model_run("c18s", "\n".join(mo2) + "\n")
        rep.count()
        bad = [r for r in rs if r.kind in ("panic", "hang", "bad")]
        if bad:
            rep.violation("stamping history: %r" % bad[0], {"script": sc}); continue
        okh = True
        for (li, mi, name) in checks:
            r = rs[li]
            ent = [e for e in r.extra if bytes.fromhex(e[8]).decode("utf-8", "replace").lower() == name.lower()]
            if r.kind != "ok" or len(ent) != 1:
                rep.violation("stamping history: entry %s not listed exactly once" % name, {"script": sc[:li + 1]}); okh = False; break
            e = ent[0]
            m = out[mi].split(" ")
            if [e[5], e[6], e[7]] != m[0:3]:
                rep.violation("stamping rules: implementation lists created/modified/accessed %s %s %s, model (Model/Time.v stamp_*) says %s %s %s"
                              % (e[5], e[6], e[7], m[0], m[1], m[2]), {"script": sc[:li + 1], "model_ops": mo2[:mi + 1]})
                okh = False; break
        if okh:
            rep.distinct(("hist", tuple(mo2)))
            rep.cov["traces_validated_against_impl"] += 1
    rep.sample({"stamping_history": scripts[0][4:14], "model_ops": models[0][:8]})
