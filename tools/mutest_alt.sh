#!/bin/sh
# usage: tools/mutest_alt.sh <scratch tree of the library> <check id>...   runs the checks against the scratch tree
# (VERIF_ALT_REPO, /repo untouched), then restores the evidence files written by those runs
T="$1"; shift
cd /verif
for id in "$@"; do
  echo "=== $id"; VERIF_ALT_REPO="$T" ./check "$id" --tier quick 2>&1 | grep -E "^(VIOLATION|OK|KNOWN)" | cut -c1-220 | head -8
  for f in replays/$id-*.json; do [ -f "$f" ] && python3 -c "
import json,sys; j=json.load(open('$f')); print('   what:', j['what'][:260])" ; done 2>/dev/null | head -4
  git checkout -- evidence/$id.json 2>/dev/null
  rm -f replays/$id-*.json
done
