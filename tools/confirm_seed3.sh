#!/bin/sh
# usage: tools/confirm_seed3.sh <ID>   round-3 seeds (/tmp/mut/<ID> worktree with the change applied, /tmp/mut/<ID>.out deliverables):
# 1. the change is exactly patch.diff and touches only src/; 2. the 70 baseline tests still pass with it; 3. the author's
# demonstration fails with the change and passes without it (their run.sh builds both in scratch copies)
ID="$1"; D=/tmp/mut/$ID; O=/tmp/mut/$ID.out
export CARGO_NET_OFFLINE=true
cd $D || exit 2
git diff -- . > /tmp/mut/$ID.confirm.diff
echo "files changed: $(git diff --name-only | tr '\n' ' ')"
if ! diff -q /tmp/mut/$ID.confirm.diff $O/patch.diff >/dev/null; then echo "NOTE: worktree diff differs from patch.diff (using worktree diff)"; fi
cargo test --workspace --no-fail-fast --offline 2>&1 | grep -E "^test .* (ok|FAILED)$" | sort > /tmp/mut/$ID.tests.txt
python3 - "$ID" <<'PY'
import json,re,sys
b=json.load(open('/root/.vp/BASELINE.json'))
sp=set(x.split("::")[-1] for x in b['stable_pass'])
ok=set()
for l in open('/tmp/mut/%s.tests.txt'%sys.argv[1]):
    m=re.match(r"test (\S+) .*\.\.\. ok",l)
    if m: ok.add(m.group(1).split("::")[-1])
print("baseline tests: %d of %d pass with the change; missing: %s" % (len(sp&ok), len(sp), sorted(sp-ok)))
PY
for f in "--no-default-features --features std,lfn" "--no-default-features --features std,alloc,lfn"; do cargo build --offline $f 2>&1 | grep -E "^error" | head -2; done
echo "--- author's demo"
(cd $O/demo && sh ./run.sh $D 2>&1 | tail -4)
rm -rf $O/demo/work
