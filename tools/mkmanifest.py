#!/usr/bin/env python3
"""Regenerates /verif/MANIFEST.json from the table below (one row per claimed property)."""
import json, os, subprocess
ROOT = os.path.dirname(os.path.dirname(os.path.abspath(__file__)))
SPEC = ("P-partial: the whole-volume refinement theorem is not proved. Deciding oracle: the Coq specification (Spec/Abs.v independent decoder, "
        "Spec/Wf.v invariants, Spec/Tree.v abstract tree / byte-array machine, Spec/Regions.v) extracted with ExtrOcamlBasic and evaluated on the real "
        "library's outcomes, device writes and raw images after every operation of generated histories. Trusted: Coq kernel, extraction, executor, judge glue.")
ROWS = {
 "C01": ("Every outcome of every namespace call is judged by the extracted abstract tree machine (tree_step) and the independently decoded image must equal the abstract tree after every call; refinement proof of the directory layer is partial.",
         SPEC, "Coq specification machine extracted and run against the implementation (refinement checking); partial Coq proofs"),
 "C02": ("Every read/write/seek/truncate outcome is judged by the extracted byte-array-with-cursor machine on boundary-focused histories over several open files; chain-level theorems (alloc/free/truncate specs) are proved over the abstract FAT store.",
         SPEC, "Coq specification machine extracted and run against the implementation; Coq proofs for the chain layer"),
 "C03": ("The C03 clauses are an executable Coq predicate (wf_issues) over an independent Coq decoder, evaluated on the raw image after every operation; preservation theorem over the model is partial.",
         SPEC, "Coq invariant checker extracted and evaluated on raw images after every op; partial Coq proofs"),
 "C04": ("Remount + full traversal through the library and the independent Coq decoder are both compared with the abstract session state at every remount point / after every op; extents read from the raw image.",
         SPEC, "Coq independent decoder + abstract machine vs implementation at remount points"),
 "C05": ("Theorems: allocation/free/truncate keep the cached free count equal to the number of free table entries, never underflow it, keep the hint in range, and fail with NotEnoughSpace only when no cluster is free (TableProofs.v, any store satisfying the get/set laws). Check: stats, FS-info words, out-of-space outcomes and capacity after delete-all vs the free entries counted by the independent Coq decoder.",
         "Proof over Model/Table.v (abstract FAT store laws; byte-level stores discharged in FatProofs.v when merged); model tied to the code by the history checks. " + SPEC,
         "Coq proof (invariant over alloc/free/truncate) + independent decoder vs implementation on fill/delete cycles"),
 "C11": ("Every device write of every operation is classified by the extracted Spec/Regions.v against the volume decoded before the operation (status byte, FS-info, FAT copies, fixed root, free / directory / own-file clusters) on volumes embedded in a larger canary-filled device.",
         SPEC, "Coq region classifier extracted and applied to every device write of the implementation"),
 "C12": ("Theorems over Model/Flags.v for every mount-time byte and every history: the dirty bit is on disk after a structural change, mount-time bits are never cleared, a clean unmount restores the byte. Check: status byte read from the raw image at every call boundary for pre-set bytes, with unmount, drop and abandonment+remount.",
         "Trusted: that every structural device write passes set_dirty_flag(true) is established on the implementation by the boundary check (device writes classified by Spec/Regions.v), not by proof.",
         "Coq proof (state-machine invariant) + status byte examined at every call boundary"),
 "C13": ("Read-only sessions on populated volumes (clean/dirty, with/without FS-info count): every device write is counted; none is allowed except the documented FS-info exception.",
         SPEC, "exhaustive observation of device writes under generated read-only histories; Coq image-frame lemma only"),
 "C17": ("Theorems for every list of 32-byte slots, both buffer variants: directory listing is total, equals the independent specification (long name only from a complete, ordered, checksummed run; <= 255 units), accessors in range. Check: crafted directory regions in three directory kinds and two builds vs model vs spec.",
         "Trusted: Model/Lfn.v describes DirIter/LongNameBuilder (differentially tested on ~73k crafted directories per quick run).",
         "Coq proof (builder invariant, structural recursion on slots) + differential correspondence"),
 "C18": ("Round-trip, frame and stamping-rule theorems for all valid dates/times over the Gallina model of time.rs/dir_entry.rs; model tied to the Rust through set/flush/reopen/list and a scripted clock.",
         "Trusted: Model/Time.v describes src/time.rs + the time fields of dir_entry.rs (differentially tested).",
         "Coq proof (lia over div/mod codecs) + differential correspondence"),
 "C19": ("Theorems: both long-name buffer variants list every slot sequence identically; from_ucs2_units agrees up to 260 units; ASCII names match identically under any two case mappings that agree below 128. Check: same histories under three feature sets compared pairwise (images + observation traces).",
         "Operation-level equivalence is P-partial (needs the directory-operation model); covered by the three-build history comparison.",
         "Coq proof (variant equivalence) + three-build differential runs"),
}
def chk(pid, text, note, tech):
    return {"property_id": pid, "quick_cmd": "./check %s --tier quick" % pid, "thorough_cmd": "./check %s --tier thorough" % pid,
            "evidence_file": "/verif/evidence/%s.json" % pid, "replay_cmd_template": "./check %s --replay {path}" % pid,
            "engine": "coq-model+correspondence",
            "level_claimed": {"category": "proof", "text": text, "design_ref": "DESIGN.md section 7, " + pid},
            "level_note": note, "technique": tech}
def main():
    import importlib.util
    extra = os.path.join(ROOT, "tools", "manifest_rows.json")
    rows = dict(ROWS)
    if os.path.exists(extra):
        rows.update({k: tuple(v) for k, v in json.load(open(extra)).items()})
    hooks_commit = subprocess.run(["git", "-C", "/repo", "log", "--format=%h", "--grep=verif hooks"], capture_output=True, text=True).stdout.split()
    m = {"version": 1, "setup_cmd": "./setup.sh",
         "hooks": {"guard": "--cfg fatfs_verif", "enable": "RUSTFLAGS=\"--cfg fatfs_verif\" cargo build (the harness crate /verif/harness depends on /repo by path)",
                   "baseline_off_cmd": "cd /repo && cargo test --workspace --no-fail-fast --offline", "source_commits": hooks_commit, "add_only": True},
         "engines": [{"name": "coq-model+correspondence", "path": "/verif/check", "serves_properties": sorted(rows),
                      "kind_free_text": "Coq 8.16 theorems over an executable Gallina model and specification (coq/), extracted to OCaml (ocaml/) and compared with the real library driven by a Rust executor (harness/) on generated inputs; python orchestration (tools/)"}],
         "checks": [chk(p, *rows[p]) for p in sorted(rows)],
         "not_applicable": [{"property_id": "C%02d" % i, "reason": "check not built yet in this session (work in progress, see DESIGN.md section 9); will be claimed when its model, theorems and correspondence run"}
                            for i in range(1, 21) if "C%02d" % i not in rows],
         "notes": "Every check: ./check <ID> --tier quick|thorough; exit 1 + VIOLATION line on a failing input or a broken proof/correspondence; KNOWN-FINDING lines for entries of known_findings.json."}
    json.dump(m, open(os.path.join(ROOT, "MANIFEST.json"), "w"), indent=1)
if __name__ == "__main__":
    main()
