#!/bin/sh
cd /verif
for id in $(python3 -c "import json; print(' '.join(c['property_id'] for c in json.load(open('MANIFEST.json'))['checks']))"); do
  s=$(date +%s)
  out=$(timeout 3000 ./check $id --tier thorough 2>&1 | grep -E "^(VIOLATION|OK)" | head -2 | tr '\n' ' ' | cut -c1-200)
  e=$(date +%s)
  echo "$id $((e-s))s: $out"
done
