#!/bin/sh
# runs every claimed check under several seeds and reports anything that is not OK (false-alarm hunt on the unchanged tree)
cd /verif
for seed in "$@"; do
  for id in $(python3 -c "import json; print(' '.join(c['property_id'] for c in json.load(open('MANIFEST.json'))['checks']))"); do
    out=$(VERIF_SEED=$seed timeout 1500 ./check $id --tier quick 2>&1 | grep -E "^(VIOLATION|OK)" | head -2 | tr '\n' ' ')
    case "$out" in OK*) ;; *) echo "seed=$seed $id: $out"; cp replays/$id-$seed-0.json /tmp/sweep-$id-$seed.json 2>/dev/null;; esac
  done
  echo "seed $seed done"
done
