"""Generation of operation histories (sessions) for the executor, and the plumbing that sends the
executor's transcript through the extracted specification (ocaml judge).  The generator keeps a light
shadow of the namespace only to produce mostly-valid, admissible operations (no remove/rename of an object
with a live handle); it is not an oracle."""
import os, subprocess
import vlib
from vlib import hexs

CACHE = os.path.join(vlib.ROOT, ".cache")

def upper_table(variant="default"):
    os.makedirs(CACHE, exist_ok=True)
    p = os.path.join(CACHE, "upper_%s.txt" % variant)
    exe = vlib.exec_path(variant)
    if not os.path.exists(p) or os.path.getmtime(p) < os.path.getmtime(exe):
        open(p, "w").write(vlib.exec_raw(["uppertable"], "", variant))
    return p

# ---------------------------------------------------------------- volume configurations
def configs(tier):
    """(label, device bytes, format line). Small volumes so that per-op decoding is cheap."""
    c = [
        ("fat12-tiny-root16", 64 * 512, "format 512 64 512 12 16 2 - - -"),
        ("fat12-small", 400 * 512, "format 512 400 512 12 32 2 - - -"),
        ("fat12-1fat", 300 * 512, "format 512 300 512 12 64 1 - - -"),
        ("fat12-c2k", 2000 * 512, "format 512 2000 2048 12 512 2 - - -"),
        ("fat12-s1k", 600 * 1024, "format 1024 600 1024 12 32 2 - - -"),
        ("fat12-s4k", 200 * 4096, "format 4096 200 4096 - 128 2 - - -"),
        ("fat12-default-1M", 1048576, "format - - - - - - - - -"),
        ("fat16-min", 4400 * 512, "format 512 4400 512 16 32 2 - - -"),
        ("fat16-c2k-1fat", 18000 * 512, "format 512 18000 2048 16 512 1 - - -"),
        ("fat32-min", 67000 * 512, "format 512 67000 512 32 - 2 - - -"),
        ("fat32-s1k-1fat", 67000 * 1024, "format 1024 67000 1024 32 - 1 - - -"),
    ]
    return c

GOOD_NAMES = ["a", "B", "file.txt", "File.TXT", "long file name with spaces.data", "Ünïcode.txt", "x.y.z",
              "averyveryverylongname_that_needs_many_lfn_slots_0123456789.bin", "UPPER", "lower.c", "dir1", "Dir2",
              "sub", "thirteenchars", "thirteenchars.26charsxxxxx", "straße", "Жук.txt", "é.x",
              "name.with.many.dots.ext", "~tilde", "1", "#hash&amp", "\U0001F600smile.txt", "trail￿"]
BAD_NAMES = ["", "bad:name", "que?", "a*b", "pipe|", "lt<gt>", "quote\"", "back\\slash", "ctl\x01x", "x" * 256, "é" * 128,
             "tab\tname", "\U0001F600" * 64]

class Gen:
    def __init__(self, rng, mutating=True, file_io=True, depth=3):
        self.r = rng
        self.dirs = {(): None}            # path tuple -> None
        self.files = {}                    # path tuple -> approx size
        self.dh = {0: ()}                  # handle -> path
        self.fh = {}                       # handle -> path
        self.nexth = 1
        self.lines = []
        self.mutating = mutating
        self.file_io = file_io
        self.cluster = 512

    def name(self, good=90):
        if self.r.chance(good, 100):
            return self.r.choice(GOOD_NAMES)
        return self.r.choice(BAD_NAMES)

    def rel(self, base, path):
        """string for `path` relative to dir `base` (a prefix), with occasional decoration"""
        comps = list(path[len(base):])
        s = "/".join(comps)
        k = self.r.below(20)
        if k == 0: s = "/" + s
        elif k == 1: s = s + "/"
        elif k == 2 and len(comps) > 1: s = s.replace("/", "//", 1)
        elif k == 3 and comps: s = "./" + s if base != () else s
        return s

    def pick_base(self, path):
        cands = [h for h, p in self.dh.items() if path[:len(p)] == p]
        h = self.r.choice(cands)
        return h, self.dh[h]

    def anydir(self):
        return self.r.choice(sorted(self.dirs.keys()))

    def has_handle_under(self, path):
        for p in list(self.dh.values()) + list(self.fh.values()):
            if p[:len(path)] == path and (p != () or path == ()):
                if len(p) >= len(path) and path != ():
                    return True
        return False

    def newh(self):
        h = self.nexth; self.nexth += 1; return h

    def emit(self, l):
        self.lines.append(l)

    def case_variant(self, s):
        k = self.r.below(3)
        return s.upper() if k == 0 else (s.lower() if k == 1 else s.swapcase())

    def step(self):
        r = self.r
        k = r.below(100)
        d = self.anydir()
        if not self.mutating and k < 22:
            k = 22 + r.below(22)           # read-only sessions: open / list instead of create
        if k < 14:      # create file
            nm = self.name()
            p = d + (nm,)
            h, base = self.pick_base(d)
            fhn = self.newh() if r.chance(2, 3) else 0
            self.emit("create_file %d %s %d" % (h, hexs(self.rel(base, p)), fhn))
            valid = nm in GOOD_NAMES
            low = tuple(x.lower() for x in p)
            exists_dir = any(tuple(x.lower() for x in q) == low for q in self.dirs)
            if valid and not exists_dir:
                ex = [q for q in self.files if tuple(x.lower() for x in q) == low]
                q = ex[0] if ex else p
                if not ex:
                    self.files[p] = 0
                if fhn:
                    if q in self.fh.values():   # never two handles on one file
                        self.emit("drop_file %d" % fhn)
                    else:
                        self.fh[fhn] = q
        elif k < 22:    # create dir
            if len(d) >= 4: return
            nm = self.name()
            p = d + (nm,)
            h, base = self.pick_base(d)
            dhn = self.newh() if r.chance(1, 2) else 0
            self.emit("create_dir %d %s %d" % (h, hexs(self.rel(base, p)), dhn))
            low = tuple(x.lower() for x in p)
            if nm in GOOD_NAMES and not any(tuple(x.lower() for x in q) == low for q in self.files):
                ex = [q for q in self.dirs if tuple(x.lower() for x in q) == low]
                q = ex[0] if ex else p
                self.dirs[q] = None
                if dhn: self.dh[dhn] = q
        elif k < 30:    # open file / dir (existing, case-changed, or missing)
            if self.files and r.chance(3, 4):
                p = r.choice(sorted(self.files))
                if p in self.fh.values():
                    return
                h, base = self.pick_base(p[:-1])
                s = self.rel(base, p)
                if r.chance(1, 3): s = self.case_variant(s)
                fhn = self.newh()
                self.emit("open_file %d %s %d" % (h, hexs(s), fhn))
                if s.lower() == self.rel(base, p).lower() or True:
                    self.fh[fhn] = p
            else:
                p = d + (self.name(95),)
                h, base = self.pick_base(d)
                self.emit(("open_dir %d %s 0" if r.chance(1, 2) else "open_file %d %s 0") % (h, hexs(self.rel(base, p))))
        elif k < 36:    # open dir with handle
            p = self.anydir()
            if p == (): return
            h, base = self.pick_base(p[:-1])
            dhn = self.newh()
            self.emit("open_dir %d %s %d" % (h, hexs(self.rel(base, p)), dhn))
            self.dh[dhn] = p
        elif k < 44:    # list
            h = r.choice(sorted(self.dh))
            self.emit("list %d" % h)
        elif k < 52 and self.mutating:   # remove
            cands = [p for p in list(self.files) + [q for q in self.dirs if q != ()] if not self.live(p)]
            if cands and r.chance(4, 5):
                p = r.choice(sorted(cands))
                h, base = self.pick_base(p[:-1])
                s = self.rel(base, p)
                if r.chance(1, 4): s = self.case_variant(s)
                self.emit("remove %d %s" % (h, hexs(s)))
                if p in self.files: del self.files[p]
                elif not any(q[:len(p)] == p and q != p for q in list(self.dirs) + list(self.files)):
                    del self.dirs[p]
            else:
                p = d + (self.name(80),)
                low = tuple(x.lower() for x in p)
                livelow = [tuple(x.lower() for x in q) for q in list(self.fh.values()) + [x for hh, x in self.dh.items() if hh != 0]]
                if any(q[:len(low)] == low for q in livelow):
                    return
                self.emit("remove 0 %s" % hexs(self.rel((), p)))
                for q in [q for q in self.files if tuple(x.lower() for x in q) == low]:
                    del self.files[q]
        elif k < 62 and self.mutating:   # rename / move
            cands = [p for p in list(self.files) + [q for q in self.dirs if q != ()] if not self.live(p)]
            if not cands: return
            p = r.choice(sorted(cands))
            dd = self.anydir()
            if p in self.dirs and r.chance(1, 12):
                # the special entries of a sub-directory as rename source / remove target: must be refused
                h, base = self.pick_base(p[:-1])
                sp = self.rel(base, p) + r.choice(["/.", "/.."])
                if r.chance(1, 2):
                    self.emit("rename %d %s 0 %s" % (h, hexs(sp), hexs(self.name(100) + "_moved")))
                else:
                    self.emit("remove %d %s" % (h, hexs(sp)))
                return
            if r.chance(1, 8):
                # another spelling (case) of the entry's own name: the new spelling must be stored
                h, base = self.pick_base(p[:-1])
                np = p[:-1] + (self.case_variant(p[-1]),)
                self.emit("rename %d %s %d %s" % (h, hexs(self.rel(base, p)), h, hexs(self.rel(base, np))))
                self.emit("list %d" % h)
                if p in self.files:
                    self.files[np] = self.files.pop(p)
                else:
                    for q in [q for q in self.dirs if q[:len(p)] == p]:
                        del self.dirs[q]; self.dirs[np + q[len(p):]] = None
                    for q in [q for q in self.files if q[:len(p)] == p]:
                        self.files[np + q[len(p):]] = self.files.pop(q)
                return
            if p in self.dirs and dd[:len(p)] == p:
                if not r.chance(1, 6):   # moving a directory into itself: rarely, on purpose
                    return
            nm = self.name(92)
            np = dd + (nm,)
            h, base = self.pick_base(p[:-1])
            h2, base2 = self.pick_base(dd)
            self.emit("rename %d %s %d %s" % (h, hexs(self.rel(base, p)), h2, hexs(self.rel(base2, np))))
            low = tuple(x.lower() for x in np)
            taken = any(tuple(x.lower() for x in q) == low for q in list(self.dirs) + list(self.files) if q != p)
            if nm in GOOD_NAMES and not taken and not (p in self.dirs and dd[:len(p)] == p):
                if p in self.files:
                    self.files[np] = self.files.pop(p)
                else:
                    for q in [q for q in self.dirs if q[:len(p)] == p]:
                        del self.dirs[q]; self.dirs[np + q[len(p):]] = None
                    for q in [q for q in self.files if q[:len(p)] == p]:
                        self.files[np + q[len(p):]] = self.files.pop(q)
        elif k < 90 and self.file_io and self.fh:
            self.file_op()
        elif k < 94 and self.fh:
            h = r.choice(sorted(self.fh)); del self.fh[h]; self.emit("drop_file %d" % h)
        elif k < 97 and len(self.dh) > 1:
            h = r.choice([x for x in sorted(self.dh) if x != 0]); del self.dh[h]; self.emit("drop_dir %d" % h)
        elif k < 98:
            self.fh.clear(); self.dh = {0: ()}; self.emit("drop_all")
        else:
            self.emit("stats")

    def live(self, p):
        for q in list(self.fh.values()) + [x for h, x in self.dh.items() if h != 0]:
            if q[:len(p)] == p:
                return True
        return False

    def boundary_len(self):
        r = self.r; cs = self.cluster
        k = r.below(10)
        if k < 5:
            return max(0, r.choice([1, 2, 3]) * cs // r.choice([1, 1, 2]) + r.choice([-1, 0, 1]))
        if k < 8:
            return r.range(0, 40)
        return r.range(0, 3 * cs + 7)

    def file_op(self):
        r = self.r
        h = r.choice(sorted(self.fh))
        k = r.below(100)
        if k < 30 and self.mutating:
            n = self.boundary_len()
            if r.chance(1, 2):
                self.emit("write_pat %d %d %d" % (h, n, r.below(256)))
            else:
                n = min(n, 1200)
                self.emit("write %d %s" % (h, hexs(bytes((r.below(256) for _ in range(n))))))
        elif k < 55:
            self.emit("read %d %d" % (h, self.boundary_len()))
        elif k < 80:
            wh = r.choice(["start", "start", "end", "cur"])
            cs = self.cluster
            if wh == "start":
                off = r.choice([0, 1, cs - 1, cs, cs + 1, 2 * cs, 2 * cs + 1, r.range(0, 4 * cs), 2**32 + 5, 2**63 + 1])
            elif wh == "end":
                off = r.choice([0, -1, -cs, -cs - 1, 1, cs, -r.range(0, 3 * cs), 2**40, -2**63, 2**63 - 1])
            else:
                off = r.choice([0, 1, -1, cs, -cs, r.range(-2 * cs, 2 * cs), 2**62, -2**63])
            self.emit("seek %d %s %d" % (h, wh, off))
        elif k < 88 and self.mutating:
            self.emit("truncate %d" % h)
        elif k < 96:
            self.emit("flush %d" % h)
        else:
            self.emit("extents %d" % h)


def dev_line(rng, size):
    """the device before formatting: blank, or stale (every byte non-zero: what format and the library do not write stays garbage,
    so a directory cluster that is not zeroed completely or a structure that is not initialised shows up)"""
    return "dev %d %d" % (size, rng.choice([0, 0, 0, 209, 229, 65]))


def mount_line(rng):
    """mount with the accessed-date option off (default) or on: with it, a read marks the entry for write-back"""
    return "mount 1 %d lossy" % rng.choice([0, 0, 1])


def gen_session(rng, conf, nops, mutating=True, file_io=True, mount=None, prelude=None):
    label, size, fmt = conf
    g = Gen(rng, mutating, file_io)
    try:
        toks = fmt.split()
        bps = 512 if toks[1] == "-" else int(toks[1])
        g.cluster = bps if toks[3] == "-" else int(toks[3])
    except Exception:
        pass
    head = [dev_line(rng, size), "wlog 0", fmt, "pages", "wlog 1", mount if mount is not None else mount_line(rng)]
    if prelude:
        head += prelude
    while len(g.lines) < nops:
        g.step()
    return head + g.lines


# ---------------------------------------------------------------- running
class Judged:
    def __init__(self, script, ops, jlines):
        self.script = script; self.ops = ops
        self.marks = {}; self.crash = []; self.crash_checks = 0; self.regions = {}; self.target_file = {}; self.tainted = None; self.dirty = {}; self.verdicts = {}; self.wf = {}; self.mismatch = []; self.info = {}; self.unparsed = []
        for l in jlines:
            t = l.split(" ")
            if t[0] == "O": self.verdicts[int(t[1])] = (t[2], t[3] if len(t) > 3 else "")
            elif t[0] == "W": self.wf[int(t[1])] = t[2:]
            elif t[0] == "M": self.mismatch.append(int(t[1]))
            elif t[0] == "I": self.info[int(t[1])] = dict(x.split("=") for x in t[2:])
            elif t[0] == "X": self.unparsed.append(l)
            elif t[0] == "D": self.dirty[int(t[1])] = int(t[2])
            elif t[0] == "T": self.tainted = int(t[1])
            elif t[0] == "R": self.regions.setdefault(int(t[1]), []).append((t[2], t[3], int(t[4]), int(t[5]), int(t[6]), int(t[7])))
            elif t[0] == "F": self.target_file[int(t[1])] = int(t[2])
            elif t[0] == "K": self.marks[int(t[1])] = t[2]
            elif t[0] == "C": self.crash.append((int(t[1]), int(t[2]), t[3]))
            elif t[0] == "N": self.crash_checks = int(t[2])


def run_judged(scripts, flags=("wf", "tree", "info"), variant="default", timeout=3600, shards=8):
    """runs the scripts on the executor and the transcript through the judge. Returns list of Judged."""
    if not scripts:
        return []
    table = upper_table(variant)
    env = dict(os.environ, FATFS_UPPER_TABLE=table)
    out = []
    # shard to use several cores
    n = max(1, min(shards, len(scripts)))
    chunks = [scripts[i::n] for i in range(n)]
    procs = []
    for ch in chunks:
        text = "\n---\n".join("\n".join(s) for s in ch) + "\n"
        ex = subprocess.Popen([vlib.exec_path(variant), "run"], stdin=subprocess.PIPE, stdout=subprocess.PIPE, text=True)
        procs.append((ch, ex, text))
    results = {}
    import threading
    def work(i, ch, ex, text):
        eo, _ = ex.communicate(text, timeout=timeout)
        j = subprocess.run([vlib.MODEL, "judge"] + list(flags), input=eo, preexec_fn=vlib.big_stack, stdout=subprocess.PIPE, stderr=subprocess.PIPE,
                           text=True, env=env, timeout=timeout)
        if j.returncode != 0:
            raise RuntimeError("judge failed: " + j.stderr[-2000:])
        results[i] = (vlib.parse_exec(eo), j.stdout)
    ths = [threading.Thread(target=work, args=(i, ch, ex, text)) for i, (ch, ex, text) in enumerate(procs)]
    for t in ths: t.start()
    for t in ths: t.join()
    per_chunk = []
    for i, (ch, ex, text) in enumerate(procs):
        if i not in results:
            raise RuntimeError("executor/judge shard failed")
        ops_list, jout = results[i]
        # split judge output per script
        per = []; cur = None
        for l in jout.split("\n"):
            if l.startswith("S "):
                cur = []; per.append(cur)
            elif l and cur is not None:
                cur.append(l)
        assert len(per) == len(ch) == len(ops_list), (len(per), len(ch), len(ops_list))
        per_chunk.append([Judged(s, o, j) for s, o, j in zip(ch, ops_list, per)])
    # restore original order
    res = [None] * len(scripts)
    for i in range(n):
        for k, jd in enumerate(per_chunk[i]):
            res[i + k * n] = jd
    return res


def dir_heavy_session(rng, conf, nfiles=14, fill=None):
    """a sub-directory (and, on FAT32, the root) that grows over several NON-contiguous clusters, entries whose slots straddle
    or start exactly at cluster boundaries (name lengths vary the slot count), every file later re-opened BY PATH, modified and
    dropped; ends with remount + full traversal.  Returns the script (head + ops)."""
    label, size, fmt = conf
    head = [dev_line(rng, size) if fill is None else "dev %d %d" % (size, fill), "wlog 0", fmt, "pages", "wlog 1", "mount 1 0 lossy"]
    lines = ["create_dir 0 %s 1" % hexs("deep")]
    names = []
    h = 10
    for i in range(nfiles):
        # 13*k-1 / 13*k / 13*k+1 units -> k or k+1 long-name slots: shifts where the short entry lands
        ln = rng.choice([1, 5, 12, 13, 14, 25, 26, 27, 38, 39, 40])
        nm = ("n%02d" % i) + "x" * max(0, ln - 3) + rng.choice(["", ".t", ".dat"])
        names.append(nm)
        h += 1
        lines += ["create_file 1 %s %d" % (hexs(nm), h)]
        if rng.chance(1, 2):
            lines += ["write_pat %d %d %d" % (h, rng.range(1, 700), i)]
        lines += ["drop_file %d" % h]
        if rng.chance(1, 2):
            # something else takes the next cluster(s): the directory's following cluster cannot be adjacent
            h += 1
            lines += ["create_file 0 %s %d" % (hexs("frag%02d.bin" % i), h), "write_pat %d %d %d" % (h, rng.range(1, 1500), i + 50), "drop_file %d" % h]
    lines += ["drop_all"]
    order = list(range(len(names))); rng.shuffle(order)
    for i in order:
        h += 1
        path = "deep/" + names[i]
        k = rng.below(4)
        lines += ["open_file 0 %s %d" % (hexs(path if rng.chance(2, 3) else path.upper()), h)]
        if k == 0:
            lines += ["seek %d end 0" % h, "write_pat %d %d %d" % (h, rng.range(1, 900), i + 100)]
        elif k == 1:
            lines += ["write %d %s" % (h, hexs(b"overwritten at the start"))]
        elif k == 2:
            lines += ["seek %d start %d" % (h, rng.range(0, 40)), "truncate %d" % h]
        else:
            lines += ["read %d 50" % h]
        lines += ["drop_file %d" % h]
    lines += ["drop_all", "unmount", "mount 1 0 lossy", "list 0", "open_dir 0 %s 2" % hexs("deep"), "list 2"]
    for nm in names:
        h += 1
        lines += ["open_file 2 %s %d" % (hexs(nm), h), "read_all %d 100000" % h, "extents %d" % h, "drop_file %d" % h]
    # last phase: every entry leaves the directory again - removed, moved to the root, or renamed inside the directory to a name
    # of another slot count - in a shuffled order: entries whose slots straddle two NON-adjacent clusters are freed slot by slot,
    # the neighbours (and whatever lies physically in front of the second cluster) must stay as they are
    lines += ["drop_all"]
    order = list(range(len(names))); rng.shuffle(order)
    for n_, i in enumerate(order):
        k = rng.below(4)
        path = "deep/" + names[i]
        if k <= 1:
            lines += ["remove 0 %s" % hexs(path)]
        elif k == 2:
            lines += ["rename 0 %s 0 %s" % (hexs(path), hexs("moved out %02d" % i + "y" * rng.choice([0, 3, 14, 27])))]
        else:
            lines += ["rename 0 %s 0 %s" % (hexs(path), hexs("deep/renamed %02d" % i + "z" * rng.choice([0, 2, 15, 30])))]
        if n_ % 3 == 2:
            lines += ["open_dir 0 %s 3" % hexs("deep"), "list 3", "drop_dir 3"]
    lines += ["list 0", "open_dir 0 %s 4" % hexs("deep"), "list 4", "drop_all", "unmount", "mount 1 0 lossy", "list 0",
              "open_dir 0 %s 5" % hexs("deep"), "list 5"]
    for i in range(len(names)):
        if rng.chance(1, 2):
            h += 1
            lines += ["open_file 0 %s %d" % (hexs("frag%02d.bin" % i), h), "read_all %d 100000" % h, "drop_file %d" % h]
    lines += ["drop_all", "unmount"]
    return head + lines


def full_dir_session(rng, variant):
    """directories with no room for a new entry.  variant "root": a 16-entry FAT12/FAT16 root filled to within 0-3 slots,
    then creates / create_dirs / renames (inside the root and from a sub-directory into it) that do not fit, stats, a
    removal and the retries that now fit.  variant "chain": a sub-directory whose last cluster has 0-3 free slots on a
    volume without a free cluster (one big file takes the rest); the same attempts; then the big file is truncated and
    the attempts are repeated.  Every failing call must leave tree, structures and counters as they were."""
    def nslots(name):
        return (len(name.encode("utf-16-le")) // 2 + 12) // 13 + 1
    def lname(tag, slots):
        # a name taking exactly [slots] slots (slots-1 long-name slots)
        n = 13 * (slots - 2) + rng.range(1, 13) if slots >= 2 else 1
        return (tag + "_" * n)[:n - 1] + "z" if n > len(tag) else tag[:n]
    if variant == "root":
        fat16 = rng.chance(1, 3)
        fmt = "format 512 4400 512 16 16 2 - - -" if fat16 else "format 512 64 512 12 16 2 - - -"
        size = (4400 if fat16 else 64) * 512
        cap = 16; used = 0; target = 0
        head = [dev_line(rng, size), "wlog 0", fmt, "pages", "wlog 1", "mount 1 0 lossy"]
        lines = ["list 0", "create_dir 0 %s 1" % hexs("SUB")]; used += nslots("SUB")
        lines += ["create_file 1 %s 9" % hexs("inside.txt"), "write_pat 9 700 5", "drop_file 9",
                  "create_dir 1 %s 2" % hexs("movable dir"), "drop_dir 2"]
    else:
        fmt = "format 512 64 512 12 16 2 - - -"; size = 64 * 512
        cap = 16; used = 2; target = 1
        head = [dev_line(rng, size), "wlog 0", fmt, "pages", "wlog 1", "mount 1 0 lossy"]
        lines = ["list 0", "create_dir 0 %s 1" % hexs("SUB"), "create_file 0 %s 9" % hexs("outside.txt"), "write_pat 9 700 5", "drop_file 9",
                 "create_dir 0 %s 2" % hexs("movable dir"), "drop_dir 2"]
    leave = rng.below(4)
    names = []
    h = 20
    while cap - used - leave >= 2:
        s = min(rng.range(2, 5), cap - used - leave)
        if cap - used - leave - s == 1:
            s += 1 if s < 5 else -1
        nm = lname("f%02d" % len(names), s)
        if nslots(nm) != s:
            nm = "f%02d" % len(names) + "_" * (13 * (s - 2) + 2); 
        names.append(nm); used += nslots(nm)
        h += 1
        lines += ["create_file %d %s %d" % (target, hexs(nm), h)]
        if rng.chance(1, 2):
            lines += ["write_pat %d %d %d" % (h, rng.range(1, 600), h), ]
        lines += ["drop_file %d" % h]
    if variant == "chain":
        lines += ["create_file 0 %s 8" % hexs("BIG"), "write_pat 8 60000 3", "flush 8", "stats"]
    src_dir = 1 if variant == "root" else 0
    src_file = "inside.txt" if variant == "root" else "outside.txt"
    def attempts(tag):
        nonlocal h
        out = []
        big = "%s does not fit " % tag + "y" * rng.range(30, 60)
        out += ["create_file %d %s %d" % (target, hexs(big + ".bin"), 90), "list %d" % target,
                "create_dir %d %s %d" % (target, hexs(big + " dir"), 91), "stats",
                "create_dir %d %s %d" % (target, hexs("ND" + tag.upper()[:4]), 92), "stats"]
        if names:
            out += ["rename %d %s %d %s" % (target, hexs(names[0]), target, hexs(big + " renamed")), "list %d" % target]
            out += ["rename %d %s %d %s" % (target, hexs(names[-1]), target, hexs(names[-1].upper())), "list %d" % target]
        out += ["rename %d %s %d %s" % (src_dir, hexs(src_file), target, hexs(big + " moved in")), "list %d" % src_dir,
                "rename %d %s %d %s" % (src_dir, hexs("movable dir"), target, hexs(big + " dir moved in")), "list %d" % src_dir,
                "list %d" % target, "stats"]
        return out
    if variant == "root" and names:
        # the newest entry goes: its d slots now lie directly before the end marker; an entry of exactly d + r slots fits
        # (r = never-used slots behind the marker), one of d + r + 1 does not
        d = nslots(names[-1]); r = cap - used
        lines += ["remove 0 %s" % hexs(names[-1])]
        fit = "fits exactly " + "e" * (13 * (d + r - 2) + 1 - len("fits exactly "))
        if d + r >= 3 and nslots(fit) == d + r:
            lines += ["create_file 0 %s 93" % hexs(fit), "drop_file 93", "list 0", "remove 0 %s" % hexs(fit)]
            big1 = "one slot too many " + "m" * (13 * (d + r - 1) + 1 - len("one slot too many "))
            if nslots(big1) == d + r + 1:
                lines += ["create_file 0 %s 94" % hexs(big1), "list 0"]
            lines += ["rename 1 %s 0 %s" % (hexs(src_file), hexs(fit)), "list 0", "rename 0 %s 1 %s" % (hexs(fit), hexs(src_file))]
            lines += ["create_dir 0 %s 95" % hexs(fit), "drop_dir 95", "list 0", "remove 0 %s" % hexs(fit)]
        lines += ["create_file 0 %s 96" % hexs(names[-1]), "drop_file 96"]      # back to the tight state
    lines += attempts("first")
    if variant == "chain":
        lines += ["seek 8 start 2000", "truncate 8", "flush 8", "stats"]
    elif names:
        lines += ["remove %d %s" % (target, hexs(names[len(names) // 2]))]
    lines += attempts("again")
    lines += ["drop_all", "list 0", "list 1", "stats", "unmount", "mount 1 0 lossy", "list 0", "stats", "unmount"]
    return head + lines


def topfree_volume(bits, keep=14, variant="default"):
    """a library-formatted FAT12 / FAT16 volume of the MAXIMAL cluster count of its width (4084 / 65524 clusters, so that the
    highest cluster numbers are 0xFF0.. / 0xFFF0..) on which only the last [keep] clusters are free: every other data cluster is
    pre-marked as a one-cluster chain in every FAT copy (poked before the mount).  New files therefore run THROUGH the top
    clusters.  Returns (label, head lines up to and including the mount, cluster size, free clusters), or None."""
    import fatimg
    clusters = 4084 if bits == 12 else 65524
    r = vlib.sectors_for_clusters(512, 512, clusters, clusters + 30, variant=variant)
    if r is None or r[1] != bits:
        return None
    ts = r[0]
    fmt = "format 512 %d 512 - - - - - -" % ts
    out = vlib.exec_raw(["fmtbs"], "512 %d 512 - - - - - -\n" % ts, variant=variant).split("\n")[0].split(" ")
    if out[0] != "ok":
        return None
    g = fatimg.Geom(bytes.fromhex(out[-1]))
    if g.clusters != clusters:
        return None
    fb = g.spf * g.bps
    buf = bytearray(fb)
    top = 0xFFF if bits == 12 else 0xFFFF
    def set_raw(c, raw):
        if bits == 12:
            o = c + c // 2
            w = buf[o] | (buf[o + 1] << 8)
            w = (w & 0xF000) | raw if c % 2 == 0 else (w & 0x000F) | (raw << 4)
            buf[o] = w & 0xFF; buf[o + 1] = w >> 8
        else:
            buf[2 * c:2 * c + 2] = raw.to_bytes(2, "little")
    set_raw(0, (0xF00 if bits == 12 else 0xFF00) | g.media); set_raw(1, top)
    for c in range(2, clusters + 2 - keep):
        set_raw(c, top)
    for c in range(clusters + 2, fb * 8 // bits):
        set_raw(c, top)                     # padding entries as the library's format leaves them
    pokes = ["poke %d %s" % (g.fat_off + k * fb, bytes(buf).hex()) for k in range(g.fats)]
    head = ["dev %d 0" % (ts * 512), "wlog 0", fmt] + pokes + ["pages", "wlog 1", "mount 1 0 lossy"]
    return ("fat%d-max-topfree" % bits, head, 512, keep)


def top_fill_sessions(bits, variant="default"):
    """library-formatted FAT12 / FAT16 volumes with exactly the maximal cluster count of their width (4084 / 65524), filled to the
    very top by ordinary writes (no pre-marked table): chains run through the cluster numbers 0xFF0..0xFF5 / 0xFFF0..0xFFF5 and
    END in the highest one; then the walks that matter - remove, truncate inside / at a cluster boundary, seek to the end and
    append on a fresh handle after low clusters were freed, re-fill after delete-all.  Returns a list of scripts."""
    clusters = 4084 if bits == 12 else 65524
    r = vlib.sectors_for_clusters(512, 512, clusters, clusters + 30, variant=variant)
    if r is None or r[1] != bits:
        return []
    ts = r[0]
    head = ["dev %d 0" % (ts * 512), "wlog 0", "format 512 %d 512 - - - - - -" % ts, "pages", "wlog 1", "mount 1 0 lossy"]
    h = hexs
    full = clusters * 512
    a = head + ["stats", "create_file 0 %s 1" % h("small first.bin"), "write_pat 1 1024 1", "drop_file 1",
                "create_file 0 %s 2" % h("big fills the rest.bin"), "write_pat 2 %d 2" % (full - 1024), "write_pat 2 10 9", "drop_file 2", "stats",
                "remove 0 %s" % h("small first.bin"), "stats",
                "open_file 0 %s 3" % h("big fills the rest.bin"), "seek 3 end 0", "write_pat 3 700 3", "seek 3 end -1500", "read 3 1500",
                "extents 3", "drop_file 3", "stats", "list 0",
                "open_file 0 %s 4" % h("big fills the rest.bin"), "seek 4 start %d" % (full - 1024 - 512 * 3 - 7), "truncate 4", "drop_file 4", "stats",
                "remove 0 %s" % h("big fills the rest.bin"), "stats", "list 0",
                "create_file 0 %s 5" % h("second fill.bin"), "write_pat 5 %d 4" % full, "drop_file 5", "stats",
                "open_file 0 %s 6" % h("second fill.bin"), "seek 6 start 512", "truncate 6", "drop_file 6", "stats",
                "remove 0 %s" % h("second fill.bin"), "stats", "drop_all", "unmount"]
    b = head + ["create_file 0 %s 1" % h("only.bin"), "write_pat 1 %d 5" % (full + 5), "drop_file 1", "stats",
                "open_file 0 %s 2" % h("only.bin"), "seek 2 start %d" % (full - 512 * 5), "truncate 2", "seek 2 end 0", "write_pat 2 %d 6" % (512 * 5),
                "seek 2 start %d" % (full - 600), "read 2 600", "drop_file 2", "stats",
                "remove 0 %s" % h("only.bin"), "stats", "list 0", "drop_all", "unmount"]
    return [a, b]


def crash_continue_cases(confs, rng, per_conf=3):
    """a history over THREE mounts: session 1 writes a file, flushes it, writes on (more clusters are linked in the table) and
    ends WITHOUT drop / unmount (`forget`: a power cut - the entry on disk keeps the flushed size, the chain is longer);
    session 2 opens the file, reads it (R1), then through one handle - after reading to the end, or seeking to the end - appends
    the bytes C, flushes, drops; power cut again; session 3 reads the file (R2), removes it, asks for statistics.
    What must hold: R2 = R1 ++ C (C02, C14: what a flush has returned for survives) and the free count after the removal equals
    the count of the empty volume (C05: remove gives back ALL clusters of the chain, also those behind the recorded size).
    Returns a list of dicts: script, cs, i_stats0, i_r1, i_r2, i_stats1, c_hex, label."""
    out = []
    for conf in confs:
        toks = conf[2].split()
        bps = 512 if toks[1] == "-" else int(toks[1]); cs = bps if toks[3] == "-" else int(toks[3])
        for k in range(per_conf):
            a_len = rng.choice([cs, 2 * cs, cs, 3 * cs, cs + 100, 5])
            b_len = rng.choice([2 * cs + 7, cs, 3 * cs])
            c = bytes((0x43 + (i % 7)) for i in range(rng.choice([50, cs, 2 * cs + 10, 1])))
            pre = rng.choice(["read", "read", "seekend", "start-read", "none"])
            nm = hexs("crash survivor.bin")
            sc = ["dev %d 0" % conf[1], "wlog 0", conf[2], "pages", "wlog 1", "mount 1 0 lossy", "stats",
                  "create_file 0 %s 1" % nm, "write_pat 1 %d 65" % a_len, "flush 1", "write_pat 1 %d 66" % b_len, "forget",
                  "mount 1 0 lossy", "open_file 0 %s 2" % nm, "read_all 2 1000000", "drop_file 2", "open_file 0 %s 3" % nm]
            i_stats0 = 6; i_r1 = 14
            if pre == "read":
                sc += ["read_all 3 1000000"]
            elif pre == "seekend":
                sc += ["seek 3 end 0"]
            elif pre == "start-read":
                sc += ["seek 3 start 0", "read_all 3 1000000", "seek 3 end 0"]
            else:
                sc += ["seek 3 start %d" % a_len]
            sc += ["write_all 3 %s" % c.hex(), "flush 3", "drop_file 3", "forget", "mount 1 0 lossy", "open_file 0 %s 4" % nm, "read_all 4 1000000"]
            i_r2 = len(sc) - 1
            sc += ["drop_file 4", "remove 0 %s" % nm, "stats"]
            i_stats1 = len(sc) - 1
            sc += ["unmount"]
            out.append({"script": sc, "cs": cs, "i_stats0": i_stats0, "i_r1": i_r1, "i_r2": i_r2, "i_stats1": i_stats1, "c_hex": c.hex(),
                        "label": "%s a=%d b=%d c=%d pre=%s" % (conf[0], a_len, b_len, len(c), pre), "a_len": a_len})
    return out


def crash_continue_verdict(case, ops):
    """-> (content_ok, capacity_ok, text) for one executed crash_continue case; None values when the script did not get that far"""
    bad = [o for o in ops if o.kind in ("panic", "hang", "bad")]
    if bad:
        return (False, False, "%s -> %s" % (bad[0].line[:40], bad[0].kind))
    r1, r2, s0, s1 = ops[case["i_r1"]], ops[case["i_r2"]], ops[case["i_stats0"]], ops[case["i_stats1"]]
    if any(o.kind != "ok" for o in (r1, r2, s0, s1)):
        k = [o for o in (r1, r2, s0, s1) if o.kind != "ok"][0]
        return (False, False, "%s -> %s %s" % (k.line[:40], k.kind, k.payload[:30]))
    content_ok = (r2.payload == r1.payload + case["c_hex"]) and len(r1.payload) == 2 * case["a_len"]
    capacity_ok = s0.payload.split()[2] == s1.payload.split()[2]
    text = "flushed size %d, read back %d bytes before and %d after appending %d; free clusters %s when empty, %s after removing the file" % (
        case["a_len"], len(r1.payload) // 2, len(r2.payload) // 2, len(case["c_hex"]) // 2, s0.payload.split()[2], s1.payload.split()[2])
    return (content_ok, capacity_ok, text)


def run_crash_continue(rep, prop, rng, tier, clause):
    """runs the crash_continue family and reports, for property [prop], the violations of [clause] ("content" | "capacity")"""
    names = ("fat12-small", "fat12-c2k", "fat16-min", "fat32-min") if tier == "quick" else ("fat12-small", "fat12-1fat", "fat12-c2k", "fat12-s1k", "fat16-min", "fat16-c2k-1fat", "fat32-min")
    confs = [c for c in configs(tier) if c[0] in names]
    cases = crash_continue_cases(confs, rng, 3 if tier == "quick" else 24)
    res = vlib.run_scripts([c["script"] for c in cases])
    nbad = 0
    for c, ops in zip(cases, res):
        rep.count()
        content_ok, capacity_ok, text = crash_continue_verdict(c, ops)
        ok = content_ok if clause == "content" else capacity_ok
        if ok:
            rep.distinct(("crash-continue", c["label"]))
        elif nbad < 3:
            nbad += 1
            what = ("the file does not read back as what it held before plus the appended, flushed bytes" if clause == "content"
                    else "removing the file did not give back all of its clusters")
            rep.violation("[%s crash-continue %s] power cut after flush + further writes, next session appends and flushes, power cut, third session: %s (%s)"
                          % (prop, c["label"], what, text), {"script": c["script"]})
    rep.cov["crash_continue_cases"] = len(cases)


def fat32_high_cluster_session(rng):
    """FAT32 with more than 65536 clusters and the next-free hint of the information sector beyond cluster 0xFFFF: first
    clusters of new files and directories need the high word of the entry; truncation to nothing, re-allocation after the hint
    has wrapped to low clusters and moves of directories between high- and low-cluster parents have to clear / rewrite it"""
    size = 100200 * 512
    fmt = "format 512 100200 512 32 - 2 - - -"
    hint = rng.choice([65535, 65536, 65537, 66000, 70001])
    head = [dev_line(rng, size), "wlog 0", fmt, "poke %d %s" % (512 + 492, hint.to_bytes(4, "little").hex()), "pages", "wlog 1", "mount 1 0 lossy"]
    h = hexs
    lines = ["create_file 0 %s 1" % h("high.bin"), "write_pat 1 %d 3" % rng.range(600, 2500), "flush 1", "extents 1",
             "seek 1 start 0", "truncate 1", "flush 1", "extents 1", "list 0",
             "write_pat 1 %d 4" % rng.range(1, 1500), "flush 1", "extents 1", "drop_file 1",
             "create_dir 0 %s 2" % h("High Dir"), "create_file 2 %s 3" % h("inner file.txt"), "write_pat 3 700 5", "drop_file 3",
             "create_dir 2 %s 4" % h("sub of high"), "drop_dir 4", "list 2", "drop_dir 2",
             "drop_all", "unmount",
             # second session: the hint is put back to the start, new objects get low clusters; the old ones move around
             "poke %d %s" % (512 + 492, (3).to_bytes(4, "little").hex()), "mount 1 0 lossy",
             "create_dir 0 %s 5" % h("low dir"), "drop_dir 5",
             "rename 0 %s 0 %s" % (h("High Dir/sub of high"), h("low dir/moved sub")),
             "rename 0 %s 0 %s" % (h("low dir"), h("High Dir/low inside high")),
             "open_file 0 %s 6" % h("high.bin"), "seek 6 start 0", "truncate 6", "write_pat 6 900 6", "flush 6", "extents 6", "drop_file 6",
             "open_file 0 %s 7" % h("High Dir/inner file.txt"), "seek 7 start 0", "truncate 7", "drop_file 7",
             "list 0", "drop_all", "unmount", "mount 1 0 lossy", "list 0",
             "open_file 0 %s 8" % h("high.bin"), "read_all 8 5000", "extents 8", "drop_file 8",
             "open_dir 0 %s 9" % h("High Dir/low inside high/moved sub"), "list 9", "drop_all", "unmount"]
    return head + lines


# ------------------------------------------------------------------------------------------------ boundary volumes x standard script
def boundary_volumes(rng, tier):
    """volumes at the boundaries the sizing / addressing / allocation code cares about, each as (label, head lines up to and
    including the mount, cluster size).  Found through the library's own format (boot-sector hook) where a cluster count has to be
    hit exactly."""
    out = []
    def plain(label, ts, bps, bpc, fat="-", root="-", fats="2", fill=None, pokes=()):
        size = ts * bps
        dev = dev_line(rng, size) if fill is None else "dev %d %d" % (size, fill)
        fmt = "format %d %d %s %s %s %s - - -" % (bps, ts, bpc, fat, root, fats)
        out.append((label, [dev, "wlog 0", fmt] + list(pokes) + ["pages", "wlog 1", mount_line(rng)], int(bpc) if bpc != "-" else bps))
    # table without a spare entry behind the last cluster
    for bits, start in ((12, 300), (16, 4400), (32, 66600)):
        ts = vlib.exact_fit_sectors(512, 512, start, bits)
        if ts:
            plain("fat%d-exactfit" % bits, ts, 512, 512, str(bits), "32" if bits != 32 else "-")
    # cluster counts where the width changes
    for clusters, start in ((4084, 4090), (4085, 4090), (65524, 65600), (65525, 65600)):
        r = vlib.sectors_for_clusters(512, 512, clusters, start)
        if r:
            plain("fat%d-%dclusters" % (r[1], clusters), r[0], 512, 512)
    # maximal-size FAT12/16 with only the top clusters free
    for bits in (12, 16):
        t = topfree_volume(bits, keep=rng.range(12, 16))
        if t:
            out.append((t[0], t[1], t[2]))
    # FAT32 with the hint beyond cluster 0xFFFF
    hint = rng.choice([65535, 65536, 70001])
    plain("fat32-high-hint", 100200, 512, 512, "32", "-", "2", pokes=["poke %d %s" % (512 + 492, hint.to_bytes(4, "little").hex())])
    # large sectors / clusters on stale devices, one FAT copy, tiny fixed root
    plain("fat12-s4k-stale", 200, 4096, 4096, "-", "128", "1", fill=209)
    plain("fat12-s1k-c2k-stale", 600, 1024, 2048, "12", "32", "2", fill=65)
    plain("fat16-c2k-1fat-stale", 18000, 512, 2048, "16", "512", "1", fill=229)
    plain("fat12-root16", 64, 512, 512, "12", "16", "2")
    if tier == "thorough":
        plain("fat32-s1k-1fat", 67000, 1024, 1024, "32", "-", "1")
        plain("fat12-odd-clusters", 403, 512, 512, "12", "32", "2")
    return out


def standard_script(rng, cs):
    """one compact history touching every operation kind at its boundaries: files of 0 / 1 / cs-1 / cs / cs+1 / several clusters,
    cursor on cluster boundaries followed by forward and backward seeks, truncation at 0 / inside the last cluster / on a boundary / at
    the end, append after truncation, a directory that grows, renames (in place, respell, across directories, of a directory),
    removals, a second session (remount) that reads everything back and modifies through fresh handles"""
    h = hexs
    L = ["list 0", "stats",
         "create_file 0 %s 1" % h("empty.bin"), "drop_file 1",
         "create_file 0 %s 2" % h("One Cluster.bin"), "write_pat 2 %d 1" % cs, "seek 2 start %d" % cs, "seek 2 cur 0", "read 2 5",
         "seek 2 start 3", "read 2 7", "drop_file 2",
         "create_file 0 %s 3" % h("three and a bit.bin"), "write_pat 3 %d 2" % (cs - 1), "write_pat 3 2 3", "write_pat 3 %d 4" % (2 * cs + 5), "flush 3",
         "seek 3 start %d" % cs, "seek 3 cur 1", "read 3 %d" % cs, "seek 3 start %d" % (2 * cs), "seek 3 start %d" % (3 * cs + 1), "read 3 10",
         "seek 3 start %d" % cs, "seek 3 end -1", "read 3 9", "seek 3 start %d" % (2 * cs), "truncate 3", "seek 3 end 0", "write_pat 3 %d 5" % (cs + 3), "flush 3",
         "seek 3 start %d" % (3 * cs + 3), "truncate 3", "extents 3", "seek 3 start %d" % (3 * cs + 1), "truncate 3", "flush 3", "extents 3", "drop_file 3",
         "create_dir 0 %s 4" % h("Dir A"), "create_dir 4 %s 5" % h("nested dir with a long name"), "drop_dir 5"]
    for k in range(9):
        L += ["create_file 4 %s 6" % h("entry number %02d in dir a.txt" % k), "write_pat 6 %d %d" % ((k % 3) * cs + k, k), "drop_file 6"]
    # cursor exactly on a cluster boundary, then a seek INTO the following cluster (same floor, different ceiling of offset /
    # cluster size), then truncate / append there; the same after reaching the boundary by reading
    L += ["create_file 0 %s 15" % h("boundary.bin"), "write_pat 15 %d 6" % (3 * cs), "seek 15 start %d" % cs, "seek 15 cur 7", "truncate 15", "flush 15",
          "extents 15", "seek 15 start 0", "read 15 %d" % cs, "seek 15 cur 3", "write_pat 15 %d 7" % (2 * cs), "flush 15", "extents 15",
          "seek 15 start %d" % (2 * cs), "seek 15 end 0", "write_pat 15 9 8", "seek 15 start 0", "read_all 15 100000", "drop_file 15"]
    # two entries occupying the SAME slot range of two different directories: a rename of one onto the other's name must see
    # that the destination exists
    L += ["create_dir 0 %s 16" % h("same one"), "create_dir 0 %s 17" % h("same two"),
          "create_file 16 %s 18" % h("twin.txt"), "write_pat 18 11 1", "drop_file 18", "create_file 17 %s 18" % h("twin.txt"), "write_pat 18 22 2", "drop_file 18",
          "drop_dir 16", "drop_dir 17",
          "rename 0 %s 0 %s" % (h("same one/twin.txt"), h("same two/twin.txt")), "rename 0 %s 0 %s" % (h("same one/twin.txt"), h("same two/TWIN.TXT")),
          "open_file 0 %s 18" % h("same two/twin.txt"), "read_all 18 100", "drop_file 18", "open_file 0 %s 18" % h("same one/twin.txt"), "read_all 18 100", "drop_file 18"]
    L += ["create_dir 0 %s 11" % h("anc a"), "create_dir 11 %s 12" % h("anc b"), "create_dir 0 %s 13" % h("anc c"),
          "create_file 12 %s 14" % h("inner.txt"), "write_pat 14 10 1", "drop_file 14", "drop_dir 12", "drop_dir 11", "drop_dir 13",
          "rename 0 %s 0 %s" % (h("anc a/anc b"), h("anc c/anc b")),                 # b now lives under c
          "rename 0 %s 0 %s" % (h("anc c"), h("anc c/anc b/below itself")),         # c under its own (moved) sub-directory: refused
          "rename 0 %s 0 %s" % (h("anc c/anc b"), h("anc b top")),                  # b to the root
          "rename 0 %s 0 %s" % (h("anc a"), h("anc b top/anc a")),                  # legal: a under b (b is no longer below a)
          "rename 0 %s 0 %s" % (h("anc b top"), h("anc b top/anc a/loop")),         # refused
          "list 0", "open_file 0 %s 14" % h("anc b top/inner.txt"), "read_all 14 100", "drop_file 14"]
    L += ["list 4", "stats",
          "rename 0 %s 0 %s" % (h("One Cluster.bin"), h("ONE CLUSTER.BIN")),
          "rename 0 %s 4 %s" % (h("three and a bit.bin"), h("moved into dir a.bin")),
          "rename 4 %s 0 %s" % (h("nested dir with a long name"), h("nested moved to root")),
          "rename 0 %s 0 %s" % (h("Dir A/entry number 03 in dir a.txt"), h("back in root.txt")),
          "remove 4 %s" % h("entry number 04 in dir a.txt"), "remove 0 %s" % h("empty.bin"),
          "create_file 4 %s 7" % h("after removal.txt"), "write_pat 7 %d 9" % (cs // 2), "drop_file 7",
          "list 0", "list 4", "stats", "drop_all", "unmount", "mount 1 0 lossy", "list 0", "stats",
          "open_file 0 %s 8" % h("dir a/MOVED INTO DIR A.BIN"), "read_all 8 100000", "extents 8", "seek 8 start %d" % cs, "truncate 8", "drop_file 8",
          "open_file 0 %s 9" % h("one cluster.bin"), "seek 9 end 0", "write_pat 9 %d 7" % (cs + 1), "seek 9 start 0", "read_all 9 100000", "drop_file 9",
          "open_dir 0 %s 10" % h("nested moved to root"), "list 10", "drop_dir 10",
          "remove 0 %s" % h("nested moved to root"), "remove 0 %s" % h("back in root.txt"),
          "list 0", "stats", "drop_all", "unmount"]
    return L


def matrix_sessions(rng, tier, lost_free=False, small_only=False):
    """the standard script on every boundary volume ([lost_free]: without the volumes whose occupied clusters are pre-marked
    one-cluster chains nobody references - for checks that evaluate the structural invariants)"""
    return [(label, head + standard_script(rng, cs)) for (label, head, cs) in boundary_volumes(rng, tier)
            if not (lost_free and "topfree" in label)
            and not (small_only and (label.startswith("fat32") or "65524" in label or "65525" in label or "16-exactfit" in label))]
