"""Helpers shared by the C15/C16 checks: direct (model-independent) statements of the name rules, raw directory
parsing, the case table dumped from the executor, and a batching wrapper around the extracted model (mode c15)."""
import os, tempfile
import vlib
from fatimg import Geom

LFN_PUNCT = set("$%'-_@~`!(){}. +,;=[]^#&")
SFN_PUNCT = set("!#$%&'()-@^_`{}~")


# ------------------------------------------------------------------ direct statements (not the model)
def spec_validate(name):
    """The property text: 1..255 bytes of UTF-8, every character from the documented long-name set."""
    b = name.encode("utf-8")
    if not (1 <= len(b) <= 255):
        return "InvalidFileNameLength"
    for ch in name:
        c = ord(ch)
        if ("a" <= ch <= "z") or ("A" <= ch <= "Z") or ("0" <= ch <= "9") or (0x80 <= c <= 0xFFFF) or ch in LFN_PUNCT:
            continue
        return "UnsupportedFileNameCharacter"
    return "ok"


def units(name):
    b = name.encode("utf-16-be", "surrogatepass")
    return [int.from_bytes(b[i:i + 2], "big") for i in range(0, len(b), 2)]


def hex16(us):
    return "".join("%04x" % u for u in us) if us else "-"


def lfn_checksum(sfn11):
    ck = 0
    for b in sfn11:
        ck = (((ck << 7) & 0xFF) + (ck >> 1) + b) & 0xFF
    return ck


def sfn_legal(raw):
    """C16 text: only characters legal in short names (upper case, no embedded or leading space, no dot)."""
    if len(raw) != 11:
        return False
    def part_ok(p):
        s = p.rstrip(b" ")
        for b in s:
            ch = chr(b)
            if not (("A" <= ch <= "Z") or ("0" <= ch <= "9") or ch in SFN_PUNCT):
                return False
        return True
    return part_ok(raw[:8]) and part_ok(raw[8:]) and raw[0] != 0x20


def short_string(raw):
    """8+3 -> NAME.EXT (what ShortName::new documents), as bytes."""
    base = raw[:8].rstrip(b" "); ext = raw[8:11].rstrip(b" ")
    s = base + (b"." + ext if ext else b"")
    if s[:1] == b"\x05":
        s = b"\xe5" + s[1:]
    return s


def sng_checksum(name):
    ck = 0
    for ch in name:
        ck = ((ck >> 1) + ((ck << 15) & 0xFFFF) + (ord(ch) & 0xFFFF)) & 0xFFFF
    return ck


# ------------------------------------------------------------------ case table
_tables = {}

def upper_table(variant="default"):
    """dict cp -> list of cps, from the executor's own char_to_uppercase; also written to a file for the model."""
    if variant not in _tables:
        txt = vlib.exec_raw(["uppertable_colon"], "", variant)
        path = os.path.join(tempfile.gettempdir(), "fatverif-uppertable-%s-%d.txt" % (variant, os.getpid()))
        open(path, "w").write(txt)
        t = {}
        for l in txt.split("\n"):
            if l:
                a, b = l.split(":")
                t[int(a)] = [int(x) for x in b.split()]
        _tables[variant] = (t, path)
    return _tables[variant]


def fold(s, table):
    out = []
    for ch in s:
        out.extend(table.get(ord(ch), [ord(ch)]))
    return out


def oem_lossy(b):
    return chr(b) if b <= 0x7F else "�"


def spec_matches(query, long_name, raw_sfn, table):
    """C15 text: a lookup matches the long name or the alias string, ignoring case, and nothing else."""
    fq = fold(query, table)
    if long_name is not None and long_name != "" and fold(long_name, table) == fq:
        return True
    alias = "".join(oem_lossy(b) for b in short_string(raw_sfn))
    return fold(alias, table) == fq


# ------------------------------------------------------------------ raw directory regions
def parse_dir(region):
    """-> list of live entries {lfn: [32-byte slots in stream order], sfn: 32 bytes, pos: slot index of the sfn}.
    Deleted slots break a run; the end marker stops the scan; volume labels are kept with label=True."""
    out = []; run = []
    for i in range(0, len(region) - 31, 32):
        s = region[i:i + 32]
        if s[0] == 0:
            break
        if s[0] == 0xE5:
            run = []; continue
        if (s[11] & 0x3F) & 0x0F == 0x0F:
            run.append(s); continue
        out.append({"lfn": run, "sfn": s, "pos": i // 32, "label": bool(s[11] & 0x08)})
        run = []
    return out


def slots_from_writes(writes):
    """group `w` events (off, hex, depth) of one operation into 32-byte slots: {slot_offset: bytearray or None if incomplete}"""
    acc = {}
    for off, hx, _ in writes:
        if hx == "-":
            continue
        data = bytes.fromhex(hx)
        for j, b in enumerate(data):
            o = off + j
            acc.setdefault(o - o % 32, {})[o % 32] = b
    out = {}
    for so, d in acc.items():
        out[so] = bytes(d[i] for i in range(32)) if len(d) == 32 else None
    return out


def geom_of(dump_hex):
    return Geom(bytes.fromhex(dump_hex))


# ------------------------------------------------------------------ model batching
class Model:
    """collects lines for the extracted model (mode c15) and runs them in one process"""
    def __init__(self):
        self.lines = []
    def add(self, line):
        self.lines.append(line)
        return len(self.lines) - 1
    def run(self):
        out = vlib.model_run("c15", "\n".join(self.lines) + "\n") if self.lines else []
        assert len(out) == len(self.lines), (len(out), len(self.lines))
        self.lines = []
        return out


def hx(b):
    return bytes(b).hex() if len(b) else "-"
