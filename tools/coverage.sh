#!/bin/sh
# development aid: which lines of /repo/src do the quick-tier generators of the given checks never execute?
# builds a coverage-instrumented executor (nightly toolchain + its llvm-tools), runs the quick checks with it, prints the
# per-file summary and writes the uncovered lines to /tmp/wk/cov/uncovered.txt.   usage: tools/coverage.sh [ID...]
set -u
W=/tmp/wk/cov; LT=$HOME/.rustup/toolchains/nightly-x86_64-unknown-linux-gnu/lib/rustlib/x86_64-unknown-linux-gnu/bin
rm -rf $W/h; [ -z "${APPEND:-}" ] && rm -rf $W/prof; mkdir -p $W/prof; cp -r /verif/harness $W/h; rm -rf $W/h/target*
(cd $W/h && CARGO_NET_OFFLINE=true RUSTFLAGS="--cfg fatfs_verif -Awarnings -C instrument-coverage" CARGO_TARGET_DIR=$W/target cargo +nightly build --offline 2>&1 | tail -1)
cd /verif
IDS="$@"; [ -z "$IDS" ] && IDS=$(python3 -c "import json; print(' '.join(c['property_id'] for c in json.load(open('MANIFEST.json'))['checks']))")
for id in $IDS; do
  LLVM_PROFILE_FILE="$W/prof/$id-%p-%m.profraw" VERIF_EXEC_DEFAULT=$W/target/debug/fatfs-exec ./check $id --tier quick 2>&1 | grep -E "^(VIOLATION|OK)" | cut -c1-120
  git checkout -- evidence/$id.json 2>/dev/null
done
$LT/llvm-profdata merge -sparse $W/prof/*.profraw -o $W/all.profdata
$LT/llvm-cov report $W/target/debug/fatfs-exec -instr-profile=$W/all.profdata /repo/src 2>/dev/null | cut -c1-150
$LT/llvm-cov show $W/target/debug/fatfs-exec -instr-profile=$W/all.profdata /repo/src -show-line-counts-or-regions 2>/dev/null > $W/show.txt
python3 - <<'PY'
import re
cur=None; out=[]
for l in open('/tmp/wk/cov/show.txt', errors='replace'):
    m=re.match(r"^(/repo/src/\S+):$", l.strip())
    if m: cur=m.group(1); continue
    m=re.match(r"^\s*(\d+)\|\s*0\|(.*)$", l)
    if m and cur and m.group(2).strip() and not m.group(2).strip().startswith(("//","trace!","debug!","warn!","error!","#[")):
        out.append("%s:%s: %s" % (cur.replace('/repo/src/',''), m.group(1), m.group(2).rstrip()[:110]))
open('/tmp/wk/cov/uncovered.txt','w').write("\n".join(out)+"\n")
print(len(out), "uncovered lines -> /tmp/wk/cov/uncovered.txt")
PY
