#!/bin/sh
# usage: tools/thoroughsweep_ids.sh <ID>...   thorough tier of the given checks, one line each
cd /verif
for id in "$@"; do
  s=$(date +%s)
  out=$(timeout 3600 ./check $id --tier thorough 2>&1 | grep -E "^(VIOLATION|OK)" | head -2 | tr '\n' ' ' | cut -c1-200)
  e=$(date +%s)
  echo "$id $((e-s))s: $out"
done
