"""An independent, specification-driven FAT12/16/32 image builder that deliberately uses the encoding freedoms the
format allows and the library's own writer never exercises (C08): any FAT width, sector/cluster size, 1-3 FAT copies,
FAT32 mirroring off with any active copy, fragmented and out-of-order chains, any legal end-of-chain marker, FAT32
reserved high bits, bad-cluster marks, deleted and orphaned slots, short-name-only entries with lowercase flags or a 0x05
lead byte, OEM characters, volume labels anywhere in the root, all attribute bits.  The builder's own tree is the ground
truth."""

def lfn_checksum(sfn):
    s = 0
    for b in sfn:
        s = (((s & 1) << 7) + (s >> 1) + b) & 0xFF
    return s

def dos_date(y, m, d): return ((y - 1980) << 9) | (m << 5) | d
def dos_time(h, mi, s): return (h << 11) | (mi << 5) | (s // 2)

class Node:
    def __init__(self, kind):
        self.kind = kind            # "file" | "dir"
        self.long = None            # str or None
        self.sfn = None             # 11 bytes
        self.ntres = 0
        self.attr = 0
        self.ctime = (2001, 2, 3, 4, 5, 6, 70)     # y m d h mi s ms(10ms steps)
        self.mtime = (2002, 3, 4, 5, 6, 8)
        self.adate = (2003, 4, 5)
        self.content = b""
        self.children = []
        self.chain = []
        self.eoc = None

SFN_CHARS = "ABCDEFGHIJKLMNOPQRSTUVWXYZ0123456789!#$%&'()-@^_`{}~"

class Builder:
    def __init__(self, rng, force_top=None, stale_count=None, full_root=False):
        """force_top = 12 | 16: a volume with exactly the maximal cluster count of that FAT width (4084 / 65524) holding a file
        TOPCHAIN.BIN whose chain runs THROUGH the highest cluster number (0xFF5 / 0xFFF5) - a legal link value on such a volume"""
        self.r = rng
        self.force_top = force_top
        # stale_count = k: a FAT32 volume whose information sector stores a free count SMALLER than reality (k clusters; the
        # specification calls the stored count a hint that "is not necessarily correct")
        self.stale_count = stale_count
        # full_root: a FAT12/16 volume whose fixed root directory is used up to its very last slot by live entries (no end
        # marker anywhere in the region - legal, and what a full root of another implementation looks like)
        self.full_root = full_root

    def pick_geometry(self):
        r = self.r
        self.bits = r.choice([12, 12, 16, 32])
        self.bps = r.choice([512, 512, 1024, 2048, 4096])
        if self.bits == 12:
            self.spc = r.choice([1, 2, 4]); self.clusters = r.range(20, 400)
        elif self.bits == 16:
            self.spc = r.choice([1, 2]); self.clusters = r.range(4085, 4600)
        else:
            self.spc = 1; self.clusters = r.range(65525, 66500)
        # volumes at the upper end of their FAT width: the highest cluster numbers (FAT12 0xFF0..0xFF5, FAT16 0xFFF0..0xFFF5) are
        # ordinary clusters there, although the same bit patterns are "reserved values" in tables of smaller volumes
        self.maxfat = self.bits in (12, 16) and r.chance(1, 4)
        if self.force_top:
            self.bits = self.force_top; self.maxfat = True
        if self.stale_count is not None:
            self.bits = 32; self.maxfat = False; self.spc = 1; self.clusters = r.range(65525, 66500)
        if self.full_root:
            self.bits = r.choice([12, 16]); self.maxfat = False
            if self.bits == 12:
                self.spc = r.choice([1, 2, 4]); self.clusters = r.range(20, 400)
            else:
                self.spc = r.choice([1, 2]); self.clusters = r.range(4085, 4600)
        if self.maxfat:
            self.spc = 1
            self.clusters = (4084 if self.bits == 12 else 65524) - (0 if self.force_top else r.below(4))
        self.fats = r.choice([1, 2, 2, 3])
        self.reserved = r.range(1, 5) if self.bits != 32 else r.choice([8, 16, 32])
        self.root_entries = 0 if self.bits == 32 else r.choice([1, 2, 4, 16]) * (self.bps // 32)
        if self.full_root:
            self.root_entries = (1 if r.chance(1, 2) else 2) * (self.bps // 32)
        self.media = r.choice([0xF8, 0xF0, 0xF9])
        entries = self.clusters + 2
        fat_bytes = {12: (entries * 3 + 1) // 2, 16: entries * 2, 32: entries * 4}[self.bits]
        self.spf = (fat_bytes + self.bps - 1) // self.bps + r.range(0, 2)          # a FAT may be larger than needed
        self.root_sectors = self.root_entries * 32 // self.bps
        self.first_data = self.reserved + self.fats * self.spf + self.root_sectors
        self.total_sectors = self.first_data + self.clusters * self.spc + r.range(0, self.spc - 1 if self.spc > 1 else 0)
        self.cs = self.bps * self.spc
        self.mirror = True; self.active = 0
        if self.bits == 32 and self.fats > 1 and r.chance(1, 2):
            self.mirror = False; self.active = r.below(self.fats)
        self.vol_bytes = self.total_sectors * self.bps
        self.img = {}                # offset -> byte (sparse)
        self.free = list(range(2, self.clusters + 2))
        r.shuffle(self.free)          # fragmented, out-of-order allocation
        if self.maxfat:
            # the top clusters are handed out early, alternating with others, so that chains run THROUGH them
            tops = list(range(self.clusters + 2 - 8, self.clusters + 2))
            rest = [c for c in self.free if c not in tops]
            r.shuffle(tops)
            tail = []
            for t in tops:
                tail += [t, rest.pop()]
            self.free = rest + tail[::-1]
        self.fat = {}                 # cluster -> raw value

    def put(self, off, data):
        for i, b in enumerate(data):
            self.img[off + i] = b

    def alloc_chain(self, n):
        cl = [self.free.pop() for _ in range(n)]
        eoc_lo = {12: 0xFF8, 16: 0xFFF8, 32: 0x0FFFFFF8}[self.bits]
        for a, b in zip(cl, cl[1:]):
            self.fat[a] = b
        if cl:
            self.fat[cl[-1]] = eoc_lo + self.r.below(8)         # any legal end-of-chain marker
        return cl

    def cluster_off(self, c):
        return (self.first_data + (c - 2) * self.spc) * self.bps

    # ---------------- names
    def rand_sfn(self, used):
        r = self.r
        while True:
            base = "".join(r.choice(SFN_CHARS) for _ in range(r.range(1, 8)))
            ext = "".join(r.choice(SFN_CHARS) for _ in range(r.range(0, 3)))
            b = bytearray(base.ljust(8).encode() + ext.ljust(3).encode())
            k = r.below(10)
            if k == 0:
                b[0] = 0x05                                        # stands for 0xE5
            elif k == 1:
                b[r.below(len(base))] = 0x80 + r.below(0x60)       # OEM character
            if bytes(b) not in used and b[0] != 0x20 and b[0] != 0xE5:
                used.add(bytes(b)); return bytes(b)

    def rand_long(self, used_long):
        r = self.r
        pool = ["Mixed Case Name", "résumé", "Ελληνικά", "文件", "a" * r.range(1, 60), "name.with.dots", "x" * 13, "y" * 26, "emoji😀", "tail￿"]
        while True:
            n = r.choice(pool) + str(r.below(1000)) + r.choice(["", ".txt", ".Data", ".c"])
            if n.lower() not in used_long:
                used_long.add(n.lower()); return n

    def sfn_display(self, node, lower=True):
        b = bytearray(node.sfn)
        if lower:
            if node.ntres & 0x08: b[:8] = bytes(b[:8]).lower() if all(x < 0x80 for x in b[:8]) else bytes(x + 32 if 65 <= x <= 90 else x for x in b[:8])
            if node.ntres & 0x10: b[8:] = bytes(x + 32 if 65 <= x <= 90 else x for x in b[8:])
        base = bytes(b[:8]).rstrip(b" "); ext = bytes(b[8:]).rstrip(b" ")
        s = base + (b"." + ext if ext else b"")
        if s[:1] == b"\x05": s = b"\xe5" + s[1:]
        return "".join(chr(x) if x < 0x80 else chr(0x100 + x - 0x80) for x in s)

    def display_name(self, node):
        return node.long if node.long is not None else self.sfn_display(node)

    # ---------------- tree
    def make_tree(self):
        r = self.r
        self.root = Node("dir")
        budget = [min(len(self.free) - 8, 60)]
        def fill(d, depth):
            used_s = {b".          ", b"..         "}; used_l = set()
            for _ in range(r.range(1, 5 if depth else 7)):
                if budget[0] <= 4: break
                kind = "dir" if depth < 2 and r.chance(1, 4) else "file"
                n = Node(kind)
                n.sfn = self.rand_sfn(used_s)
                if r.chance(3, 5):
                    n.long = self.rand_long(used_l)
                else:
                    n.ntres = r.choice([0, 0x08, 0x10, 0x18])
                    if n.sfn[0] == 0x05 or any(x >= 0x80 for x in n.sfn): n.ntres &= 0x10
                n.attr = (0x10 if kind == "dir" else 0) | r.choice([0, 0x01, 0x02, 0x04, 0x20, 0x21, 0x27, 0x06])
                n.ctime = (r.range(1980, 2107), r.range(1, 12), r.range(1, 28), r.range(0, 23), r.range(0, 59), r.range(0, 59), r.range(0, 99) * 10)
                n.mtime = (r.range(1980, 2107), r.range(1, 12), r.range(1, 28), r.range(0, 23), r.range(0, 59), r.range(0, 29) * 2)
                n.adate = (r.range(1980, 2107), r.range(1, 12), r.range(1, 28))
                if kind == "file":
                    size = r.choice([0, 1, self.cs - 1, self.cs, self.cs + 1, r.range(0, 3 * self.cs)])
                    need = (size + self.cs - 1) // self.cs
                    if need > budget[0]: size = 0; need = 0
                    budget[0] -= need
                    n.content = bytes((r.below(256) for _ in range(size)))
                else:
                    budget[0] -= 2
                    fill(n, depth + 1)
                d.children.append(n)
        fill(self.root, 0)
        if self.full_root and not any(c.kind == "dir" for c in self.root.children):
            n = Node("dir"); n.sfn = b"SUBDIR     "; n.attr = 0x10
            self.root.children.append(n)
        if self.force_top:
            n = Node("file"); n.sfn = b"TOPCHAINBIN"; n.attr = 0x20
            n.content = bytes((i * 11 + 5) & 0xFF for i in range(3 * self.cs + r.range(1, self.cs)))
            self.root.children.insert(r.below(len(self.root.children) + 1), n)
        # nearly full volumes (FAT12 only: small enough): one filler file takes all but a few of the remaining clusters, so
        # that a later allocation scan runs to the very end of the table (spare entries after the last cluster are zero here)
        self.nearfull = self.bits == 12 and not self.maxfat and self.cs <= 4096 and r.chance(1, 3)     # filler stays below the read limit of the traversal
        if self.nearfull:
            keep = r.range(0, 3)
            dirs_need = 12
            used = 60 - budget[0]
            nfill = len(self.free) - used - dirs_need - keep
            if nfill > 0:
                n = Node("file"); n.sfn = b"FILLER  BIN"; n.attr = 0x20
                n.content = bytes((i * 7) & 0xFF for i in range(nfill * self.cs - r.range(0, self.cs - 1)))
                self.root.children.append(n)

    # ---------------- directory serialisation
    def slots_for(self, n):
        out = []
        if n.long is not None:
            u = n.long.encode("utf-16-le")
            units = [int.from_bytes(u[i:i + 2], "little") for i in range(0, len(u), 2)]
            if len(units) % 13:
                units.append(0)
                while len(units) % 13: units.append(0xFFFF)
            nparts = len(units) // 13
            ck = lfn_checksum(n.sfn)
            for idx in range(nparts, 0, -1):
                part = units[(idx - 1) * 13: idx * 13]
                s = bytearray(32)
                s[0] = idx | (0x40 if idx == nparts else 0)
                s[11] = 0x0F; s[13] = ck
                for j, pos in enumerate([1, 3, 5, 7, 9, 14, 16, 18, 20, 22, 24, 28, 30]):
                    s[pos:pos + 2] = part[j].to_bytes(2, "little")
                out.append(bytes(s))
        s = bytearray(32)
        s[0:11] = n.sfn; s[11] = n.attr; s[12] = n.ntres
        s[13] = (n.ctime[6] // 10) + (n.ctime[5] % 2) * 100
        s[14:16] = dos_time(*n.ctime[3:6]).to_bytes(2, "little"); s[16:18] = dos_date(*n.ctime[0:3]).to_bytes(2, "little")
        s[18:20] = dos_date(*n.adate).to_bytes(2, "little")
        first = n.chain[0] if n.chain else 0
        s[20:22] = ((first >> 16) & 0xFFFF).to_bytes(2, "little") if self.bits == 32 else b"\0\0"
        s[22:24] = dos_time(*n.mtime[3:6]).to_bytes(2, "little"); s[24:26] = dos_date(*n.mtime[0:3]).to_bytes(2, "little")
        s[26:28] = (first & 0xFFFF).to_bytes(2, "little")
        s[28:32] = (len(n.content) if n.kind == "file" else 0).to_bytes(4, "little")
        out.append(bytes(s))
        return out

    def junk_slots(self):
        """deleted entries, deleted long-name runs, orphaned long-name slots"""
        r = self.r
        k = r.below(6)
        if k == 0:
            s = bytearray(32); s[0] = 0xE5; s[1:11] = b"ELETED  TX"; s[11] = 0x20; s[26] = 9; s[28] = 77
            return [bytes(s)]
        if k == 1:
            a = bytearray(32); a[0] = 0xE5; a[11] = 0x0F; a[13] = 0x33; a[1] = 0x41
            b = bytearray(32); b[0] = 0xE5; b[1:11] = b"LDNAME  BI"; b[11] = 0x20
            return [bytes(a), bytes(b)]
        if k == 2:
            # orphan long-name slot (its short entry is gone): followed by a deleted slot so that it cannot attach to anything
            a = bytearray(32); a[0] = 0x41; a[11] = 0x0F; a[13] = 0x77
            for j, pos in enumerate([1, 3, 5, 7, 9, 14, 16, 18, 20, 22, 24, 28, 30]):
                a[pos:pos + 2] = (0x6F if j < 3 else (0 if j == 3 else 0xFFFF)).to_bytes(2, "little")
            b = bytearray(32); b[0] = 0xE5; b[1:11] = b"ONE     XX"; b[11] = 0x20
            return [bytes(a), bytes(b)]
        return []

    def label_slot(self):
        s = bytearray(32); s[0:11] = b"FOREIGN VOL"; s[11] = 0x08 | self.r.choice([0, 0x20])
        s[22:24] = dos_time(1, 2, 4).to_bytes(2, "little"); s[24:26] = dos_date(1999, 9, 9).to_bytes(2, "little")
        return bytes(s)

    def layout(self):
        r = self.r
        # allocate chains (files first come first served from the shuffled free list; directories sized after their slots)
        def prepare(d, parent, is_root):
            slots = []
            if not is_root:
                dot = Node("dir"); dot.sfn = b".          "; dot.attr = 0x10; dot.chain = d.chain; dot.ctime = d.ctime; dot.mtime = d.mtime; dot.adate = d.adate
                dd = Node("dir"); dd.sfn = b"..         "; dd.attr = 0x10; dd.ctime = d.ctime; dd.mtime = d.mtime; dd.adate = d.adate
                dd.chain = [] if parent is self.root else parent.chain
                slots += self.slots_for(dot) + self.slots_for(dd)
            label_at = r.below(len(d.children) + 1) if is_root and r.chance(2, 3) else -1
            for i, n in enumerate(d.children):
                if i == label_at:
                    slots.append(self.label_slot()); self.has_label = True
                slots += self.junk_slots()
                if n.kind == "file" and n.sfn == b"TOPCHAINBIN":
                    # through the highest cluster number, in the middle and as the last link
                    last = self.clusters + 1
                    self.free = [c for c in self.free if c not in (last, last - 1)]
                    a = self.alloc_chain(1); b_ = self.alloc_chain(1)
                    n.chain = a + [last] + b_ + [last - 1]
                    for x, y in zip(n.chain, n.chain[1:]):
                        self.fat[x] = y
                    self.fat[n.chain[-1]] = {12: 0xFFF, 16: 0xFFFF}[self.bits]
                elif n.kind == "file":
                    n.chain = self.alloc_chain((len(n.content) + self.cs - 1) // self.cs)
                else:
                    # a directory needs its chain before its own slots (dot entry) are known: count first
                    need_slots = 2 + sum(len(self.slots_for_len(c)) + 2 for c in n.children) + 4
                    n.chain = self.alloc_chain(max(1, (need_slots * 32 + self.cs - 1) // self.cs))
                slots += self.slots_for(n)
            if label_at == len(d.children):
                slots.append(self.label_slot()); self.has_label = True
            if is_root and self.full_root:
                k = 0
                while len(slots) < self.root_entries:
                    n = Node("file"); n.sfn = b"PAD%05dBIN" % k; n.attr = 0x20; k += 1
                    d.children.append(n)
                    slots += self.slots_for(n)
            return slots
        self.has_label = False
        # root first (so that sub-directory chains exist when their parents are serialised)
        def emit(d, parent, is_root):
            slots = prepare(d, parent, is_root)
            data = b"".join(slots)
            if is_root and self.bits != 32:
                assert len(data) <= self.root_entries * 32, "root too small"
                self.root_used_slots = len(data) // 32
                self.put(self.root_off, data)
            else:
                chain = d.chain
                assert len(data) <= len(chain) * self.cs, "dir chain too small"
                for i, c in enumerate(chain):
                    self.put(self.cluster_off(c), data[i * self.cs:(i + 1) * self.cs].ljust(self.cs, b"\0") if i * self.cs < len(data) or True else b"")
            for n in d.children:
                if n.kind == "file":
                    for i, c in enumerate(n.chain):
                        self.put(self.cluster_off(c), n.content[i * self.cs:(i + 1) * self.cs])
                else:
                    emit(n, d, False)
        self.root_off = (self.reserved + self.fats * self.spf) * self.bps
        if self.bits == 32:
            nslots = sum(len(self.slots_for_len(c)) + 2 for c in self.root.children) + 6
            self.root.chain = self.alloc_chain(max(1, (nslots * 32 + self.cs - 1) // self.cs))
        emit(self.root, None, True)

    def slots_for_len(self, n):
        k = 1
        if n.long is not None:
            k += (len(n.long.encode("utf-16-le")) // 2 + 12) // 13
        return [None] * k

    def write_fats(self):
        r = self.r
        # a few bad-cluster marks among the free clusters
        bad = {12: 0xFF7, 16: 0xFFF7, 32: 0x0FFFFFF7}[self.bits]
        for _ in range(r.below(3)):
            if len(self.free) > 10:
                self.fat[self.free.pop()] = bad
        entries = self.clusters + 2
        vals = [0] * entries
        vals[0] = {12: 0xF00, 16: 0xFF00, 32: 0x0FFFFF00}[self.bits] | self.media
        vals[1] = {12: 0xFFF, 16: 0xFFFF, 32: 0x0FFFFFFF}[self.bits]
        for c, v in self.fat.items():
            vals[c] = v
        self.high = {}
        if self.bits == 12:
            raw = bytearray((entries * 3 + 1) // 2 + 1)
            for c, v in enumerate(vals):
                o = c + c // 2
                w = raw[o] | (raw[o + 1] << 8)
                w = (w & 0xF000) | v if c % 2 == 0 else (w & 0x000F) | (v << 4)
                raw[o] = w & 0xFF; raw[o + 1] = w >> 8
            raw = bytes(raw[:(entries * 3 + 1) // 2])
        elif self.bits == 16:
            raw = b"".join(v.to_bytes(2, "little") for v in vals)
        else:
            out = []
            for c, v in enumerate(vals):
                hi = r.below(16) if c >= 2 and r.chance(1, 3) else 0          # reserved top four bits are not ours to interpret
                self.high[c] = hi
                out.append(((hi << 28) | v).to_bytes(4, "little"))
            raw = b"".join(out)
        self.fat_raw = raw
        for k in range(self.fats):
            base = (self.reserved + k * self.spf) * self.bps
            if self.mirror or k == self.active:
                self.put(base, raw)
            else:
                self.put(base, bytes((0xEE,)) * len(raw))            # inactive copies hold stale garbage
        self.free_count = sum(1 for v in vals[2:] if v == 0)

    def write_boot(self):
        b = bytearray(512)
        b[0:3] = b"\xEB\x58\x90"; b[3:11] = b"FOREIGN1"
        b[11:13] = self.bps.to_bytes(2, "little"); b[13] = self.spc; b[14:16] = self.reserved.to_bytes(2, "little")
        b[16] = self.fats; b[17:19] = self.root_entries.to_bytes(2, "little")
        small = self.total_sectors < 65536 and self.bits != 32
        b[19:21] = (self.total_sectors if small else 0).to_bytes(2, "little")
        b[21] = self.media
        b[22:24] = (self.spf if self.bits != 32 else 0).to_bytes(2, "little")
        b[24:26] = (63).to_bytes(2, "little"); b[26:28] = (255).to_bytes(2, "little")
        b[32:36] = (0 if small else self.total_sectors).to_bytes(4, "little")
        if self.bits == 32:
            b[36:40] = self.spf.to_bytes(4, "little")
            flags = 0 if self.mirror else (0x80 | self.active)
            b[40:42] = flags.to_bytes(2, "little")
            b[44:48] = self.root.chain[0].to_bytes(4, "little")
            b[48:50] = (1).to_bytes(2, "little"); b[50:52] = (6 if self.reserved > 6 else 0).to_bytes(2, "little")
            b[64] = 0x80; b[66] = 0x29; b[67:71] = (0xCAFEBABE).to_bytes(4, "little"); b[71:82] = b"BPB LABEL  "; b[82:90] = b"FAT32   "
            if self.r.chance(1, 4):
                b[66] = self.r.choice([0x00, 0x28]); b[67:90] = bytes(23)      # no extended boot signature: id / label / type absent
            fsi = bytearray(512)
            fsi[0:4] = (0x41615252).to_bytes(4, "little"); fsi[484:488] = (0x61417272).to_bytes(4, "little")
            self.fsinfo_known = self.r.chance(1, 2)
            fsi[488:492] = (self.free_count if self.fsinfo_known else 0xFFFFFFFF).to_bytes(4, "little")
            if self.stale_count is not None:
                self.fsinfo_known = True
                fsi[488:492] = min(self.stale_count, self.free_count).to_bytes(4, "little")
            fsi[492:496] = (0xFFFFFFFF).to_bytes(4, "little")
            fsi[508:512] = (0xAA550000).to_bytes(4, "little")
            self.put(self.bps, bytes(fsi))
        else:
            b[36] = 0x80; b[38] = 0x29; b[39:43] = (0xCAFEBABE).to_bytes(4, "little"); b[43:54] = b"BPB LABEL  "
            b[54:62] = b"FAT12   " if self.bits == 12 else b"FAT16   "
            if self.r.chance(1, 4):
                b[38] = self.r.choice([0x00, 0x28]); b[39:62] = bytes(23)
        b[510:512] = b"\x55\xAA"
        self.put(0, bytes(b))
        if self.bits == 32 and self.reserved > 6:
            self.put(6 * self.bps, bytes(b))

    def build(self):
        for attempt in range(20):
            try:
                self.pick_geometry(); self.make_tree(); self.layout(); self.write_fats(); self.write_boot()
                return self
            except AssertionError:
                continue
        raise RuntimeError("could not build an image")

    def sparse_text(self):
        """lines '<off> <hex>' of maximal runs"""
        offs = sorted(self.img)
        lines = []; start = None; buf = bytearray()
        for o in offs:
            if start is not None and o == start + len(buf) and len(buf) < 4096:
                buf.append(self.img[o])
            else:
                if start is not None: lines.append("%d %s" % (start, bytes(buf).hex()))
                start = o; buf = bytearray([self.img[o]])
        if start is not None: lines.append("%d %s" % (start, bytes(buf).hex()))
        return "\n".join(lines) + "\n"
