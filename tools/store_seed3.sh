#!/bin/sh
# usage: tools/store_seed3.sh <ID> <name> <caught_by comma list> "<change>" "<needs>"   stores a confirmed round-3 seed under seeded/<name>/
ID="$1"; NAME="$2"; CAUGHT="$3"; CHANGE="$4"; NEEDS="$5"
O=/tmp/mut/$ID.out; T=/verif/seeded/$NAME
mkdir -p $T/demo
cp /tmp/mut/$ID.confirm.diff $T/patch.diff
cp $O/notes.txt $T/author_notes.txt
for f in $O/demo/*; do [ -f "$f" ] && cp "$f" $T/demo/; done
python3 - "$ID" "$CAUGHT" "$CHANGE" "$NEEDS" "$T" <<'PY'
import json,sys
ID,caught,change,needs,T=sys.argv[1:6]
json.dump({"breaks_property":ID,"change":change,"needs_to_manifest":needs,
 "origin":"independent sub-agent (round 3) given only the property text and a scratch worktree of /repo",
 "confirmed":"tools/confirm_seed3.sh %s: the 70 baseline tests pass with the change, all feature sets build; the author's demo (demo/run.sh) fails with the change and passes without it"%ID,
 "checks_run":"tools/mutest_alt.sh /tmp/mut/%s <checks> (executor built from the scratch tree, /repo untouched) and tools/mutest.sh seeded/.../patch.diff <checks>"%ID,
 "caught_by":[c for c in caught.split(",") if c]}, open(T+"/meta.json","w"), indent=1)
PY
ls $T
