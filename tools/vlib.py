"""Shared orchestration for the rust-fatfs verification checks (see DESIGN.md section 5)."""
import fcntl, hashlib, json, os, re, subprocess, sys, time

ROOT = os.path.dirname(os.path.dirname(os.path.abspath(__file__)))
COQ = os.path.join(ROOT, "coq")
OCAML = os.path.join(ROOT, "ocaml")
HARNESS = os.path.join(ROOT, "harness")
# development aid (never set by the registered commands): VERIF_ALT_REPO=<scratch tree of the library> makes the executor
# build from that tree through a scratch copy of the harness crate, so that a seeded change can be examined while /repo
# itself stays untouched
ALT_REPO = os.environ.get("VERIF_ALT_REPO")
if ALT_REPO:
    import hashlib, shutil
    _alt = os.path.join("/tmp/wk", "alt_harness_" + hashlib.sha1(ALT_REPO.encode()).hexdigest()[:10])
    os.makedirs(_alt, exist_ok=True)
    if os.path.exists(os.path.join(_alt, "src")):
        shutil.rmtree(os.path.join(_alt, "src"))
    shutil.copytree(os.path.join(HARNESS, "src"), os.path.join(_alt, "src"))
    open(os.path.join(_alt, "Cargo.toml"), "w").write(open(os.path.join(HARNESS, "Cargo.toml")).read().replace('path = "/repo"', 'path = "%s"' % ALT_REPO))
    shutil.copy(os.path.join(os.path.join(ROOT, "harness"), "Cargo.lock"), os.path.join(_alt, "Cargo.lock")) if not os.path.exists(os.path.join(_alt, "Cargo.lock")) else None
    if os.path.isdir(os.path.join(HARNESS, ".cargo")) and not os.path.isdir(os.path.join(_alt, ".cargo")):
        shutil.copytree(os.path.join(HARNESS, ".cargo"), os.path.join(_alt, ".cargo"))
    HARNESS = _alt
REPO = "/repo"
ENV = dict(os.environ, CARGO_NET_OFFLINE="true")
ALLOWED_AXIOMS = set()   # the development is axiom-free; anything printed besides "Closed under the global context" fails

FORBIDDEN = re.compile(r"\b(Admitted|admit|Axiom|Parameter|Conjecture|Admit Obligations)\b|Unset Guard|bypass_check|type-in-type|impredicative-set|Unset Universe Checking|Unset Positivity")


class Lock:
    def __init__(self, name):
        self.path = os.path.join(ROOT, "." + name + ".lock")
    def __enter__(self):
        self.f = open(self.path, "w")
        fcntl.flock(self.f, fcntl.LOCK_EX)
    def __exit__(self, *a):
        fcntl.flock(self.f, fcntl.LOCK_UN)
        self.f.close()


def sh(cmd, cwd=None, timeout=3600, env=None, input=None):
    p = subprocess.run(cmd, cwd=cwd, shell=isinstance(cmd, str), stdout=subprocess.PIPE, stderr=subprocess.STDOUT,
                       timeout=timeout, env=env or ENV, input=input, text=True)
    return p.returncode, p.stdout


# ---------------------------------------------------------------- PRNG (splitmix64)
class Rng:
    def __init__(self, seed):
        self.s = (seed * 0x9E3779B97F4A7C15 + 0x1234567) & (2**64 - 1)
    def next(self):
        self.s = (self.s + 0x9E3779B97F4A7C15) & (2**64 - 1)
        z = self.s
        z = ((z ^ (z >> 30)) * 0xBF58476D1CE4E5B9) & (2**64 - 1)
        z = ((z ^ (z >> 27)) * 0x94D049BB133111EB) & (2**64 - 1)
        return z ^ (z >> 31)
    def below(self, n):
        return self.next() % n if n > 0 else 0
    def range(self, a, b):
        return a + self.below(b - a + 1)
    def choice(self, l):
        return l[self.below(len(l))]
    def chance(self, num, den):
        return self.below(den) < num
    def shuffle(self, l):
        for i in range(len(l) - 1, 0, -1):
            j = self.below(i + 1)
            l[i], l[j] = l[j], l[i]


# ---------------------------------------------------------------- Coq
def coq_sources():
    out = []
    for d, _, fs in os.walk(COQ):
        for f in fs:
            if f.endswith(".v"):
                out.append(os.path.join(d, f))
    return sorted(out)


def coq_grep_forbidden():
    bad = []
    for f in coq_sources():
        txt = open(f).read()
        # strip comments (non-nested is enough for our sources; nested handled by loop)
        prev = None
        while prev != txt:
            prev = txt
            txt = re.sub(r"\(\*[^()]*?\*\)", " ", txt, flags=re.S)
            txt = re.sub(r"\(\*(?:(?!\(\*|\*\)).)*\*\)", " ", txt, flags=re.S)
        for m in FORBIDDEN.finditer(txt):
            bad.append("%s: %s" % (os.path.relpath(f, ROOT), m.group(0)))
    return bad


def coq_build(prop_files, thorough=False):
    """Builds the Props files (full .vo build through the Makefile) and returns a dict:
       ok, log, theorems: [(name, assumptions_ok, text)], forbidden: [...]"""
    res = {"ok": True, "log": "", "theorems": [], "forbidden": [], "failed_file": None}
    with Lock("coq"):
        if not os.path.exists(os.path.join(COQ, "Makefile")) or \
           os.path.getmtime(os.path.join(COQ, "_CoqProject")) > os.path.getmtime(os.path.join(COQ, "Makefile")):
            rc, out = sh("coq_makefile -f _CoqProject -o Makefile", cwd=COQ)
            if rc != 0:
                res["ok"] = False; res["log"] = out; return res
        for pf in prop_files:
            vo = os.path.join(COQ, pf[:-2] + ".vo")
            if os.path.exists(vo):
                os.remove(vo)          # force re-check of the property file so that Print Assumptions output is fresh
            rc, out = sh("timeout 3000 make -j16 %s" % (pf[:-2] + ".vo"), cwd=COQ, timeout=3100)
            res["log"] += out
            if rc != 0:
                res["ok"] = False
                res["failed_file"] = pf
                m = re.search(r'File "\./([^"]+)", line (\d+)', out)
                if m:
                    res["failed_file"] = "%s:%s" % (m.group(1), m.group(2))
                return res
            # parse Print Assumptions output: sequence matches the Print Assumptions commands of the file
            src = open(os.path.join(COQ, pf)).read()
            names = re.findall(r"^Print Assumptions (\w+)\.", src, flags=re.M)
            thms = re.findall(r"^(?:Theorem|Lemma|Corollary) (\w+)", src, flags=re.M)
            blocks = re.split(r"(?=Closed under the global context|Axioms:)", out)
            blocks = [b for b in blocks if b.startswith("Closed under") or b.startswith("Axioms:")]
            if len(blocks) != len(names):
                res["ok"] = False
                res["log"] += "\nassumption blocks %d != Print Assumptions commands %d\n" % (len(blocks), len(names))
                res["failed_file"] = pf
                return res
            missing = [t for t in thms if t not in names]
            if missing:
                res["ok"] = False
                res["log"] += "\ntheorems without Print Assumptions: %s\n" % missing
                res["failed_file"] = pf
                return res
            for n, b in zip(names, blocks):
                ok = b.startswith("Closed under")
                if not ok:
                    axs = re.findall(r"^(\S+)\s*:", b, flags=re.M)
                    ok = all(a in ALLOWED_AXIOMS for a in axs)
                res["theorems"].append((n, ok, b.strip().split("\n")[0]))
                if not ok:
                    res["ok"] = False
                    res["failed_file"] = pf + ":" + n
        res["forbidden"] = coq_grep_forbidden()
        if res["forbidden"]:
            res["ok"] = False
            res["failed_file"] = res["forbidden"][0]
        if thorough and res["ok"] and any(os.path.basename(pf)[:-2] in COQCHK_SEPARATE for pf in prop_files):
            # these property files depend on example modules that evaluate the models on 65579-cluster FAT32 images by vm_compute;
            # coqchk has no VM and needs more than an hour for them: it is run by tools/coqchk_all.sh, not inside the check
            res["coqchk"] = "run separately (tools/coqchk_all.sh; report in coq/COQCHK_REPORT.txt)"
        elif thorough and res["ok"]:
            mods = " ".join("FatVerif." + pf[:-2].replace("/", ".") for pf in prop_files)
            rc, out = sh("timeout 3000 coqchk -silent -o -Q . FatVerif %s" % mods, cwd=COQ, timeout=3100)
            res["coqchk"] = out[-2000:]
            if rc != 0:
                res["ok"] = False
                res["failed_file"] = "coqchk"
    return res


COQCHK_SEPARATE = ("C01", "C03", "C04")


# ---------------------------------------------------------------- OCaml model runner
def ocaml_build():
    with Lock("ocaml"):
        gen = os.path.join(OCAML, "gen")
        os.makedirs(gen, exist_ok=True)
        stamp = os.path.join(gen, ".stamp")
        # re-extract when any Model/Spec .vo or Extract.v is newer than the stamp
        srcs = [os.path.join(COQ, "Extract.v")] + [f for f in coq_sources() if "/Model/" in f or "/Spec/" in f]
        newest = max(os.path.getmtime(f) for f in srcs)
        if not os.path.exists(stamp) or os.path.getmtime(stamp) < newest:
            vos = [os.path.relpath(f, COQ)[:-2] + ".vo" for f in srcs[1:]]
            with Lock("coq"):
                if not os.path.exists(os.path.join(COQ, "Makefile")):
                    sh("coq_makefile -f _CoqProject -o Makefile", cwd=COQ)
                rc, out = sh("timeout 3000 make -j16 " + " ".join(vos), cwd=COQ, timeout=3100)
                if rc != 0:
                    return False, out
            for f in os.listdir(gen):
                if f.endswith(".ml") or f.endswith(".mli"):
                    os.remove(os.path.join(gen, f))
            tmpd = os.path.join(gen, ".vo")
            os.makedirs(tmpd, exist_ok=True)
            rc, out = sh("coqc -Q %s FatVerif -o %s %s" % (COQ, os.path.join(tmpd, "Extract.vo"), os.path.join(COQ, "Extract.v")), cwd=gen)
            if rc != 0:
                return False, out
            open(stamp, "w").write("ok")
        rc, out = sh("dune build ./main.exe 2>&1", cwd=OCAML)
        return rc == 0, out


MODEL = os.path.join(OCAML, "_build", "default", "main.exe")


def big_stack():
    """extracted list functions are not tail recursive: give the model runner an unlimited stack"""
    import resource
    try:
        resource.setrlimit(resource.RLIMIT_STACK, (resource.RLIM_INFINITY, resource.RLIM_INFINITY))
    except Exception:
        try:
            soft, hard = resource.getrlimit(resource.RLIMIT_STACK)
            resource.setrlimit(resource.RLIMIT_STACK, (hard, hard))
        except Exception:
            pass


def model_run(mode, text, timeout=3600):
    p = subprocess.run([MODEL, mode], input=text, stdout=subprocess.PIPE, stderr=subprocess.PIPE, text=True, timeout=timeout,
                       preexec_fn=big_stack)
    if p.returncode != 0:
        raise RuntimeError("model runner failed (%s): %s" % (mode, p.stderr[-2000:]))
    return p.stdout.split("\n")[:-1] if p.stdout.endswith("\n") else p.stdout.split("\n")


# ---------------------------------------------------------------- Rust executor
VARIANTS = {
    "default": ("target", ["--features", "alloc,unicode"], "debug", []),
    "release": ("target", ["--features", "alloc,unicode"], "release", ["--release"]),
    "noalloc": ("target-noalloc", ["--no-default-features", "--features", "unicode"], "debug", []),
    "nounicode": ("target-nounicode", ["--no-default-features", "--features", "alloc"], "debug", []),
}


def harness_build(variant="default"):
    tdir, feats, prof, extra = VARIANTS[variant]
    with Lock("cargo-" + tdir):
        lock = os.path.join(HARNESS, "Cargo.lock")
        if not os.path.exists(lock):
            sh("cp %s/Cargo.lock %s" % (REPO, lock))
        env = dict(ENV, RUSTFLAGS="--cfg fatfs_verif -Awarnings", CARGO_TARGET_DIR=os.path.join(HARNESS, tdir))
        cmd = ["cargo", "build", "--offline", "-q"] + feats + extra
        rc, out = sh(cmd, cwd=HARNESS, env=env, timeout=1800)
        return rc == 0, out


def exec_path(variant="default"):
    tdir, feats, prof, extra = VARIANTS[variant]
    # development aid (never set by the registered commands): a differently built executor for the default variant,
    # e.g. one instrumented for coverage measurement of the generators (tools/coverage.sh)
    if variant == "default" and os.environ.get("VERIF_EXEC_DEFAULT"):
        return os.environ["VERIF_EXEC_DEFAULT"]
    return os.path.join(HARNESS, tdir, prof, "fatfs-exec")


def exec_raw(args, text, variant="default", timeout=3600):
    p = subprocess.run([exec_path(variant)] + args, input=text, stdout=subprocess.PIPE, stderr=subprocess.PIPE, text=True, timeout=timeout)
    if p.returncode != 0:
        raise RuntimeError("executor failed: rc=%d %s" % (p.returncode, p.stderr[-2000:]))
    return p.stdout


class OpResult:
    __slots__ = ("line", "kind", "payload", "extra", "events")
    def __init__(self, line):
        self.line = line; self.kind = None; self.payload = ""; self.extra = []; self.events = []
    @property
    def ok(self): return self.kind == "ok"
    def __repr__(self):
        return "<%s -> %s %s>" % (self.line, self.kind, self.payload[:60])
    def writes(self):
        return [(int(e[1]), e[2], int(e[3])) for e in self.events if e[0] == "w"]


def parse_exec(out):
    """-> list of scripts, each a list of OpResult"""
    scripts = [[]]
    cur = None
    for l in out.split("\n"):
        if not l:
            continue
        if l == "---":
            scripts.append([]); cur = None; continue
        c = l[0]
        if c == ">":
            parts = l.split(" ", 2)
            cur = OpResult(parts[2] if len(parts) > 2 else "")
            scripts[-1].append(cur)
        elif c == "r" and cur is not None and cur.kind is None:
            parts = l.split(" ", 2)
            cur.kind = parts[1]
            cur.payload = parts[2] if len(parts) > 2 else ""
        elif c == "e" and l.startswith("e "):
            cur.extra.append(l[2:].split(" "))
        elif c in "wfcxb":
            cur.events.append(l.split(" "))
        elif c == ".":
            pass
    return scripts


def run_scripts(scripts, variant="default", timeout=3600):
    """scripts: list of list-of-lines. Returns list of list of OpResult."""
    text = "\n---\n".join("\n".join(s) for s in scripts) + "\n"
    out = exec_raw(["run"], text, variant, timeout)
    res = parse_exec(out)
    assert len(res) == len(scripts), (len(res), len(scripts))
    return res


def hexs(s):
    b = s.encode("utf-8") if isinstance(s, str) else bytes(s)
    return b.hex() if b else "-"


# ---------------------------------------------------------------- known findings, evidence, verdict
def known_findings():
    p = os.path.join(ROOT, "known_findings.json")
    if not os.path.exists(p):
        return []
    return json.load(open(p)).get("findings", [])


class Report:
    def __init__(self, pid, tier, seed):
        self.pid = pid; self.tier = tier; self.seed = seed
        self.t0 = time.time()
        self.violations = []      # (what, replay dict)
        self.known = []           # strings
        self.cov = {"evaluations": 0, "distinct_nontrivial": 0, "rule": "", "samples": [],
                    "obligations": 0, "discharged": 0, "checker_cmd": "", "trusted_base": [],
                    "traces_validated_against_impl": 0}
        self.assumptions = []
        self.notes = {}
        self._distinct = set()

    def count(self, n=1):
        self.cov["evaluations"] += n

    def distinct(self, key):
        self._distinct.add(key)

    def sample(self, s, cap=6):
        if len(self.cov["samples"]) < cap:
            self.cov["samples"].append(s)

    def violation(self, what, replay, nofail=False):
        self.violations.append((what, replay, nofail))

    def known_finding(self, what):
        if what not in self.known:
            self.known.append(what)

    def proof(self, cb, files):
        self.cov["checker_cmd"] = "make -j16 " + " ".join(f[:-2] + ".vo" for f in files) + " (coqc 8.16.1, full .vo build) + Print Assumptions allow-list + forbidden-word grep" + \
            (" + coqchk -o" if "coqchk" in cb else "")
        self.cov["obligations"] = len(cb["theorems"])
        self.cov["discharged"] = sum(1 for t in cb["theorems"] if t[1])
        self.cov["theorems"] = [t[0] for t in cb["theorems"]]
        if not cb["ok"]:
            self.notes["proof_failure"] = cb.get("failed_file")
            self.notes["proof_log_tail"] = cb["log"][-1500:]

    def finish(self):
        self.cov["distinct_nontrivial"] = len(self._distinct)
        self.cov.update(self.notes)
        ev = {"property_id": self.pid, "tier": self.tier, "seed": self.seed, "level": "proof",
              "coverage": self.cov, "assumptions": self.assumptions,
              "wall_s": round(time.time() - self.t0, 2), "violations": len(self.violations)}
        os.makedirs(os.path.join(ROOT, "evidence"), exist_ok=True)
        json.dump(ev, open(os.path.join(ROOT, "evidence", self.pid + ".json"), "w"), indent=1)
        for k in self.known:
            print("KNOWN-FINDING: property=%s %s" % (self.pid, k))
        rc = 0
        os.makedirs(os.path.join(ROOT, "replays"), exist_ok=True)
        for f in os.listdir(os.path.join(ROOT, "replays")):
            if f.startswith(self.pid + "-"):
                os.remove(os.path.join(ROOT, "replays", f))
        for i, (what, replay, nofail) in enumerate(self.violations[:5]):
            path = os.path.join(ROOT, "replays", "%s-%d-%d.json" % (self.pid, self.seed, i))
            json.dump({"property": self.pid, "what": what, "replay": replay}, open(path, "w"), indent=1)
            print("VIOLATION property=%s replay=%s%s" % (self.pid, path, " no-failing-input-found" if nofail else ""))
            rc = 1
        if rc == 0:
            print("OK property=%s tier=%s evaluations=%d distinct=%d obligations=%d/%d wall=%.1fs" % (
                self.pid, self.tier, self.cov["evaluations"], self.cov["distinct_nontrivial"],
                self.cov["discharged"], self.cov["obligations"], time.time() - self.t0))
        return rc


TRUSTED_BASE = [
    "Coq 8.16.1 kernel (coqc; vm_compute used for closed finite checks; no native_compute)",
    "axioms: none (every property theorem prints 'Closed under the global context')",
    "extraction: ExtrOcamlBasic only (Extract Inductive for bool, option, unit, list, prod, sumbool, sumor); N/positive/nat stay Coq datatypes; OCaml 4.13.1; glue in /verif/ocaml/*.ml",
    "correspondence check: /verif/harness (Rust executor over the real library, instrumented device) + /verif/tools (python generators, diff)",
    "hand-written Gallina model tied to the Rust by differential testing on generated inputs (generator coverage reported in this file)",
    "rustc 1.95, Rust core/std (char::to_uppercase, str/UTF-8, encode_utf16), bitflags",
]


def exact_fit_sectors(bps, bpc, start, want_bits, span=6000, fats="-", variant="default"):
    """smallest total sector count >= start for which the library's own format (boot-sector hook, `fmtbs`) yields a volume of
    the wanted FAT width whose table has NO spare entry behind the last cluster (entries = clusters + 2 exactly), or None"""
    lines = ["%s %d %s %s - %s - - -" % (bps, start + i, bpc, want_bits, fats) for i in range(span)]
    out = exec_raw(["fmtbs"], "\n".join(lines) + "\n", variant=variant).split("\n")[:-1]
    for i, o in enumerate(out):
        t = o.split(" ")
        if t[0] != "ok":
            continue
        b = bytes.fromhex(t[-1])
        bps_ = int.from_bytes(b[11:13], "little"); spc = b[13]; res = int.from_bytes(b[14:16], "little"); nf = b[16]
        root = int.from_bytes(b[17:19], "little")
        ts = int.from_bytes(b[19:21], "little") or int.from_bytes(b[32:36], "little")
        spf = int.from_bytes(b[22:24], "little") or int.from_bytes(b[36:40], "little")
        rds = (root * 32 + bps_ - 1) // bps_
        clusters = (ts - res - nf * spf - rds) // spc
        bits = 12 if clusters < 4085 else 16 if clusters < 65525 else 32
        if bits != want_bits:
            continue
        if spf * bps_ * 8 // bits == clusters + 2:
            return start + i
    return None


def sectors_for_clusters(bps, bpc, clusters, start, span=4000, fat="-", fats="-", variant="default"):
    """smallest total sector count >= start for which the library's own format (boot-sector hook) yields a volume with exactly
    [clusters] data clusters, or None; returns (total_sectors, FAT bits the boot sector implies)"""
    lines = ["%s %d %s %s - %s - - -" % (bps, start + i, bpc, fat, fats) for i in range(span)]
    out = exec_raw(["fmtbs"], "\n".join(lines) + "\n", variant=variant).split("\n")[:-1]
    for i, o in enumerate(out):
        t = o.split(" ")
        if t[0] != "ok":
            continue
        b = bytes.fromhex(t[-1])
        bps_ = int.from_bytes(b[11:13], "little"); spc = b[13]; res = int.from_bytes(b[14:16], "little"); nf = b[16]
        root = int.from_bytes(b[17:19], "little")
        ts = int.from_bytes(b[19:21], "little") or int.from_bytes(b[32:36], "little")
        spf = int.from_bytes(b[22:24], "little") or int.from_bytes(b[36:40], "little")
        rds = (root * 32 + bps_ - 1) // bps_
        n = (ts - res - nf * spf - rds) // spc
        if n == clusters:
            return start + i, (12 if n < 4085 else 16 if n < 65525 else 32)
    return None


def spare_sector_sectors(bps, bpc, start, want_bits, span=6000, fats="2", root="-", variant="default"):
    """smallest total sector count >= start for which the library's own format yields a volume of the wanted width whose FAT has
    at least one whole SECTOR more than its entries need (tables with unused tail sectors), or None"""
    lines = ["%s %d %s %s %s %s - - -" % (bps, start + i, bpc, want_bits, root, fats) for i in range(span)]
    out = exec_raw(["fmtbs"], "\n".join(lines) + "\n", variant=variant).split("\n")[:-1]
    for i, o in enumerate(out):
        t = o.split(" ")
        if t[0] != "ok":
            continue
        b = bytes.fromhex(t[-1])
        bps_ = int.from_bytes(b[11:13], "little"); spc = b[13]; res = int.from_bytes(b[14:16], "little"); nf = b[16]
        rt = int.from_bytes(b[17:19], "little")
        ts = int.from_bytes(b[19:21], "little") or int.from_bytes(b[32:36], "little")
        spf = int.from_bytes(b[22:24], "little") or int.from_bytes(b[36:40], "little")
        rds = (rt * 32 + bps_ - 1) // bps_
        clusters = (ts - res - nf * spf - rds) // spc
        bits = 12 if clusters < 4085 else 16 if clusters < 65525 else 32
        if bits != want_bits:
            continue
        needed = ((clusters + 2) * bits + 7) // 8
        if spf * bps_ - needed >= bps_:
            return start + i
    return None
