#!/usr/bin/env python3
"""prints a replay file with hex names decoded and long payloads shortened"""
import json, sys
def dec(l):
    out = []
    for tok in l.split(" "):
        try:
            out.append(repr(bytes.fromhex(tok).decode())[:50] if len(tok) > 3 and not tok.lstrip('-').isdigit() else tok)
        except Exception:
            out.append(tok[:24])
    return " ".join(out)
for p in sys.argv[1:]:
    j = json.load(open(p))
    print("==", p); print(j["what"][:400])
    sc = j["replay"].get("script", [])
    for l in sc[2:3] + sc[-int(sys.argv[0] and 10):]:
        print("    ", dec(l)[:140])
