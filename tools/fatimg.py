"""Small helpers about FAT geometry used by the harness-side generators (not an oracle)."""

def le(b, o, n):
    return int.from_bytes(b[o:o + n], "little")

class Geom:
    def __init__(self, bs):
        self.bps = le(bs, 11, 2); self.spc = bs[13]; self.reserved = le(bs, 14, 2); self.fats = bs[16]
        self.root_entries = le(bs, 17, 2); ts16 = le(bs, 19, 2); self.media = bs[21]
        spf16 = le(bs, 22, 2); ts32 = le(bs, 32, 4)
        self.spf = spf16 if spf16 != 0 else le(bs, 36, 4)
        self.is32 = spf16 == 0
        self.total_sectors = ts16 if ts16 != 0 else ts32
        self.root_sectors = (self.root_entries * 32 + self.bps - 1) // self.bps
        self.first_data = self.reserved + self.fats * self.spf + self.root_sectors
        self.clusters = (self.total_sectors - self.first_data) // self.spc if self.spc else 0
        self.fat_off = self.reserved * self.bps
        self.root_off = (self.reserved + self.fats * self.spf) * self.bps
        self.data_off = self.first_data * self.bps
        self.cluster_size = self.bps * self.spc
        self.bits = 12 if self.clusters < 4085 else (16 if self.clusters < 65525 else 32)
        self.root_cluster = le(bs, 44, 4) if self.is32 else 0
        self.status_off = 0x41 if self.bits == 32 else 0x25
    def cluster_off(self, c):
        return self.data_off + (c - 2) * self.cluster_size
