#!/bin/sh
# usage: tools/mutest.sh <patch file | -R commit> <check id>...   applies the change to /repo, runs the checks, restores /repo
set -u
P="$1"; shift
cd /repo || exit 2
if [ "$P" = "-R" ]; then C="$1"; shift; git show "$C" -- src | git apply -R || exit 2; else git apply "$P" || exit 2; fi
cd /verif
for id in "$@"; do
  echo "=== $id"; ./check "$id" --tier quick 2>&1 | grep -E "^(VIOLATION|OK|KNOWN)" | cut -c1-220 | head -8
  for f in replays/$id-*.json; do [ -f "$f" ] && python3 -c "
import json,sys; j=json.load(open('$f')); print('   what:', j['what'][:260])" ; done 2>/dev/null | head -4
done
git -C /repo checkout -- . 
git -C /repo status --short | head -3
