// Instrumented sparse in-memory storage device for the fatfs executor.
use std::cell::RefCell;
use std::collections::HashMap;
use std::rc::Rc;

pub const PAGE: u64 = 4096;

#[derive(Debug, Clone)]
pub struct DevError {
    pub tag: String,
}

impl fatfs::IoError for DevError {
    fn is_interrupted(&self) -> bool {
        false
    }
    fn new_unexpected_eof_error() -> Self {
        DevError { tag: "eof".into() }
    }
    fn new_write_zero_error() -> Self {
        DevError { tag: "wz".into() }
    }
}

#[derive(Debug, Clone, Copy, PartialEq, Eq)]
pub enum Kind {
    Read,
    Write,
    Seek,
    Flush,
}

impl Kind {
    pub fn name(self) -> &'static str {
        match self {
            Kind::Read => "read",
            Kind::Write => "write",
            Kind::Seek => "seek",
            Kind::Flush => "flush",
        }
    }
}

pub enum Event {
    Call { kind: Kind, off: u64, len: u64, depth: usize },
    Write { off: u64, data: Vec<u8>, depth: usize },
    Flush { depth: usize },
    Fault { call: u64, kind: Kind, depth: usize },
    Budget,
}

pub struct DevState {
    pages: HashMap<u64, Box<[u8; PAGE as usize]>>,
    pub fill: u8,
    pub len: u64,
    pub pos: u64,
    pub ncalls: u64,
    pub fault_at: Option<(u64, Option<Kind>)>,
    pub budget: Option<u64>,
    pub short_io: u64, // 0 = off, otherwise max bytes per read/write call
    pub log_calls: bool,
    pub log_writes: bool,
    pub events: Vec<Event>,
}

impl DevState {
    pub fn new(len: u64, fill: u8) -> Self {
        DevState {
            pages: HashMap::new(),
            fill,
            len,
            pos: 0,
            ncalls: 0,
            fault_at: None,
            budget: None,
            short_io: 0,
            log_calls: false,
            log_writes: true,
            events: Vec::new(),
        }
    }

    pub fn peek(&self, off: u64, buf: &mut [u8]) {
        let mut i = 0usize;
        while i < buf.len() {
            let o = off + i as u64;
            let pg = o / PAGE;
            let po = (o % PAGE) as usize;
            let n = (PAGE as usize - po).min(buf.len() - i);
            match self.pages.get(&pg) {
                Some(p) => buf[i..i + n].copy_from_slice(&p[po..po + n]),
                None => {
                    for b in &mut buf[i..i + n] {
                        *b = self.fill;
                    }
                }
            }
            i += n;
        }
    }

    pub fn poke(&mut self, off: u64, data: &[u8]) {
        let fill = self.fill;
        let mut i = 0usize;
        while i < data.len() {
            let o = off + i as u64;
            let pg = o / PAGE;
            let po = (o % PAGE) as usize;
            let n = (PAGE as usize - po).min(data.len() - i);
            // sparse: writing fill bytes into a page that was never materialised changes nothing
            if !self.pages.contains_key(&pg) && data[i..i + n].iter().all(|b| *b == fill) {
                i += n;
                continue;
            }
            let p = self.pages.entry(pg).or_insert_with(|| Box::new([fill; PAGE as usize]));
            p[po..po + n].copy_from_slice(&data[i..i + n]);
            i += n;
        }
    }

    /// copy of the stored bytes only (fresh counters, no faults, no budget, write log off) - used by bulk modes
    pub fn clone_image(&self) -> DevState {
        let mut d = DevState::new(self.len, self.fill);
        let fill = self.fill;
        // pages that hold nothing but the fill byte need not exist
        d.pages = self.pages.iter().filter(|(_, p)| p.iter().any(|b| *b != fill)).map(|(k, p)| (*k, p.clone())).collect();
        d.log_writes = false;
        d
    }

    pub fn page_numbers(&self) -> Vec<u64> {
        let mut v: Vec<u64> = self.pages.keys().copied().collect();
        v.sort_unstable();
        v
    }

    fn enter(&mut self, kind: Kind, off: u64, len: u64) -> Result<(), DevError> {
        let depth = fatfs::verif_hooks::drop_depth();
        let call = self.ncalls;
        self.ncalls += 1;
        if let Some(b) = self.budget {
            if b == 0 {
                self.events.push(Event::Budget);
                // unwinding out of the library is the only way to stop a non-terminating loop
                std::panic::panic_any(BudgetExhausted);
            }
            self.budget = Some(b - 1);
        }
        if self.log_calls {
            self.events.push(Event::Call { kind, off, len, depth });
        }
        if let Some((k, want)) = self.fault_at {
            if k == call && want.map_or(true, |w| w == kind) {
                self.fault_at = None;
                self.events.push(Event::Fault { call, kind, depth });
                return Err(DevError { tag: format!("fault{}", call) });
            }
            if k == call {
                // kind mismatch: move on to the next call
                self.fault_at = Some((k + 1, want));
            }
        }
        Ok(())
    }
}

pub struct BudgetExhausted;

#[derive(Clone)]
pub struct Dev(pub Rc<RefCell<DevState>>);

impl fatfs::IoBase for Dev {
    type Error = DevError;
}

impl fatfs::Read for Dev {
    fn read(&mut self, buf: &mut [u8]) -> Result<usize, DevError> {
        let mut s = self.0.borrow_mut();
        let pos = s.pos;
        s.enter(Kind::Read, pos, buf.len() as u64)?;
        let avail = s.len.saturating_sub(pos);
        let mut n = (buf.len() as u64).min(avail);
        if s.short_io > 0 {
            n = n.min(s.short_io);
        }
        let n = n as usize;
        s.peek(pos, &mut buf[..n]);
        s.pos += n as u64;
        Ok(n)
    }
}

impl fatfs::Write for Dev {
    fn write(&mut self, buf: &[u8]) -> Result<usize, DevError> {
        let mut s = self.0.borrow_mut();
        let pos = s.pos;
        s.enter(Kind::Write, pos, buf.len() as u64)?;
        let avail = s.len.saturating_sub(pos);
        let mut n = (buf.len() as u64).min(avail);
        if s.short_io > 0 {
            n = n.min(s.short_io);
        }
        let n = n as usize;
        s.poke(pos, &buf[..n]);
        let depth = fatfs::verif_hooks::drop_depth();
        if n > 0 && s.log_writes {
            s.events.push(Event::Write { off: pos, data: buf[..n].to_vec(), depth });
        }
        s.pos += n as u64;
        Ok(n)
    }

    fn flush(&mut self) -> Result<(), DevError> {
        let mut s = self.0.borrow_mut();
        let pos = s.pos;
        s.enter(Kind::Flush, pos, 0)?;
        let depth = fatfs::verif_hooks::drop_depth();
        s.events.push(Event::Flush { depth });
        Ok(())
    }
}

impl fatfs::Seek for Dev {
    fn seek(&mut self, pos: fatfs::SeekFrom) -> Result<u64, DevError> {
        let mut s = self.0.borrow_mut();
        let cur = s.pos;
        let (target, arg): (Option<u64>, u64) = match pos {
            fatfs::SeekFrom::Start(x) => (Some(x), x),
            fatfs::SeekFrom::End(o) => {
                let t = s.len as i128 + o as i128;
                (if t >= 0 && t <= u64::MAX as i128 { Some(t as u64) } else { None }, o as u64)
            }
            fatfs::SeekFrom::Current(o) => {
                let t = cur as i128 + o as i128;
                (if t >= 0 && t <= u64::MAX as i128 { Some(t as u64) } else { None }, o as u64)
            }
        };
        s.enter(Kind::Seek, target.unwrap_or(arg), 0)?;
        match target {
            Some(t) => {
                s.pos = t;
                Ok(t)
            }
            None => Err(DevError { tag: "seekrange".into() }),
        }
    }
}
