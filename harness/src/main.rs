// fatfs-exec: runs line-oriented operation scripts against the real fatfs library over an
// instrumented in-memory device and prints one result block per script line.
// Protocol: see /verif/harness/PROTOCOL.md
mod dev;
mod sweeps;

use dev::{BudgetExhausted, Dev, DevError, DevState, Event, Kind};
use fatfs::{Read, Seek, SeekFrom, Write};
use std::cell::{Cell, RefCell};
use std::collections::HashMap;
use std::io::{BufRead, Write as IoWrite};
use std::panic::{catch_unwind, AssertUnwindSafe};
use std::rc::Rc;

// ---------- clock and OEM converter -------------------------------------------------------

thread_local! {
    static CLOCK: Cell<(u16,u16,u16,u16,u16,u16,u16)> = Cell::new((2020,1,1,0,0,0,0));
    static OEM_TABLE: Cell<bool> = Cell::new(false);
    static PANIC_MSG: RefCell<String> = RefCell::new(String::new());
}

#[derive(Debug, Clone, Copy)]
pub struct Clock;

impl fatfs::TimeProvider for Clock {
    fn get_current_date(&self) -> fatfs::Date {
        let c = CLOCK.with(|c| c.get());
        fatfs::Date::new(c.0, c.1, c.2)
    }
    fn get_current_date_time(&self) -> fatfs::DateTime {
        let c = CLOCK.with(|c| c.get());
        fatfs::DateTime::new(fatfs::Date::new(c.0, c.1, c.2), fatfs::Time::new(c.3, c.4, c.5, c.6))
    }
}

#[derive(Debug, Clone, Copy)]
pub struct Oem;

impl fatfs::OemCpConverter for Oem {
    fn decode(&self, b: u8) -> char {
        if b <= 0x7F {
            char::from(b)
        } else if OEM_TABLE.with(|t| t.get()) {
            char::from_u32(0x100 + u32::from(b) - 0x80).unwrap()
        } else {
            '\u{FFFD}'
        }
    }
    fn encode(&self, c: char) -> Option<u8> {
        let u = c as u32;
        if u <= 0x7F {
            Some(u as u8)
        } else if OEM_TABLE.with(|t| t.get()) && (0x100..0x180).contains(&u) {
            Some((u - 0x100 + 0x80) as u8)
        } else {
            None
        }
    }
}

type Fs = fatfs::FileSystem<Dev, Clock, Oem>;
type DirH = fatfs::Dir<'static, Dev, Clock, Oem>;
type FileH = fatfs::File<'static, Dev, Clock, Oem>;
type FErr = fatfs::Error<DevError>;

// ---------- helpers -----------------------------------------------------------------------

pub fn hex(b: &[u8]) -> String {
    if b.is_empty() {
        return "-".into();
    }
    let mut s = String::with_capacity(b.len() * 2);
    for x in b {
        s.push_str(&format!("{:02x}", x));
    }
    s
}

pub fn unhex(s: &str) -> Vec<u8> {
    if s == "-" {
        return Vec::new();
    }
    let b = s.as_bytes();
    let mut v = Vec::with_capacity(b.len() / 2);
    let mut i = 0;
    while i + 1 < b.len() {
        let h = (b[i] as char).to_digit(16).unwrap() as u8;
        let l = (b[i + 1] as char).to_digit(16).unwrap() as u8;
        v.push(h << 4 | l);
        i += 2;
    }
    v
}

fn hex16(u: &[u16]) -> String {
    if u.is_empty() {
        return "-".into();
    }
    let mut s = String::new();
    for x in u {
        s.push_str(&format!("{:04x}", x));
    }
    s
}

fn err_name(e: &FErr) -> String {
    match e {
        fatfs::Error::Io(d) => format!("Io {}", d.tag),
        fatfs::Error::UnexpectedEof => "UnexpectedEof".into(),
        fatfs::Error::WriteZero => "WriteZero".into(),
        fatfs::Error::InvalidInput => "InvalidInput".into(),
        fatfs::Error::NotFound => "NotFound".into(),
        fatfs::Error::AlreadyExists => "AlreadyExists".into(),
        fatfs::Error::DirectoryIsNotEmpty => "DirectoryIsNotEmpty".into(),
        fatfs::Error::CorruptedFileSystem => "CorruptedFileSystem".into(),
        fatfs::Error::NotEnoughSpace => "NotEnoughSpace".into(),
        fatfs::Error::InvalidFileNameLength => "InvalidFileNameLength".into(),
        fatfs::Error::UnsupportedFileNameCharacter => "UnsupportedFileNameCharacter".into(),
        _ => "Other".into(),
    }
}

fn fmt_dt(d: fatfs::DateTime) -> String {
    format!(
        "{}-{}-{}/{}:{}:{}.{}",
        d.date.year, d.date.month, d.date.day, d.time.hour, d.time.min, d.time.sec, d.time.millis
    )
}

fn fmt_d(d: fatfs::Date) -> String {
    format!("{}-{}-{}", d.year, d.month, d.day)
}

fn opt<T: std::str::FromStr>(s: &str) -> Option<T> {
    if s == "-" {
        None
    } else {
        s.parse().ok()
    }
}

// ---------- session -----------------------------------------------------------------------

struct Session {
    dev: Rc<RefCell<DevState>>,
    fs: *mut Fs,
    dirs: HashMap<u32, DirH>,
    files: HashMap<u32, FileH>,
}

enum Res {
    Ok(String),
    Err(String),
}

impl Session {
    fn new() -> Self {
        Session {
            dev: Rc::new(RefCell::new(DevState::new(0, 0))),
            fs: std::ptr::null_mut(),
            dirs: HashMap::new(),
            files: HashMap::new(),
        }
    }

    fn fs(&self) -> Result<&'static Fs, String> {
        if self.fs.is_null() {
            Err("not mounted".into())
        } else {
            Ok(unsafe { &*self.fs })
        }
    }

    fn dir(&self, h: u32) -> Result<DirH, String> {
        if h == 0 {
            return Ok(self.fs()?.root_dir());
        }
        self.dirs.get(&h).cloned().ok_or_else(|| format!("no dir handle {}", h))
    }

    fn drop_handles(&mut self) {
        // deterministic order: files by id, then dirs by id
        let mut fk: Vec<u32> = self.files.keys().copied().collect();
        fk.sort_unstable();
        for k in fk {
            self.files.remove(&k);
        }
        let mut dk: Vec<u32> = self.dirs.keys().copied().collect();
        dk.sort_unstable();
        for k in dk {
            self.dirs.remove(&k);
        }
    }

    fn forget_all(&mut self) {
        for (_, f) in self.files.drain() {
            std::mem::forget(f);
        }
        for (_, d) in self.dirs.drain() {
            std::mem::forget(d);
        }
        // the FileSystem allocation is leaked on purpose: no destructor may run
        self.fs = std::ptr::null_mut();
    }

    fn teardown(&mut self) {
        // used between scripts: never let destructors touch the (possibly faulty) device
        self.forget_all();
    }

    fn exec(&mut self, t: &[&str]) -> Result<Res, String> {
        macro_rules! fres {
            ($e:expr, $ok:expr) => {
                match $e {
                    Ok(v) => {
                        #[allow(clippy::redundant_closure_call)]
                        let s: String = ($ok)(v);
                        Ok(Res::Ok(s))
                    }
                    Err(e) => Ok(Res::Err(err_name(&e))),
                }
            };
        }
        let arg = |i: usize| -> Result<&str, String> { t.get(i).copied().ok_or_else(|| format!("missing arg {}", i)) };
        let num = |i: usize| -> Result<u64, String> {
            arg(i)?.parse::<u64>().map_err(|_| format!("bad number arg {}", i))
        };
        let path = |i: usize| -> Result<String, String> {
            String::from_utf8(unhex(arg(i)?)).map_err(|_| "path is not UTF-8".to_string())
        };
        match t[0] {
            "dev" => {
                self.teardown();
                let len = num(1)?;
                let fill = num(2)? as u8;
                self.dev = Rc::new(RefCell::new(DevState::new(len, fill)));
                Ok(Res::Ok(String::new()))
            }
            "poke" => {
                let off = num(1)?;
                let data = unhex(arg(2)?);
                self.dev.borrow_mut().poke(off, &data);
                Ok(Res::Ok(String::new()))
            }
            "fillrange" => {
                let off = num(1)?;
                let len = num(2)? as usize;
                let b = num(3)? as u8;
                self.dev.borrow_mut().poke(off, &vec![b; len]);
                Ok(Res::Ok(String::new()))
            }
            "load" => {
                // sparse text image: lines "<off> <hex>"
                let p = arg(1)?;
                let txt = std::fs::read_to_string(p).map_err(|e| e.to_string())?;
                let mut d = self.dev.borrow_mut();
                for l in txt.lines() {
                    let mut it = l.split(' ');
                    if let (Some(o), Some(h)) = (it.next(), it.next()) {
                        d.poke(o.parse().map_err(|_| "bad load offset")?, &unhex(h));
                    }
                }
                Ok(Res::Ok(String::new()))
            }
            "loadraw" => {
                let p = arg(1)?;
                let data = std::fs::read(p).map_err(|e| e.to_string())?;
                self.dev.borrow_mut().poke(0, &data);
                Ok(Res::Ok(String::new()))
            }
            "pokehint" => {
                // pokehint <delta>|none : FAT32 FS-info next-free hint := (last valid cluster number) + delta
                let mut bs = [0u8; 512];
                self.dev.borrow().peek(0, &mut bs);
                let le16 = |o: usize| u64::from(bs[o]) | (u64::from(bs[o + 1]) << 8);
                let le32 = |o: usize| le16(o) | (le16(o + 2) << 16);
                let bps = le16(11);
                let spc = u64::from(bs[13]);
                let spf = if le16(22) != 0 { le16(22) } else { le32(36) };
                let ts = if le16(19) != 0 { le16(19) } else { le32(32) };
                let root_secs = (le16(17) * 32 + bps - 1) / bps;
                let first_data = le16(14) + u64::from(bs[16]) * spf + root_secs;
                let clusters = (ts - first_data) / spc;
                let last = clusters + 1;
                let v: u32 = if arg(1)? == "none" { 0xFFFF_FFFF } else { (last as i64 + arg(1)?.parse::<i64>().map_err(|_| "bad delta")?) as u32 };
                let fsi = le16(48) * bps;
                self.dev.borrow_mut().poke(fsi + 492, &v.to_le_bytes());
                Ok(Res::Ok(format!("{} {} {}", v, clusters, first_data * bps)))
            }
            "dump" => {
                let off = num(1)?;
                let len = num(2)? as usize;
                let mut buf = vec![0u8; len];
                self.dev.borrow().peek(off, &mut buf);
                Ok(Res::Ok(hex(&buf)))
            }
            "pages" => {
                // all materialised pages that differ from the fill byte: "<off> <hex>" pairs
                let d = self.dev.borrow();
                let mut s = String::new();
                for pg in d.page_numbers() {
                    let mut buf = vec![0u8; dev::PAGE as usize];
                    d.peek(pg * dev::PAGE, &mut buf);
                    if buf.iter().any(|b| *b != d.fill) {
                        s.push_str(&format!("{} {} ", pg * dev::PAGE, hex(&buf)));
                    }
                }
                Ok(Res::Ok(s.trim_end().to_string()))
            }
            "snapshot" => {
                let p = arg(1)?;
                let d = self.dev.borrow();
                let mut buf = vec![0u8; d.len as usize];
                d.peek(0, &mut buf);
                std::fs::write(p, &buf).map_err(|e| e.to_string())?;
                Ok(Res::Ok(String::new()))
            }
            "wlog" => {
                self.dev.borrow_mut().log_writes = num(1)? != 0;
                Ok(Res::Ok(String::new()))
            }
            "logcalls" => {
                self.dev.borrow_mut().log_calls = num(1)? != 0;
                Ok(Res::Ok(String::new()))
            }
            "shortio" => {
                self.dev.borrow_mut().short_io = num(1)?;
                Ok(Res::Ok(String::new()))
            }
            "fault" => {
                let k = num(1)?;
                let kind = match arg(2).unwrap_or("any") {
                    "read" => Some(Kind::Read),
                    "write" => Some(Kind::Write),
                    "seek" => Some(Kind::Seek),
                    "flush" => Some(Kind::Flush),
                    _ => None,
                };
                let mut d = self.dev.borrow_mut();
                let base = d.ncalls;
                d.fault_at = Some((base + k, kind));
                Ok(Res::Ok(String::new()))
            }
            "nofault" => {
                self.dev.borrow_mut().fault_at = None;
                Ok(Res::Ok(String::new()))
            }
            "budget" => {
                let n = arg(1)?;
                self.dev.borrow_mut().budget = opt::<u64>(n);
                Ok(Res::Ok(String::new()))
            }
            "clock" => {
                let v: Vec<u16> = (1..8).map(|i| num(i).map(|x| x as u16)).collect::<Result<_, _>>()?;
                CLOCK.with(|c| c.set((v[0], v[1], v[2], v[3], v[4], v[5], v[6])));
                Ok(Res::Ok(String::new()))
            }
            // format_again: a retry on the SAME storage object - its position is left where the previous call put it
            "format" | "format_again" => {
                // format <bps|-> <total_sectors|-> <bpc|-> <fat 12|16|32|-> <root_entries|-> <fats|-> <media|-> <volid|-> <label hex11|->
                let mut o = fatfs::FormatVolumeOptions::new();
                if let Some(v) = opt::<u16>(arg(1)?) {
                    o = o.bytes_per_sector(v);
                }
                if let Some(v) = opt::<u32>(arg(2)?) {
                    o = o.total_sectors(v);
                }
                if let Some(v) = opt::<u32>(arg(3)?) {
                    o = o.bytes_per_cluster(v);
                }
                match arg(4)? {
                    "12" => o = o.fat_type(fatfs::FatType::Fat12),
                    "16" => o = o.fat_type(fatfs::FatType::Fat16),
                    "32" => o = o.fat_type(fatfs::FatType::Fat32),
                    _ => {}
                }
                if let Some(v) = opt::<u16>(arg(5)?) {
                    o = o.max_root_dir_entries(v);
                }
                if let Some(v) = opt::<u8>(arg(6)?) {
                    o = o.fats(v);
                }
                if let Some(v) = opt::<u8>(arg(7)?) {
                    o = o.media(v);
                }
                if let Some(v) = opt::<u32>(arg(8)?) {
                    o = o.volume_id(v);
                }
                let lab = unhex(arg(9)?);
                if lab.len() == 11 {
                    let mut l = [0u8; 11];
                    l.copy_from_slice(&lab);
                    o = o.volume_label(l);
                }
                if t[0] == "format" {
                    self.dev.borrow_mut().pos = 0;
                }
                let mut d = Dev(self.dev.clone());
                fres!(fatfs::format_volume(&mut d, o), |_| String::new())
            }
            "mount" => {
                if !self.fs.is_null() {
                    return Err("already mounted".into());
                }
                let strict = num(1)? != 0;
                let acc = num(2)? != 0;
                OEM_TABLE.with(|t| t.set(arg(3).unwrap_or("lossy") == "table"));
                let opts = fatfs::FsOptions::new()
                    .time_provider(Clock)
                    .oem_cp_converter(Oem)
                    .update_accessed_date(acc)
                    .strict(strict);
                self.dev.borrow_mut().pos = 0;
                let d = Dev(self.dev.clone());
                match Fs::new(d, opts) {
                    Ok(fs) => {
                        let ft = match fs.fat_type() {
                            fatfs::FatType::Fat12 => 12,
                            fatfs::FatType::Fat16 => 16,
                            fatfs::FatType::Fat32 => 32,
                        };
                        let cs = fs.cluster_size();
                        self.fs = Box::into_raw(Box::new(fs));
                        Ok(Res::Ok(format!("{} {}", ft, cs)))
                    }
                    Err(e) => Ok(Res::Err(err_name(&e))),
                }
            }
            "unmount" => {
                let _ = self.fs()?;
                self.drop_handles();
                let fs = unsafe { Box::from_raw(self.fs) };
                self.fs = std::ptr::null_mut();
                fres!(fs.unmount(), |_| String::new())
            }
            "dropfs" => {
                let _ = self.fs()?;
                self.drop_handles();
                let fs = unsafe { Box::from_raw(self.fs) };
                self.fs = std::ptr::null_mut();
                drop(fs);
                Ok(Res::Ok(String::new()))
            }
            "forget" => {
                self.forget_all();
                Ok(Res::Ok(String::new()))
            }
            "open_dir" | "create_dir" => {
                let d = self.dir(num(1)? as u32)?;
                let p = path(2)?;
                let nh = num(3)? as u32;
                let r = if t[0] == "open_dir" { d.open_dir(&p) } else { d.create_dir(&p) };
                match r {
                    Ok(nd) => {
                        if nh != 0 {
                            self.dirs.insert(nh, nd);
                        }
                        Ok(Res::Ok(String::new()))
                    }
                    Err(e) => Ok(Res::Err(err_name(&e))),
                }
            }
            "open_file" | "create_file" => {
                let d = self.dir(num(1)? as u32)?;
                let p = path(2)?;
                let nh = num(3)? as u32;
                let r = if t[0] == "open_file" { d.open_file(&p) } else { d.create_file(&p) };
                match r {
                    Ok(f) => {
                        if nh != 0 {
                            self.files.insert(nh, f);
                        }
                        Ok(Res::Ok(String::new()))
                    }
                    Err(e) => Ok(Res::Err(err_name(&e))),
                }
            }
            "remove" => {
                let d = self.dir(num(1)? as u32)?;
                let p = path(2)?;
                fres!(d.remove(&p), |_| String::new())
            }
            "rename" => {
                let d = self.dir(num(1)? as u32)?;
                let s = path(2)?;
                let dd = self.dir(num(3)? as u32)?;
                let p = path(4)?;
                fres!(d.rename(&s, &dd, &p), |_| String::new())
            }
            "list" => {
                let d = self.dir(num(1)? as u32)?;
                let mut out = String::new();
                let mut n = 0;
                for r in d.iter() {
                    match r {
                        Ok(e) => {
                            n += 1;
                            let lfn: Vec<u16> = e.long_file_name_as_ucs2_units().map(|u| u.to_vec()).unwrap_or_default();
                            #[cfg(feature = "alloc")]
                            let (fname, sname) = (hex(e.file_name().as_bytes()), hex(e.short_file_name().as_bytes()));
                            #[cfg(not(feature = "alloc"))]
                            let (fname, sname) = ("?".to_string(), "?".to_string());
                            out.push_str(&format!(
                                "\ne {} {} {} {} {} {} {} {} {} {}",
                                hex16(&lfn),
                                hex(e.short_file_name_as_bytes()),
                                e.attributes().bits(),
                                e.len(),
                                if e.is_dir() { 1 } else { 0 },
                                fmt_dt(e.created()),
                                fmt_dt(e.modified()),
                                fmt_d(e.accessed()),
                                fname,
                                sname,
                            ));
                        }
                        Err(e) => {
                            return Ok(Res::Err(err_name(&e)));
                        }
                    }
                }
                Ok(Res::Ok(format!("{}{}", n, out)))
            }
            "read" => {
                let h = num(1)? as u32;
                let n = num(2)? as usize;
                let f = self.files.get_mut(&h).ok_or("no file handle")?;
                let mut buf = vec![0u8; n];
                fres!(f.read(&mut buf), |k: usize| hex(&buf[..k]))
            }
            "read_all" => {
                // read until 0 is returned (at most n bytes)
                let h = num(1)? as u32;
                let n = num(2)? as usize;
                let f = self.files.get_mut(&h).ok_or("no file handle")?;
                let mut buf = vec![0u8; n];
                let mut got = 0usize;
                loop {
                    if got == n {
                        break;
                    }
                    match f.read(&mut buf[got..]) {
                        Ok(0) => break,
                        Ok(k) => got += k,
                        Err(e) => return Ok(Res::Err(err_name(&e))),
                    }
                }
                Ok(Res::Ok(hex(&buf[..got])))
            }
            "write" => {
                let h = num(1)? as u32;
                let data = unhex(arg(2)?);
                let f = self.files.get_mut(&h).ok_or("no file handle")?;
                fres!(f.write(&data), |k: usize| format!("{}", k))
            }
            "write_all" | "write_pat" => {
                // the default Write::write_all loop, done here so that the number of bytes written before a failure
                // can be reported: "ok <n>" | "err <Variant> <written>"
                let h = num(1)? as u32;
                let data: Vec<u8> = if t[0] == "write_all" {
                    unhex(arg(2)?)
                } else {
                    // write_pat <fh> <n> <seed>:  b[i] = (seed + i*7 + i/251) mod 256
                    let n = num(2)? as usize;
                    let seed = num(3)?;
                    (0..n).map(|i| ((seed + (i as u64) * 7 + (i as u64) / 251) % 256) as u8).collect()
                };
                let f = self.files.get_mut(&h).ok_or("no file handle")?;
                let mut done = 0usize;
                while done < data.len() {
                    match f.write(&data[done..]) {
                        Ok(0) => return Ok(Res::Err(format!("WriteZero {}", done))),
                        Ok(k) => done += k,
                        Err(e) => return Ok(Res::Err(format!("{} {}", err_name(&e), done))),
                    }
                }
                Ok(Res::Ok(format!("{}", done)))
            }
            "seek" => {
                let h = num(1)? as u32;
                let off: i128 = arg(3)?.parse().map_err(|_| "bad offset")?;
                let sf = match arg(2)? {
                    "start" => SeekFrom::Start(off as u64),
                    "end" => SeekFrom::End(off as i64),
                    _ => SeekFrom::Current(off as i64),
                };
                let f = self.files.get_mut(&h).ok_or("no file handle")?;
                fres!(f.seek(sf), |p: u64| format!("{}", p))
            }
            "truncate" => {
                let h = num(1)? as u32;
                let f = self.files.get_mut(&h).ok_or("no file handle")?;
                fres!(f.truncate(), |_| String::new())
            }
            "flush" => {
                let h = num(1)? as u32;
                let f = self.files.get_mut(&h).ok_or("no file handle")?;
                fres!(f.flush(), |_| String::new())
            }
            "set_created" | "set_modified" => {
                let h = num(1)? as u32;
                let v: Vec<u16> = (2..9).map(|i| num(i).map(|x| x as u16)).collect::<Result<_, _>>()?;
                let dt = fatfs::DateTime::new(fatfs::Date::new(v[0], v[1], v[2]), fatfs::Time::new(v[3], v[4], v[5], v[6]));
                let f = self.files.get_mut(&h).ok_or("no file handle")?;
                if t[0] == "set_created" {
                    f.set_created(dt);
                } else {
                    f.set_modified(dt);
                }
                Ok(Res::Ok(String::new()))
            }
            "set_accessed" => {
                let h = num(1)? as u32;
                let v: Vec<u16> = (2..5).map(|i| num(i).map(|x| x as u16)).collect::<Result<_, _>>()?;
                let f = self.files.get_mut(&h).ok_or("no file handle")?;
                f.set_accessed(fatfs::Date::new(v[0], v[1], v[2]));
                Ok(Res::Ok(String::new()))
            }
            "extents" => {
                let h = num(1)? as u32;
                let f = self.files.get_mut(&h).ok_or("no file handle")?;
                let mut s = String::new();
                for r in f.extents() {
                    match r {
                        Ok(x) => s.push_str(&format!("{}:{} ", x.offset, x.size)),
                        Err(e) => return Ok(Res::Err(err_name(&e))),
                    }
                }
                Ok(Res::Ok(s.trim_end().to_string()))
            }
            "drop_file" => {
                let h = num(1)? as u32;
                self.files.remove(&h);
                Ok(Res::Ok(String::new()))
            }
            "drop_dir" => {
                let h = num(1)? as u32;
                self.dirs.remove(&h);
                Ok(Res::Ok(String::new()))
            }
            "drop_all" => {
                self.drop_handles();
                Ok(Res::Ok(String::new()))
            }
            "stats" => {
                let fs = self.fs()?;
                fres!(fs.stats(), |s: fatfs::FileSystemStats| format!(
                    "{} {} {}",
                    s.cluster_size(),
                    s.total_clusters(),
                    s.free_clusters()
                ))
            }
            "status_flags" => {
                let fs = self.fs()?;
                fres!(fs.read_status_flags(), |s: fatfs::FsStatusFlags| format!(
                    "{} {}",
                    s.dirty() as u8,
                    s.io_error() as u8
                ))
            }
            "label" => {
                let fs = self.fs()?;
                Ok(Res::Ok(format!("{} {}", hex(fs.volume_label_as_bytes()), fs.volume_id())))
            }
            "label_root" => {
                let fs = self.fs()?;
                fres!(fs.read_volume_label_from_root_dir_as_bytes(), |l: Option<[u8; 11]>| match l {
                    Some(b) => hex(&b),
                    None => "none".to_string(),
                })
            }
            _ => Err(format!("unknown op {}", t[0])),
        }
    }
}

fn print_events(out: &mut impl IoWrite, dev: &Rc<RefCell<DevState>>) {
    let evs: Vec<Event> = std::mem::take(&mut dev.borrow_mut().events);
    for e in evs {
        match e {
            Event::Call { kind, off, len, depth } => {
                writeln!(out, "c {} {} {} {}", kind.name(), off, len, depth).unwrap();
            }
            Event::Write { off, data, depth } => {
                writeln!(out, "w {} {} {}", off, hex(&data), depth).unwrap();
            }
            Event::Flush { depth } => {
                writeln!(out, "f {}", depth).unwrap();
            }
            Event::Fault { call, kind, depth } => {
                writeln!(out, "x {} {} {}", call, kind.name(), depth).unwrap();
            }
            Event::Budget => {
                writeln!(out, "b").unwrap();
            }
        }
    }
}

fn run_scripts() {
    let stdin = std::io::stdin();
    let stdout = std::io::stdout();
    let mut out = std::io::BufWriter::new(stdout.lock());
    let mut sess = Session::new();
    let mut dead = false; // after a panic the rest of the script is skipped
    let mut n = 0u64;
    for line in stdin.lock().lines() {
        let line = line.unwrap();
        let line = line.trim();
        if line.is_empty() || line.starts_with('#') {
            continue;
        }
        if line == "---" {
            sess.teardown();
            sess = Session::new();
            dead = false;
            n = 0;
            writeln!(out, "---").unwrap();
            out.flush().unwrap();
            continue;
        }
        writeln!(out, "> {} {}", n, line).unwrap();
        n += 1;
        if dead {
            writeln!(out, "r skipped\n.").unwrap();
            continue;
        }
        let toks: Vec<&str> = line.split(' ').collect();
        let r = catch_unwind(AssertUnwindSafe(|| sess.exec(&toks)));
        match r {
            Ok(Ok(Res::Ok(s))) => {
                if s.is_empty() {
                    writeln!(out, "r ok").unwrap();
                } else {
                    writeln!(out, "r ok {}", s).unwrap();
                }
            }
            Ok(Ok(Res::Err(s))) => writeln!(out, "r err {}", s).unwrap(),
            Ok(Err(s)) => writeln!(out, "r bad {}", hex(s.as_bytes())).unwrap(),
            Err(p) => {
                dead = true;
                if p.downcast_ref::<BudgetExhausted>().is_some() {
                    writeln!(out, "r hang").unwrap();
                } else {
                    let msg = PANIC_MSG.with(|m| m.borrow().clone());
                    writeln!(out, "r panic {}", hex(msg.as_bytes())).unwrap();
                }
                // the RefCell of the device may still be borrowed if the panic came from inside it: it does not,
                // device code never panics except for the budget, which is raised before any state change
            }
        }
        // events are printed even after a panic
        if let Ok(mut d) = sess.dev.try_borrow_mut() {
            d.budget = d.budget; // no-op, keeps borrow short
        }
        print_events(&mut out, &sess.dev);
        writeln!(out, ".").unwrap();
        if dead {
            sess.teardown();
        }
    }
    sess.teardown();
    out.flush().unwrap();
}

fn main() {
    std::panic::set_hook(Box::new(|info| {
        let msg = if let Some(s) = info.payload().downcast_ref::<&str>() {
            (*s).to_string()
        } else if let Some(s) = info.payload().downcast_ref::<String>() {
            s.clone()
        } else {
            "?".to_string()
        };
        let loc = info.location().map(|l| format!("{}:{}", l.file(), l.line())).unwrap_or_default();
        PANIC_MSG.with(|m| *m.borrow_mut() = format!("{} @ {}", msg, loc));
    }));
    let args: Vec<String> = std::env::args().collect();
    if args.len() > 1 && args[1] != "run" {
        sweeps::main(&args[1..]);
        return;
    }
    run_scripts();
}
