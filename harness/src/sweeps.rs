// Bulk (non-script) modes: one input line -> one output line, for high-volume pure checks.
use crate::{hex, unhex};
use std::io::{BufRead, Write};
use std::panic::{catch_unwind, AssertUnwindSafe};

fn opt<T: std::str::FromStr>(s: &str) -> Option<T> {
    if s == "-" {
        None
    } else {
        s.parse().ok()
    }
}

// fmtbs: "<bps|-> <total_sectors> <bpc|-> <fat|-> <root_entries|-> <fats|-> <media|-> <volid|-> <label|->"
//   -> "ok <fatbits> <hex512>" | "err <Variant>" | "panic <hexmsg>"
fn fmtbs_line(t: &[&str]) -> String {
    let r = catch_unwind(AssertUnwindSafe(|| {
        let mut o = fatfs::FormatVolumeOptions::new();
        if let Some(v) = opt::<u16>(t[0]) {
            o = o.bytes_per_sector(v);
        }
        let ts: u32 = t[1].parse().unwrap();
        if let Some(v) = opt::<u32>(t[2]) {
            o = o.bytes_per_cluster(v);
        }
        match t[3] {
            "12" => o = o.fat_type(fatfs::FatType::Fat12),
            "16" => o = o.fat_type(fatfs::FatType::Fat16),
            "32" => o = o.fat_type(fatfs::FatType::Fat32),
            _ => {}
        }
        if let Some(v) = opt::<u16>(t[4]) {
            o = o.max_root_dir_entries(v);
        }
        if let Some(v) = opt::<u8>(t[5]) {
            o = o.fats(v);
        }
        if let Some(v) = opt::<u8>(t[6]) {
            o = o.media(v);
        }
        if let Some(v) = opt::<u32>(t[7]) {
            o = o.volume_id(v);
        }
        let lab = unhex(t[8]);
        if lab.len() == 11 {
            let mut l = [0u8; 11];
            l.copy_from_slice(&lab);
            o = o.volume_label(l);
        }
        fatfs::verif_hooks::format_boot_sector_bytes(&o, ts)
    }));
    match r {
        Ok(Ok((b, bits))) => format!("ok {} {}", bits, hex(&b)),
        Ok(Err(fatfs::Error::InvalidInput)) => "err InvalidInput".to_string(),
        Ok(Err(_)) => "err Other".to_string(),
        Err(_) => {
            let msg = crate::PANIC_MSG.with(|m| m.borrow().clone());
            format!("panic {}", hex(msg.as_bytes()))
        }
    }
}

// fmtsweep: "<lo> <hi> <bps|-> <bpc|-> <fat|-> <root_entries|-> <fats|->"
//   runs the boot-sector hook for EVERY total sector count in lo..=hi and prints one line per maximal run of
//   consecutive counts whose results agree in everything but the total-sector fields (which must encode the count):
//     "run <first> <last> ok <fatbits> <hex512 of first>" | "run <first> <last> err <Variant>" | "run <first> <last> panic <hexmsg>"
//   followed by "end <number of counts evaluated>".
fn sweep_options(t: &[&str]) -> fatfs::FormatVolumeOptions {
    let mut o = fatfs::FormatVolumeOptions::new();
    if let Some(v) = opt::<u16>(t[2]) {
        o = o.bytes_per_sector(v);
    }
    if let Some(v) = opt::<u32>(t[3]) {
        o = o.bytes_per_cluster(v);
    }
    match t[4] {
        "12" => o = o.fat_type(fatfs::FatType::Fat12),
        "16" => o = o.fat_type(fatfs::FatType::Fat16),
        "32" => o = o.fat_type(fatfs::FatType::Fat32),
        _ => {}
    }
    if let Some(v) = opt::<u16>(t[5]) {
        o = o.max_root_dir_entries(v);
    }
    if let Some(v) = opt::<u8>(t[6]) {
        o = o.fats(v);
    }
    o
}

#[derive(PartialEq, Clone)]
enum SweepKey {
    Ok(u32, [u8; 512]), // fat bits, sector with the total-sector fields cleared
    Err(String),
    Panic(String),
}

fn sweep_one(o: &fatfs::FormatVolumeOptions, ts: u32) -> (SweepKey, [u8; 512]) {
    let r = catch_unwind(AssertUnwindSafe(|| fatfs::verif_hooks::format_boot_sector_bytes(o, ts)));
    match r {
        Ok(Ok((b, bits))) => {
            let mut k = b;
            let ts16 = u32::from(u16::from_le_bytes([b[19], b[20]]));
            let ts32 = u32::from_le_bytes([b[32], b[33], b[34], b[35]]);
            // the declared size must be the requested one, in exactly one of the two fields
            let declared_ok = (ts16 == ts && ts32 == 0 && ts != 0) || (ts16 == 0 && ts32 == ts);
            if declared_ok {
                k[19] = 0;
                k[20] = 0;
                k[32] = 0;
                k[33] = 0;
                k[34] = 0;
                k[35] = 0;
                // which field is used is part of the key
                k[19] = u8::from(ts16 != 0);
            }
            (SweepKey::Ok(bits, k), b)
        }
        Ok(Err(fatfs::Error::InvalidInput)) => (SweepKey::Err("InvalidInput".to_string()), [0; 512]),
        Ok(Err(_)) => (SweepKey::Err("Other".to_string()), [0; 512]),
        Err(_) => {
            let msg = crate::PANIC_MSG.with(|m| m.borrow().clone());
            (SweepKey::Panic(hex(msg.as_bytes())), [0; 512])
        }
    }
}

fn fmtsweep(t: &[&str], out: &mut impl Write) {
    let lo: u64 = t[0].parse().unwrap();
    let hi: u64 = t[1].parse().unwrap();
    let o = sweep_options(t);
    let mut cur: Option<(SweepKey, [u8; 512], u64)> = None;
    let mut n: u64 = 0;
    let emit = |out: &mut dyn Write, k: &SweepKey, first_bytes: &[u8; 512], first: u64, last: u64| match k {
        SweepKey::Ok(bits, _) => writeln!(out, "run {} {} ok {} {}", first, last, bits, hex(first_bytes)).unwrap(),
        SweepKey::Err(v) => writeln!(out, "run {} {} err {}", first, last, v).unwrap(),
        SweepKey::Panic(m) => writeln!(out, "run {} {} panic {}", first, last, m).unwrap(),
    };
    let mut ts = lo;
    while ts <= hi {
        let (k, b) = sweep_one(&o, ts as u32);
        n += 1;
        match &cur {
            Some((ck, _, _)) if *ck == k => {}
            Some((ck, cb, first)) => {
                emit(out, ck, cb, *first, ts - 1);
                cur = Some((k, b, ts));
            }
            None => cur = Some((k, b, ts)),
        }
        ts += 1;
    }
    if let Some((ck, cb, first)) = &cur {
        emit(out, ck, cb, *first, hi);
    }
    writeln!(out, "end {}", n).unwrap();
}

pub fn main(args: &[String]) {
    let stdin = std::io::stdin();
    let stdout = std::io::stdout();
    let mut out = std::io::BufWriter::new(stdout.lock());
    let mode = args[0].as_str();
    for line in stdin.lock().lines() {
        let line = line.unwrap();
        let t: Vec<&str> = line.trim().split(' ').collect();
        if t.is_empty() || t[0].is_empty() {
            continue;
        }
        if mode == "fmtsweep" {
            fmtsweep(&t, &mut out);
            continue;
        }
        let r = match mode {
            "fmtbs" => fmtbs_line(&t),
            _ => "bad mode".to_string(),
        };
        writeln!(out, "{}", r).unwrap();
    }
    out.flush().unwrap();
}
