// Bulk (non-script) modes: one input line -> one output line, for high-volume pure checks.
use crate::{hex, unhex};
use std::io::{BufRead, Write};
use std::panic::{catch_unwind, AssertUnwindSafe};

fn opt<T: std::str::FromStr>(s: &str) -> Option<T> {
    if s == "-" {
        None
    } else {
        s.parse().ok()
    }
}

// fmtbs: "<bps|-> <total_sectors> <bpc|-> <fat|-> <root_entries|-> <fats|-> <media|-> <volid|-> <label|->"
//   -> "ok <fatbits> <hex512>" | "err <Variant>" | "panic <hexmsg>"
fn fmtbs_line(t: &[&str]) -> String {
    let r = catch_unwind(AssertUnwindSafe(|| {
        let mut o = fatfs::FormatVolumeOptions::new();
        if let Some(v) = opt::<u16>(t[0]) {
            o = o.bytes_per_sector(v);
        }
        let ts: u32 = t[1].parse().unwrap();
        if let Some(v) = opt::<u32>(t[2]) {
            o = o.bytes_per_cluster(v);
        }
        match t[3] {
            "12" => o = o.fat_type(fatfs::FatType::Fat12),
            "16" => o = o.fat_type(fatfs::FatType::Fat16),
            "32" => o = o.fat_type(fatfs::FatType::Fat32),
            _ => {}
        }
        if let Some(v) = opt::<u16>(t[4]) {
            o = o.max_root_dir_entries(v);
        }
        if let Some(v) = opt::<u8>(t[5]) {
            o = o.fats(v);
        }
        if let Some(v) = opt::<u8>(t[6]) {
            o = o.media(v);
        }
        if let Some(v) = opt::<u32>(t[7]) {
            o = o.volume_id(v);
        }
        let lab = unhex(t[8]);
        if lab.len() == 11 {
            let mut l = [0u8; 11];
            l.copy_from_slice(&lab);
            o = o.volume_label(l);
        }
        fatfs::verif_hooks::format_boot_sector_bytes(&o, ts)
    }));
    match r {
        Ok(Ok((b, bits))) => format!("ok {} {}", bits, hex(&b)),
        Ok(Err(fatfs::Error::InvalidInput)) => "err InvalidInput".to_string(),
        Ok(Err(_)) => "err Other".to_string(),
        Err(_) => {
            let msg = crate::PANIC_MSG.with(|m| m.borrow().clone());
            format!("panic {}", hex(msg.as_bytes()))
        }
    }
}

// uppertable: no input; prints "<cp>: <upper cps>" (decimal) for every scalar value whose upper-case folding, as the
// library's char_to_uppercase computes it in this feature set (char::to_uppercase with `unicode`, to_ascii_uppercase
// without), differs from the character itself
fn uppertable(out: &mut impl Write) {
    for cp in 0..0x11_0000u32 {
        if let Some(c) = char::from_u32(cp) {
            #[cfg(feature = "unicode")]
            let u: Vec<char> = c.to_uppercase().collect();
            #[cfg(not(feature = "unicode"))]
            let u: Vec<char> = vec![c.to_ascii_uppercase()];
            if u.len() != 1 || u[0] != c {
                let l: Vec<String> = u.iter().map(|x| format!("{}", *x as u32)).collect();
                writeln!(out, "{}: {}", cp, l.join(" ")).unwrap();
            }
        }
    }
}

pub fn main(args: &[String]) {
    let stdin = std::io::stdin();
    let stdout = std::io::stdout();
    let mut out = std::io::BufWriter::new(stdout.lock());
    let mode = args[0].as_str();
    if mode == "uppertable" {
        uppertable(&mut out);
        out.flush().unwrap();
        return;
    }
    for line in stdin.lock().lines() {
        let line = line.unwrap();
        let t: Vec<&str> = line.trim().split(' ').collect();
        if t.is_empty() || t[0].is_empty() {
            continue;
        }
        let r = match mode {
            "fmtbs" => fmtbs_line(&t),
            _ => "bad mode".to_string(),
        };
        writeln!(out, "{}", r).unwrap();
    }
    out.flush().unwrap();
}
