// Bulk (non-script) modes: one input line -> one output line, for high-volume pure checks.
use crate::{hex, unhex};
use std::io::{BufRead, Write};
use std::panic::{catch_unwind, AssertUnwindSafe};

fn opt<T: std::str::FromStr>(s: &str) -> Option<T> {
    if s == "-" {
        None
    } else {
        s.parse().ok()
    }
}

// fmtbs: "<bps|-> <total_sectors> <bpc|-> <fat|-> <root_entries|-> <fats|-> <media|-> <volid|-> <label|->"
//   -> "ok <fatbits> <hex512>" | "err <Variant>" | "panic <hexmsg>"
fn fmtbs_line(t: &[&str]) -> String {
    let r = catch_unwind(AssertUnwindSafe(|| {
        let mut o = fatfs::FormatVolumeOptions::new();
        if let Some(v) = opt::<u16>(t[0]) {
            o = o.bytes_per_sector(v);
        }
        let ts: u32 = t[1].parse().unwrap();
        if let Some(v) = opt::<u32>(t[2]) {
            o = o.bytes_per_cluster(v);
        }
        match t[3] {
            "12" => o = o.fat_type(fatfs::FatType::Fat12),
            "16" => o = o.fat_type(fatfs::FatType::Fat16),
            "32" => o = o.fat_type(fatfs::FatType::Fat32),
            _ => {}
        }
        if let Some(v) = opt::<u16>(t[4]) {
            o = o.max_root_dir_entries(v);
        }
        if let Some(v) = opt::<u8>(t[5]) {
            o = o.fats(v);
        }
        if let Some(v) = opt::<u8>(t[6]) {
            o = o.media(v);
        }
        if let Some(v) = opt::<u32>(t[7]) {
            o = o.volume_id(v);
        }
        let lab = unhex(t[8]);
        if lab.len() == 11 {
            let mut l = [0u8; 11];
            l.copy_from_slice(&lab);
            o = o.volume_label(l);
        }
        fatfs::verif_hooks::format_boot_sector_bytes(&o, ts)
    }));
    match r {
        Ok(Ok((b, bits))) => format!("ok {} {}", bits, hex(&b)),
        Ok(Err(fatfs::Error::InvalidInput)) => "err InvalidInput".to_string(),
        Ok(Err(_)) => "err Other".to_string(),
        Err(_) => {
            let msg = crate::PANIC_MSG.with(|m| m.borrow().clone());
            format!("panic {}", hex(msg.as_bytes()))
        }
    }
}

// upper: "<code point>" -> "<code point> <to_ascii_uppercase> <char::to_uppercase code points...>" | "none" (not a scalar value)
//   the case mapping the library's `unicode` feature uses (std of this very build), for C19
fn upper_line(t: &[&str]) -> String {
    match t[0].parse::<u32>().ok().and_then(char::from_u32) {
        Some(c) => {
            let mut s = format!("{} {}", c as u32, c.to_ascii_uppercase() as u32);
            for u in c.to_uppercase() {
                s.push_str(&format!(" {}", u as u32));
            }
            s
        }
        None => "none".to_string(),
    }
}

// ---------------------------------------------------------------------------------------------------
// c07: mount mutated boot / FS-info sectors on top of a template image (one line in, one line out).
//   "tmpl <devlen> <bps|-> <total_sectors|-> <bytes_per_cluster|-> <12|16|32>"
//        formats a fresh sparse device, creates the one-cluster file "f", unmounts, keeps the image as template
//        -> "ok <devlen> <off>:<hex4096> ..."   (all pages that are not all-zero)   | "err ..." | "panic <hexmsg>"
//   "m <strict 0/1> <budget> <flags> <off>:<hex>,<off>:<hex>,...|-"
//        copy of the template with these bytes poked, FileSystem::new under catch_unwind, then (on success)
//        read_status_flags, stats (device call budget: a scan of a huge FAT is cut off), and with flag "r"
//        remove("f") + unmount with the write log on, to see the FS-info values the library held;
//        flag "t=<n>" cuts the device to n bytes
//        -> "err <Variant>" | "panic <hexmsg>" | "hang"
//         | "ok <fatbits> <cluster_size> <total|?> <free|?> <scanned 0/1|?> <dirty|?> <io_error|?> <volume_id>
//               <stats: ok|err:<Variant>|panic:<hexmsg>|hang> <rm: -|ok|err:<Variant>|panic:..|hang>
//               <fsinfo write: -|<off>:<free>:<next>>"
struct C07 {
    tmpl: Option<crate::dev::DevState>,
}

fn c07_err(e: &fatfs::Error<crate::dev::DevError>) -> String {
    match e {
        fatfs::Error::Io(d) => format!("Io:{}", d.tag),
        fatfs::Error::UnexpectedEof => "UnexpectedEof".into(),
        fatfs::Error::WriteZero => "WriteZero".into(),
        fatfs::Error::InvalidInput => "InvalidInput".into(),
        fatfs::Error::NotFound => "NotFound".into(),
        fatfs::Error::AlreadyExists => "AlreadyExists".into(),
        fatfs::Error::DirectoryIsNotEmpty => "DirectoryIsNotEmpty".into(),
        fatfs::Error::CorruptedFileSystem => "CorruptedFileSystem".into(),
        fatfs::Error::NotEnoughSpace => "NotEnoughSpace".into(),
        fatfs::Error::InvalidFileNameLength => "InvalidFileNameLength".into(),
        fatfs::Error::UnsupportedFileNameCharacter => "UnsupportedFileNameCharacter".into(),
        _ => "Other".into(),
    }
}

fn c07_guard<T>(f: impl FnOnce() -> Result<T, fatfs::Error<crate::dev::DevError>>) -> Result<T, String> {
    match catch_unwind(AssertUnwindSafe(f)) {
        Ok(Ok(v)) => Ok(v),
        Ok(Err(e)) => Err(format!("err:{}", c07_err(&e))),
        Err(p) => {
            if p.downcast_ref::<crate::dev::BudgetExhausted>().is_some() {
                Err("hang".into())
            } else {
                let msg = crate::PANIC_MSG.with(|m| m.borrow().clone());
                Err(format!("panic:{}", hex(msg.as_bytes())))
            }
        }
    }
}

// drop the FileSystem (its destructor writes the FS-info sector / dirty flag into the throw-away image copy) under a
// small call budget; the image copy is freed with it
fn c07_discard(st: &std::rc::Rc<std::cell::RefCell<crate::dev::DevState>>, fs: crate::Fs) {
    st.borrow_mut().budget = Some(10000);
    st.borrow_mut().log_writes = false;
    if catch_unwind(AssertUnwindSafe(move || drop(fs))).is_err() {
        // a destructor that panics or loops: nothing to free safely
    }
}

fn c07_opts(strict: bool) -> fatfs::FsOptions<crate::Clock, crate::Oem> {
    fatfs::FsOptions::new()
        .time_provider(crate::Clock)
        .oem_cp_converter(crate::Oem)
        .update_accessed_date(false)
        .strict(strict)
}

impl C07 {
    fn tmpl(&mut self, t: &[&str]) -> String {
        use fatfs::Write;
        let devlen: u64 = t[1].parse().unwrap();
        let st = std::rc::Rc::new(std::cell::RefCell::new(crate::dev::DevState::new(devlen, 0)));
        st.borrow_mut().log_writes = false;
        let r = c07_guard(|| {
            let mut o = fatfs::FormatVolumeOptions::new();
            if let Some(v) = opt::<u16>(t[2]) {
                o = o.bytes_per_sector(v);
            }
            if let Some(v) = opt::<u32>(t[3]) {
                o = o.total_sectors(v);
            }
            if let Some(v) = opt::<u32>(t[4]) {
                o = o.bytes_per_cluster(v);
            }
            match t[5] {
                "12" => o = o.fat_type(fatfs::FatType::Fat12),
                "16" => o = o.fat_type(fatfs::FatType::Fat16),
                "32" => o = o.fat_type(fatfs::FatType::Fat32),
                _ => {}
            }
            let mut d = crate::dev::Dev(st.clone());
            fatfs::format_volume(&mut d, o)?;
            st.borrow_mut().pos = 0;
            let fs = crate::Fs::new(crate::dev::Dev(st.clone()), c07_opts(true))?;
            {
                let mut f = fs.root_dir().create_file("f")?;
                f.write_all(b"x")?;
                f.flush()?;
            }
            fs.unmount()?;
            Ok(())
        });
        if let Err(e) = r {
            return e;
        }
        let d = st.borrow();
        let mut s = format!("ok {}", devlen);
        for pg in d.page_numbers() {
            let mut buf = vec![0u8; crate::dev::PAGE as usize];
            d.peek(pg * crate::dev::PAGE, &mut buf);
            if buf.iter().any(|b| *b != 0) {
                s.push_str(&format!(" {}:{}", pg * crate::dev::PAGE, hex(&buf)));
            }
        }
        self.tmpl = Some(d.clone_image());
        s
    }

    fn m(&mut self, t: &[&str]) -> String {
        let strict = t[1] != "0";
        let budget: u64 = t[2].parse().unwrap();
        let flags = t[3];
        let mut img = match &self.tmpl {
            Some(d) => d.clone_image(),
            None => return "bad no template".into(),
        };
        if t[4] != "-" {
            for c in t[4].split(',') {
                let mut it = c.split(':');
                let off: u64 = it.next().unwrap().parse().unwrap();
                img.poke(off, &unhex(it.next().unwrap()));
            }
        }
        if let Some(i) = flags.find("t=") {
            // device cut short: reads past this length deliver nothing
            let digits: String = flags[i + 2..].chars().take_while(|c| c.is_ascii_digit()).collect();
            img.len = digits.parse().unwrap();
        }
        let st = std::rc::Rc::new(std::cell::RefCell::new(img));
        let fs = match c07_guard(|| crate::Fs::new(crate::dev::Dev(st.clone()), c07_opts(strict))) {
            Ok(fs) => fs,
            Err(e) => {
                return if let Some(x) = e.strip_prefix("err:") {
                    format!("err {}", x)
                } else if let Some(x) = e.strip_prefix("panic:") {
                    format!("panic {}", x)
                } else {
                    e
                }
            }
        };
        let bits = match fs.fat_type() {
            fatfs::FatType::Fat12 => 12,
            fatfs::FatType::Fat16 => 16,
            fatfs::FatType::Fat32 => 32,
        };
        let cs = fs.cluster_size();
        let volid = fs.volume_id();
        st.borrow_mut().budget = Some(budget);
        let (dirty, ioerr) = match c07_guard(|| fs.read_status_flags()) {
            Ok(f) => ((f.dirty() as u8).to_string(), (f.io_error() as u8).to_string()),
            Err(_) => ("?".to_string(), "?".to_string()),
        };
        st.borrow_mut().budget = Some(budget);
        let calls0 = st.borrow().ncalls;
        let (total, free, scanned, sres) = match c07_guard(|| fs.stats()) {
            Ok(s) => {
                let scanned = st.borrow().ncalls != calls0;
                (
                    s.total_clusters().to_string(),
                    s.free_clusters().to_string(),
                    (scanned as u8).to_string(),
                    "ok".to_string(),
                )
            }
            Err(e) => ("?".into(), "?".into(), "?".into(), e),
        };
        let mut rm = "-".to_string();
        let mut fsw = "-".to_string();
        if flags.contains('r') && sres == "ok" {
            st.borrow_mut().budget = Some(budget);
            st.borrow_mut().log_writes = true;
            rm = match c07_guard(|| fs.root_dir().remove("f")) {
                Ok(()) => "ok".to_string(),
                Err(e) => e,
            };
            if !rm.starts_with("panic") && rm != "hang" {
                st.borrow_mut().budget = Some(budget);
                let un = c07_guard(|| fs.unmount());
                if un.is_ok() {
                    let d = st.borrow();
                    let mut lead: Option<u64> = None;
                    let mut fv: Option<u32> = None;
                    let mut nv: Option<u32> = None;
                    for e in d.events.iter() {
                        if let crate::dev::Event::Write { off, data, .. } = e {
                            if data.len() == 4 {
                                let v = u32::from_le_bytes([data[0], data[1], data[2], data[3]]);
                                if v == 0x4161_5252 {
                                    lead = Some(*off);
                                    fv = None;
                                    nv = None;
                                } else if let Some(x) = lead {
                                    if *off == x + 488 {
                                        fv = Some(v);
                                    } else if *off == x + 492 {
                                        nv = Some(v);
                                    }
                                }
                            }
                        }
                    }
                    if let (Some(x), Some(f), Some(n)) = (lead, fv, nv) {
                        fsw = format!("{}:{}:{}", x, f, n);
                    }
                } else {
                    rm = format!("{}+unmount:{}", rm, un.err().unwrap());
                }
            } else {
                c07_discard(&st, fs);
            }
        } else {
            c07_discard(&st, fs);
        }
        format!(
            "ok {} {} {} {} {} {} {} {} {} {} {}",
            bits, cs, total, free, scanned, dirty, ioerr, volid, sres, rm, fsw
        )
    }
}

// fmtsweep: "<lo> <hi> <bps|-> <bpc|-> <fat|-> <root_entries|-> <fats|->"
//   runs the boot-sector hook for EVERY total sector count in lo..=hi and prints one line per maximal run of
//   consecutive counts whose results agree in everything but the total-sector fields (which must encode the count):
//     "run <first> <last> ok <fatbits> <hex512 of first>" | "run <first> <last> err <Variant>" | "run <first> <last> panic <hexmsg>"
//   followed by "end <number of counts evaluated>".
fn sweep_options(t: &[&str]) -> fatfs::FormatVolumeOptions {
    let mut o = fatfs::FormatVolumeOptions::new();
    if let Some(v) = opt::<u16>(t[2]) {
        o = o.bytes_per_sector(v);
    }
    if let Some(v) = opt::<u32>(t[3]) {
        o = o.bytes_per_cluster(v);
    }
    match t[4] {
        "12" => o = o.fat_type(fatfs::FatType::Fat12),
        "16" => o = o.fat_type(fatfs::FatType::Fat16),
        "32" => o = o.fat_type(fatfs::FatType::Fat32),
        _ => {}
    }
    if let Some(v) = opt::<u16>(t[5]) {
        o = o.max_root_dir_entries(v);
    }
    if let Some(v) = opt::<u8>(t[6]) {
        o = o.fats(v);
    }
    o
}

#[derive(PartialEq, Clone)]
enum SweepKey {
    Ok(u32, [u8; 512]), // fat bits, sector with the total-sector fields cleared
    Err(String),
    Panic(String),
}

fn sweep_one(o: &fatfs::FormatVolumeOptions, ts: u32) -> (SweepKey, [u8; 512]) {
    let r = catch_unwind(AssertUnwindSafe(|| fatfs::verif_hooks::format_boot_sector_bytes(o, ts)));
    match r {
        Ok(Ok((b, bits))) => {
            let mut k = b;
            let ts16 = u32::from(u16::from_le_bytes([b[19], b[20]]));
            let ts32 = u32::from_le_bytes([b[32], b[33], b[34], b[35]]);
            // the declared size must be the requested one, in exactly one of the two fields
            let declared_ok = (ts16 == ts && ts32 == 0 && ts != 0) || (ts16 == 0 && ts32 == ts);
            if declared_ok {
                k[19] = 0;
                k[20] = 0;
                k[32] = 0;
                k[33] = 0;
                k[34] = 0;
                k[35] = 0;
                // which field is used is part of the key
                k[19] = u8::from(ts16 != 0);
            }
            (SweepKey::Ok(bits, k), b)
        }
        Ok(Err(fatfs::Error::InvalidInput)) => (SweepKey::Err("InvalidInput".to_string()), [0; 512]),
        Ok(Err(_)) => (SweepKey::Err("Other".to_string()), [0; 512]),
        Err(_) => {
            let msg = crate::PANIC_MSG.with(|m| m.borrow().clone());
            (SweepKey::Panic(hex(msg.as_bytes())), [0; 512])
        }
    }
}

fn fmtsweep(t: &[&str], out: &mut impl Write) {
    let lo: u64 = t[0].parse().unwrap();
    let hi: u64 = t[1].parse().unwrap();
    let o = sweep_options(t);
    let mut cur: Option<(SweepKey, [u8; 512], u64)> = None;
    let mut n: u64 = 0;
    let emit = |out: &mut dyn Write, k: &SweepKey, first_bytes: &[u8; 512], first: u64, last: u64| match k {
        SweepKey::Ok(bits, _) => writeln!(out, "run {} {} ok {} {}", first, last, bits, hex(first_bytes)).unwrap(),
        SweepKey::Err(v) => writeln!(out, "run {} {} err {}", first, last, v).unwrap(),
        SweepKey::Panic(m) => writeln!(out, "run {} {} panic {}", first, last, m).unwrap(),
    };
    let mut ts = lo;
    while ts <= hi {
        let (k, b) = sweep_one(&o, ts as u32);
        n += 1;
        match &cur {
            Some((ck, _, _)) if *ck == k => {}
            Some((ck, cb, first)) => {
                emit(out, ck, cb, *first, ts - 1);
                cur = Some((k, b, ts));
            }
            None => cur = Some((k, b, ts)),
        }
        ts += 1;
    }
    if let Some((ck, cb, first)) = &cur {
        emit(out, ck, cb, *first, hi);
    }
    writeln!(out, "end {}", n).unwrap();
}

// uppertable: no input; prints "<cp>: <upper cps>" (decimal) for every scalar value whose upper-case folding, as the
// library's char_to_uppercase computes it in this feature set (char::to_uppercase with `unicode`, to_ascii_uppercase
// without), differs from the character itself
fn uppertable(out: &mut impl Write) {
    for cp in 0..0x11_0000u32 {
        if let Some(c) = char::from_u32(cp) {
            #[cfg(feature = "unicode")]
            let u: Vec<char> = c.to_uppercase().collect();
            #[cfg(not(feature = "unicode"))]
            let u: Vec<char> = vec![c.to_ascii_uppercase()];
            if u.len() != 1 || u[0] != c {
                let l: Vec<String> = u.iter().map(|x| format!("{}", *x as u32)).collect();
                writeln!(out, "{}: {}", cp, l.join(" ")).unwrap();
            }
        }
    }
}

pub fn main(args: &[String]) {
    let stdin = std::io::stdin();
    let stdout = std::io::stdout();
    let mut out = std::io::BufWriter::new(stdout.lock());
    let mode = args[0].as_str();
    if mode == "uppertable" {
        // "<cp> <u1> [<u2> <u3>]" for every scalar value whose upper-casing (as used by name matching) is not itself
        for cp in 0u32..=0x10FFFF {
            if let Some(c) = char::from_u32(cp) {
                #[cfg(feature = "unicode")]
                let up: Vec<u32> = c.to_uppercase().map(|x| x as u32).collect();
                #[cfg(not(feature = "unicode"))]
                let up: Vec<u32> = vec![c.to_ascii_uppercase() as u32];
                if up.len() != 1 || up[0] != cp {
                    let s: Vec<String> = up.iter().map(|x| x.to_string()).collect();
                    writeln!(out, "{} {}", cp, s.join(" ")).unwrap();
                }
            }
        }
        out.flush().unwrap();
        return;
    }
    if mode == "uppertable_colon" {
        uppertable(&mut out);
        out.flush().unwrap();
        return;
    }
    let mut c07 = C07 { tmpl: None };
    for line in stdin.lock().lines() {
        let line = line.unwrap();
        let t: Vec<&str> = line.trim().split(' ').collect();
        if t.is_empty() || t[0].is_empty() {
            continue;
        }
        if mode == "fmtsweep" {
            fmtsweep(&t, &mut out);
            continue;
        }
        let r = match mode {
            "fmtbs" => fmtbs_line(&t),
            "upper" => upper_line(&t),
            "c07" => match t[0] {
                "tmpl" => c07.tmpl(&t),
                "m" => c07.m(&t),
                _ => "bad".to_string(),
            },
            _ => "bad mode".to_string(),
        };
        writeln!(out, "{}", r).unwrap();
    }
    out.flush().unwrap();
}
