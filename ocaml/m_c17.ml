(* model runner for C17 / C19 (directory decoding, long-name builder variants)
   mode c17:  "<vec|fixed|spec> <hex of a directory region, 32 bytes per slot>"
        -> entries separated by '|', each
           "<lfn u16 hex|-> <short name hex> <attr> <size> <is_dir> <created> <modified> <accessed> <file_name utf8 hex> <short_file_name utf8 hex> <begin> <end>"
           (the first ten fields are the executor's `e` line), "-" for an empty directory, "panic"/"fuel" otherwise.
           vec/fixed = Model.Lfn.read_dir with that buffer variant; spec = Spec.LfnSpec.spec_dir.
   mode c17u: "<vec|fixed> <u16 hex>" -> LfnBuffer::from_ucs2_units then as_ucs2_units: "ok <len> <u16 hex>" | "panic"
   mode c17e: "<ascii|table> <u16 hex lfn|-> <short bytes hex> <name utf8 hex>" -> "1"/"0" (eq_name; table = upper from lines "U <cp> <cp>*" given before) *)
open Conv

let rec slots_of (l : BinNums.coq_N list) : BinNums.coq_N list list =
  match l with
  | [] -> []
  | _ ->
    let rec take n l acc = if n = 0 then (Stdlib.List.rev acc, l) else
        (match l with [] -> (Stdlib.List.rev acc, []) | x :: r -> take (n - 1) r (x :: acc)) in
    let (a, r) = take 32 l [] in
    a :: slots_of r

let fmt_dt (d : Time.datetime) =
  Printf.sprintf "%s-%s-%s/%s:%s:%s.%s" (string_of_n d.Time.dt_date.Time.year) (string_of_n d.Time.dt_date.Time.month)
    (string_of_n d.Time.dt_date.Time.day) (string_of_n d.Time.dt_time.Time.hour) (string_of_n d.Time.dt_time.Time.min)
    (string_of_n d.Time.dt_time.Time.sec) (string_of_n d.Time.dt_time.Time.millis)
let fmt_d (d : Time.date) =
  Printf.sprintf "%s-%s-%s" (string_of_n d.Time.year) (string_of_n d.Time.month) (string_of_n d.Time.day)

let fmt_view (e : Lfn.entry_view) : string =
  Printf.sprintf "%s %s %s %s %d %s %s %s %s %s %s %s"
    (hex16_of_words e.Lfn.ev_lfn) (hex_of_bytes e.Lfn.ev_short) (string_of_n e.Lfn.ev_attrs) (string_of_n e.Lfn.ev_size)
    (if e.Lfn.ev_is_dir then 1 else 0) (fmt_dt e.Lfn.ev_created) (fmt_dt e.Lfn.ev_modified) (fmt_d e.Lfn.ev_accessed)
    (hex_of_bytes (Str.utf8_encode e.Lfn.ev_file_name)) (hex_of_bytes (Str.utf8_encode e.Lfn.ev_short_file_name))
    (string_of_n e.Lfn.ev_begin) (string_of_n e.Lfn.ev_end)

let fmt_views (l : Lfn.entry_view list) : string =
  if l = [] then "-" else String.concat "|" (Stdlib.List.map fmt_view l)

let variant_of s = if s = "fixed" then Lfn.FixedBuf else Lfn.VecBuf

let upper_tbl : (int, BinNums.coq_N list) Hashtbl.t = Hashtbl.create 2048

let line (t : string list) : string =
  match t with
  | [which; hx] ->
    let slots = slots_of (bytes_of_hex hx) in
    if which = "spec" then fmt_views (LfnSpec.spec_dir Lfn.oem_lossy true slots)
    else
      (match Lfn.read_dir (variant_of which) Lfn.oem_lossy true slots with
       | Base.Ok l -> fmt_views l
       | Base.Panic -> "panic"
       | Base.OutOfFuel -> "fuel"
       | Base.Err e -> "err " ^ err_name e)
  | _ -> "bad"

let uline (t : string list) : string =
  match t with
  | [which; hx] ->
    let v = variant_of which in
    (match Lfn.buf_from_units v (words_of_hex16 hx) with
     | Base.Ok b ->
       (match Lfn.buf_as_units v b with
        | Base.Ok us -> Printf.sprintf "ok %s %s" (string_of_n (Lfn.buf_len v b)) (hex16_of_words us)
        | _ -> "panic")
     | _ -> "panic")
  | _ -> "bad"

let eline (t : string list) : string =
  match t with
  | "U" :: c :: ups -> Hashtbl.replace upper_tbl (int_of_string c) (Stdlib.List.map n_of_string ups); "ok"
  | [which; lfn; short; name] ->
    let upper =
      if which = "ascii" then Lfn.upper_ascii
      else (fun c -> match Hashtbl.find_opt upper_tbl (int_of_n c) with Some l -> l | None -> [c]) in
    let ev = Lfn.mk_view Lfn.oem_lossy
        { Slot.se_name = []; Slot.se_attrs = BinNums.N0; Slot.se_reserved_0 = BinNums.N0; Slot.se_create_time_0 = BinNums.N0;
          Slot.se_create_time_1 = BinNums.N0; Slot.se_create_date = BinNums.N0; Slot.se_access_date = BinNums.N0;
          Slot.se_first_cluster_hi = BinNums.N0; Slot.se_modify_time = BinNums.N0; Slot.se_modify_date = BinNums.N0;
          Slot.se_first_cluster_lo = BinNums.N0; Slot.se_size = BinNums.N0 } (words_of_hex16 lfn) BinNums.N0 BinNums.N0 in
    let ev = { ev with Lfn.ev_short = bytes_of_hex short } in
    if Lfn.eq_name upper Lfn.oem_lossy ev (Str.utf8_decode (bytes_of_hex name)) then "1" else "0"
  | _ -> "bad"
