(* model runner for the directory slot layer (mode "cdir"): one input line -> one output line.
   A directory region travels as hex (a multiple of 32 bytes; "-" = empty); names as hex of UTF-8.
   <kind> = "root" (fixed root: <region> must be the WHOLE root region, its size is the capacity find_free_entries tests -
   13fd5fe) | "chain:<cluster_slots>:<free clusters>".
   "upper <file>"                                        load the to_uppercase table (shared with mode c15) -> "ok <n>"
   "create <kind> <fat32 0|1> <region> <name> <attrs> <cluster|-> <y> <m> <d> <h> <mi> <s> <ms> <want_dir 0|1>"
        create_entry (existence check, alias, stamps, write_entry)
        -> "ok <first> <last> <region>" | "exists <region>" | "err <Variant> <region>" | "panic <region>" | "fuel <region>"
   "write <kind> <region> <name> <sfn11> <attrs> <cluster hi> <cluster lo> <size> <ct0> <ct1> <cd> <ad> <mt> <md>"
        write_entry with the given short entry -> as above
   "delete <region> <first> <last>"                      mark_deleted -> "ok <region>"
   "remove <region> <name> <child_nonempty 0|1>"         remove_entry -> "ok <region>" | "err <Variant> <region>"
   "rename <kind> <region> <src> <dst>"                  rename_in_dir (write the new entry, then delete the source: d9f4de8)
        -> "ok <path> <region>" | "err <Variant> <region>"
        <path> (coverage only; the model's own find_entry / check_for_existence / has_exact_name): "fresh" (destination name
        unused), "self-exact" (destination resolves to the source entry in its stored spelling: no-op), "self-respell"
        (to the source entry under another spelling / its alias: rewritten with the same short name)
   "scan <fat32> <region>"                               Spec.Abs.dir_scan -> "<entries> <labels> <issues>: <sfn11>,<lfn units|->;..." *)
open Conv

let slots_of_hex (h : string) : BinNums.coq_N list list =
  let bs = bytes_of_hex h in
  let rec go l acc cur k =
    match l with
    | [] -> Stdlib.List.rev (if cur = [] then acc else Stdlib.List.rev cur :: acc)
    | b :: r -> if k = 31 then go r (Stdlib.List.rev (b :: cur) :: acc) [] 0 else go r acc (b :: cur) (k + 1)
  in
  go bs [] [] 0

let hex_of_slots (ss : BinNums.coq_N list list) : string = hex_of_bytes (Stdlib.List.concat ss)

let kind_of (s : string) : DirSlots.dkind * Datatypes.nat =
  match String.split_on_char ':' s with
  | ["chain"; cs; free] -> (DirSlots.Chained (nat_of_int (int_of_string cs)), nat_of_int (int_of_string free))
  | _ -> (DirSlots.FixedRoot, Datatypes.O)

let name_of_hex (h : string) : BinNums.coq_N list = Str.utf8_decode (bytes_of_hex h)
let upper c = M_c15.upper_table c
let oem = Name.oem_decode_lossy

let out (tag : 'a -> string) (r : 'a Base.res) (ss : BinNums.coq_N list list) : string =
  (match r with
   | Base.Ok a -> tag a
   | Base.Err e -> "err " ^ err_name e
   | Base.Panic -> "panic"
   | Base.OutOfFuel -> "fuel") ^ " " ^ hex_of_slots ss

let range_tag (p, q) = Printf.sprintf "ok %s %s" (string_of_n p) (string_of_n q)

let line (t : string list) : string =
  match t with
  | ["upper"; f] -> Printf.sprintf "ok %d" (M_c15.load_table f)
  | ["create"; kind; f32; region; name; attrs; cluster; y; m; d; h; mi; s; ms; wd] ->
    let (k, free) = kind_of kind in
    let cl = if cluster = "-" then None else Some (n_of_string cluster) in
    let (r, ss) = DirSlots.create_entry upper oem (f32 = "1") k free (slots_of_hex region) (name_of_hex name)
        (n_of_string attrs) cl (M_c18.mkdt y m d h mi s ms) (wd = "1") in
    out (fun o -> match o with None -> "exists" | Some rg -> range_tag rg) r ss
  | ["write"; kind; region; name; sfn; attrs; hi; lo; size; ct0; ct1; cd; ad; mt; md] ->
    let (k, free) = kind_of kind in
    let e = { Slot.se_name = bytes_of_hex sfn; Slot.se_attrs = n_of_string attrs; Slot.se_reserved_0 = BinNums.N0;
              Slot.se_create_time_0 = n_of_string ct0; Slot.se_create_time_1 = n_of_string ct1;
              Slot.se_create_date = n_of_string cd; Slot.se_access_date = n_of_string ad;
              Slot.se_first_cluster_hi = n_of_string hi; Slot.se_modify_time = n_of_string mt;
              Slot.se_modify_date = n_of_string md; Slot.se_first_cluster_lo = n_of_string lo; Slot.se_size = n_of_string size } in
    let (r, ss) = DirSlots.write_entry k free (slots_of_hex region) (name_of_hex name) e in
    out range_tag r ss
  | ["delete"; region; first; last] ->
    "ok " ^ hex_of_slots (DirSlots.mark_deleted (slots_of_hex region) (n_of_string first) (n_of_string last))
  | ["remove"; region; name; nonempty] ->
    let (r, ss) = DirSlots.remove_entry upper oem (slots_of_hex region) (name_of_hex name) (nonempty = "1") in
    out (fun _ -> "ok") r ss
  | ["rename"; kind; region; src; dst] ->
    let (k, free) = kind_of kind in
    let ss0 = slots_of_hex region in
    let (r, ss) = DirSlots.rename_in_dir upper oem k free ss0 (name_of_hex src) (name_of_hex dst) in
    let path =
      match DirSlots.find_entry upper oem ss0 (name_of_hex src) None,
            DirSlots.check_for_existence upper oem ss0 (name_of_hex dst) None with
      | Base.Ok e, Base.Ok (DirSlots.Exists d) ->
        if e.Lfn.ev_end <> d.Lfn.ev_end then "other"
        else if DirSlots.has_exact_name e (name_of_hex dst) then "self-exact" else "self-respell"
      | Base.Ok _, Base.Ok (DirSlots.Fresh _) -> "fresh"
      | _ -> "-" in
    out (fun _ -> "ok " ^ path) r ss
  | ["scan"; f32; region] ->
    let ((es, ls), iss) = Abs.dir_scan (slots_of_hex region) BinNums.N0 [] (f32 = "1") in
    Printf.sprintf "%d %d %d: %s" (Stdlib.List.length es) (Stdlib.List.length ls) (Stdlib.List.length iss)
      (String.concat ";" (Stdlib.List.map (fun e -> hex_of_bytes e.Abs.e_sfn ^ "," ^ hex16_of_words e.Abs.e_lfn) es))
  | _ -> "bad"
