(* model runner mode "cfsinfo": the FS-information sector and the FAT32 status byte inside the image model
   (coq/Model/VolFsInfo.v: vol32_mount, v32_step = stats / alloc / free / file calls with the status mark, vol32_unmount and the
   list of device writes it issues) next to the real library (tools/props/cfsinfo_corr.py).
   Two images: [mim] = the model's, advanced only by the extracted functions (plus, for calls of layers that are not modelled on
   FAT32 - create_file / flush / drop write directory slots of the root chain - the library's own writes INTO THE DATA AREA);
   [dim] = the device's, advanced only by the library's logged device writes.  One line in, one line out:

   "img <fill> <off> <hex> ..."   both images := the dump; geometry = Abs.parse_geom   ("imgc": with the decoder's free count)
        -> "ok <bits> <cluster size> <clusters> <Abs.count_free|-> <fsi_off> <vol32b 0|1> <fat0> <fat bytes> <fats> <data0> <bps>"
   "poke <off> <hex>"             both images                                     -> "ok"
   "mount <strict 0|1>"           vol32_mount on the model image                  -> "ok <free|-> <next|-> <mount byte>" | "err <Variant>" | ..
   "open <h> <first> <size>"      handle h := an open file with that first cluster and size (an existing file)  -> "ok"
   "stats | <off>:<hex> ..."      v32_step CStats      -> "ok <cs> <total> <free> | <latch> | <cmp>"
                                  ("statsd": "ok <cs> <total> <free> dev <Abs.count_free of the DEVICE now> | ...")
   "fop <h> <op ...> | ..."       v32_step (CFile op) on handle h (fresh the first time)
                                  -> "<result> | <offset> <size|-> <first|-> | <latch> | <cmp>"
   "ext <marks 0|1> | ..."        a call of an un-modelled layer: the library's data-area writes are copied to the model image,
                                  then VolStatus.marked (the status write is the MODEL's)       -> "ok | <latch> | <cmp>"
   "remove <h> | ..."             vol32_free_chain (first cluster of handle h), the directory writes as in ext, marked
                                  -> "ok|err .. | <latch> | <cmp>"
   "unmount | ..."                vol32_unmount; the model's write list (vol32_unmount_writes) is compared with the library's
        -> "ok | <Abs.count_free of the DEVICE, "-" when its sector claims no count> <free word> <next word> <status byte> (all read from the DEVICE) | <latch> | <cmp>"
   <latch> = "<free|-> <next|-> <dirty 0|1> <status byte of the model image>"
   <cmp>   = "same <bytes compared>" | "DIFF <what>": device image vs model image on the boot sector, the whole logical FS-info
             sector, every byte range the library wrote, the table entries (every copy) of the clusters involved and the cluster
             the model wrote data into; at unmount also every reserved sector. *)
open Conv

let g : Abs.geom ref = ref (Abs.parse_geom (Image.img_empty N0))
let mim = ref (Image.img_empty N0)
let dim = ref (Image.img_empty N0)
let fi : Table.fsinfo ref = ref { Table.fi_free = None; Table.fi_next = None; Table.fi_dirty = false }
let st : Flags.fstat ref = ref (Flags.st_mount N0)
let handles : (int, FileM.fhandle) Hashtbl.t = Hashtbl.create 8

let fresh_handle () : FileM.fhandle = VolFsInfo.fresh_handle
let opt_s (o : BinNums.coq_N option) = match o with Some n -> string_of_n n | None -> "-"
let z_of_string (s : string) : BinNums.coq_Z =
  if String.length s > 0 && s.[0] = '-' then FileM.z_of_sign true (n_of_string (String.sub s 1 (String.length s - 1)))
  else FileM.z_of_sign false (n_of_string s)

let latch_s () : string =
  Printf.sprintf "%s %s %d %s" (opt_s !fi.Table.fi_free) (opt_s !fi.Table.fi_next) (if !fi.Table.fi_dirty then 1 else 0)
    (string_of_n (Image.img_get !mim (Abs.g_status_off !g)))

let geom_ints () =
  let gg = !g in
  let fat0 = int_of_n (Abs.g_fat_off gg N0) in
  let fatb = int_of_n (Abs.g_fat_bytes gg) in
  let nf = int_of_n gg.Abs.g_fats in
  let data0 = int_of_n (Abs.g_cluster_off gg (n_of_int 2)) in
  let cs = int_of_n (Abs.g_cluster_size gg) in
  let total = int_of_n (Abs.g_clusters gg) in
  let bps = int_of_n gg.Abs.g_bps in
  let fsi = int_of_n (VolFsInfo.fsi_off gg) in
  (fat0, fatb, nf, data0, cs, total, bps, fsi)

let chain_of (im : Image.image) (h : FileM.fhandle) : int list =
  match h.FileM.h_first with
  | None -> []
  | Some f ->
    (match Abs.chain_from !g im f (Abs.chain_fuel !g) with
     | Some l -> Stdlib.List.map int_of_n l
     | None -> [int_of_n f])

let split_bar (rest : string list) : string list * string list =
  let rec split acc = function
    | "|" :: r -> (Stdlib.List.rev acc, r)
    | x :: r -> split (x :: acc) r
    | [] -> (Stdlib.List.rev acc, []) in
  split [] rest

let parse_writes (wr : string list) : (int * string) list =
  Stdlib.List.filter_map (fun s ->
      match String.index_opt s ':' with
      | Some i -> Some (int_of_string (String.sub s 0 i), String.sub s (i + 1) (String.length s - i - 1))
      | None -> None) wr

let apply_dev (writes : (int * string) list) : unit =
  Stdlib.List.iter (fun (o, hx) -> dim := Image.img_write !dim (n_of_int o) (bytes_of_hex hx)) writes

(* ---- comparison *)
let problem : string option ref = ref None
let compared = ref 0
let check (what : string) (off : int) (len : int) : unit =
  if !problem = None then begin
    compared := !compared + len;
    let rec go i = if i >= len then ()
      else if Image.img_get !mim (n_of_int (off + i)) <> Image.img_get !dim (n_of_int (off + i)) then
        problem := Some (Printf.sprintf "DIFF %s at %d: model %s device %s" what (off + i)
                           (string_of_n (Image.img_get !mim (n_of_int (off + i)))) (string_of_n (Image.img_get !dim (n_of_int (off + i)))))
      else go (i + 1) in
    go 0
  end

let entry_span (c : int) : int * int = (4 * c, 4)

let compare_after (writes : (int * string) list) (clusters : int list) (datacluster : int option) (all_reserved : bool) : string =
  let (fat0, fatb, nf, data0, cs, _, bps, fsi) = geom_ints () in
  problem := None; compared := 0;
  check "boot sector" 0 512;
  check "FS-info sector" fsi bps;
  if all_reserved then check "reserved sectors" 0 fat0;
  Stdlib.List.iter (fun (o, hx) -> check "range written by the library" o (String.length hx / 2)) writes;
  Stdlib.List.iter (fun c ->
      let (eo, el) = entry_span c in
      for k = 0 to nf - 1 do check (Printf.sprintf "table entry %d copy %d" c k) (fat0 + k * fatb + eo) el done) clusters;
  (match datacluster with Some c -> check (Printf.sprintf "cluster %d" c) (data0 + (c - 2) * cs) cs | None -> ());
  match !problem with Some p -> p | None -> Printf.sprintf "same %d" !compared

let res_s (r : FileM.fresult) : string =
  match r with
  | FileM.RBytes bs -> "ok " ^ hex_of_bytes bs
  | FileM.RCount k -> "ok " ^ string_of_n k
  | FileM.RPos p -> "ok " ^ string_of_n p
  | FileM.RDone -> "ok"
  | FileM.RFail e -> "err " ^ err_name e
  | FileM.RPanic -> "panic"
  | FileM.RFuel -> "fuel"

let state () : VolFsInfo.v32state =
  { VolFsInfo.v_im = !mim; VolFsInfo.v_fi = !fi; VolFsInfo.v_h = fresh_handle (); VolFsInfo.v_s = !st }
let set_state (s : VolFsInfo.v32state) : unit =
  mim := s.VolFsInfo.v_im; fi := s.VolFsInfo.v_fi; st := s.VolFsInfo.v_s

(* copy the library's writes into the data area to the model image (directory slots of layers that are not modelled) *)
let copy_data_writes (writes : (int * string) list) : unit =
  let (_, _, _, data0, _, _, _, _) = geom_ints () in
  Stdlib.List.iter (fun (o, hx) -> if o >= data0 then mim := Image.img_write !mim (n_of_int o) (bytes_of_hex hx)) writes

let line (t : string list) : string =
  match t with
  | ("img" | "imgc" as cmd) :: fill :: rest ->
    let im0 = ref (Image.img_empty (n_of_string fill)) in
    let rec go = function
      | off :: hx :: r -> im0 := Image.img_write !im0 (n_of_string off) (bytes_of_hex hx); go r
      | _ -> () in
    go rest;
    mim := !im0; dim := !im0; g := Abs.parse_geom !im0; Hashtbl.reset handles;
    let (fat0, fatb, nf, data0, cs, total, bps, fsi) = geom_ints () in
    Printf.sprintf "ok %s %d %d %s %d %d %d %d %d %d %d" (string_of_n (Abs.g_bits !g)) cs total
      (if cmd = "imgc" then string_of_n (Abs.count_free !g !im0) else "-") fsi (if VolFsInfo.vol32b !g then 1 else 0) fat0 fatb nf data0 bps
  | ["poke"; off; hx] ->
    mim := Image.img_write !mim (n_of_string off) (bytes_of_hex hx);
    dim := Image.img_write !dim (n_of_string off) (bytes_of_hex hx);
    "ok"
  | ["mount"; strict] ->
    Hashtbl.reset handles;
    g := Abs.parse_geom !mim;
    (match VolFsInfo.vol32_mount (strict = "1") !mim with
     | Base.Ok (f, s) -> fi := f; st := s;
       Printf.sprintf "ok %s %s %s" (opt_s f.Table.fi_free) (opt_s f.Table.fi_next) (string_of_n s.Flags.mount_byte)
     | Base.Err e -> "err " ^ err_name e
     | Base.Panic -> "panic"
     | Base.OutOfFuel -> "fuel")
  | ["open"; hs; first; size] ->
    let f = n_of_string first in
    Hashtbl.replace handles (int_of_string hs)
      (FileM.file_new (Some f) (Some { FileM.ed_first = Some f; FileM.ed_size = Some (n_of_string size); FileM.ed_dirty = false }));
    "ok"
  | ("stats" | "statsd" as cmd) :: rest ->
    let (_, wr) = split_bar rest in
    let writes = parse_writes wr in
    apply_dev writes;
    let (s', r) = VolFsInfo.v32_step !g (state ()) VolFsInfo.CStats in
    set_state s';
    let rs = match r with
      | VolFsInfo.RStats (Base.Ok ((a, b), c)) -> Printf.sprintf "ok %s %s %s" (string_of_n a) (string_of_n b) (string_of_n c)
      | VolFsInfo.RStats (Base.Err e) -> "err " ^ err_name e
      | VolFsInfo.RStats Base.Panic -> "panic"
      | _ -> "fuel" in
    (* "statsd": also the decoder's count of free entries on the DEVICE image at this moment *)
    let rs = if cmd = "statsd" then rs ^ " dev " ^ string_of_n (Abs.count_free !g !dim) else rs in
    Printf.sprintf "%s | %s | %s" rs (latch_s ()) (compare_after writes [] None false)
  | "fop" :: hs :: rest ->
    let (opt, wr) = split_bar rest in
    let writes = parse_writes wr in
    apply_dev writes;
    let hi = int_of_string hs in
    let h0 = match Hashtbl.find_opt handles hi with Some x -> x | None -> fresh_handle () in
    let op = match opt with
      | ["write"; hx] -> Some (FileM.FWrite (bytes_of_hex hx))
      | ["read"; n] -> Some (FileM.FRead (n_of_string n))
      | ["seek"; "start"; off] -> Some (FileM.FSeek (FileM.FromStart (n_of_string off)))
      | ["seek"; "end"; off] -> Some (FileM.FSeek (FileM.FromEnd (z_of_string off)))
      | ["seek"; "cur"; off] -> Some (FileM.FSeek (FileM.FromCurrent (z_of_string off)))
      | ["truncate"] -> Some FileM.FTruncate
      | _ -> None in
    (match op with
     | None -> "bad"
     | Some op ->
       let old_chain = chain_of !mim h0 in
       let s0 = { (state ()) with VolFsInfo.v_h = h0 } in
       let (s', r) = VolFsInfo.v32_step !g s0 (VolFsInfo.CFile op) in
       set_state s';
       let h' = s'.VolFsInfo.v_h in
       Hashtbl.replace handles hi h';
       let new_chain = chain_of !mim h' in
       let fr = match r with VolFsInfo.RFile x -> x | _ -> FileM.RFuel in
       let dc = match VolFile.step_write (Abs.g_cluster_size !g) h0 h' op fr with
         | Some ((cc, _), _) -> Some (int_of_n cc) | None -> None in
       Printf.sprintf "%s | %s %s %s | %s | %s" (res_s fr) (string_of_n h'.FileM.h_off) (opt_s (FileM.h_size h')) (opt_s h'.FileM.h_first)
         (latch_s ()) (compare_after writes (old_chain @ new_chain) dc false))
  | "ext" :: marks :: rest ->
    let (_, wr) = split_bar rest in
    let writes = parse_writes wr in
    apply_dev writes;
    copy_data_writes writes;
    let (im2, s2) = VolStatus.marked !g (marks = "1") !mim !st in
    mim := im2; st := s2;
    Printf.sprintf "ok | %s | %s" (latch_s ()) (compare_after writes [] None false)
  | "remove" :: hs :: rest ->
    let (_, wr) = split_bar rest in
    let writes = parse_writes wr in
    apply_dev writes;
    let hi = int_of_string hs in
    let h0 = match Hashtbl.find_opt handles hi with Some x -> x | None -> fresh_handle () in
    let old_chain = chain_of !mim h0 in
    let first = match h0.FileM.h_first with Some f -> f | None -> N0 in
    let (((r, im1), fi1), s1) = VolFsInfo.vol32_free_chain !g !mim !fi !st first in
    mim := im1; fi := fi1; st := s1;
    copy_data_writes writes;
    let (im2, s2) = VolStatus.marked !g true !mim !st in
    mim := im2; st := s2;
    Hashtbl.remove handles hi;
    let rs = match r with Base.Ok _ -> "ok" | Base.Err e -> "err " ^ err_name e | Base.Panic -> "panic" | Base.OutOfFuel -> "fuel" in
    Printf.sprintf "%s | %s | %s" rs (latch_s ()) (compare_after writes old_chain None false)
  | "unmount" :: rest ->
    let (_, wr) = split_bar rest in
    let writes = parse_writes wr in
    apply_dev writes;
    let mw = VolFsInfo.vol32_unmount_writes !g !fi !st in
    let mws = Stdlib.List.map (fun (o, bs) -> (int_of_n o, hex_of_bytes bs)) mw in
    let ((im2, fi2), s2) = VolFsInfo.vol32_unmount !g !mim !fi !st in
    mim := im2; fi := fi2; st := s2;
    let cmp = compare_after writes [] None true in
    (* the library serialises the sector field by field (7 write_all calls): adjacent writes are one write of the model *)
    let rec coalesce = function
      | (o1, h1) :: (o2, h2) :: r when o2 = o1 + String.length h1 / 2 -> coalesce ((o1, h1 ^ h2) :: r)
      | x :: r -> x :: coalesce r
      | [] -> [] in
    let cmp = if cmp.[0] = 's' && mws <> coalesce writes then
        Printf.sprintf "DIFF write list of unmount: model [%s] library [%s]"
          (String.concat " " (Stdlib.List.map (fun (o, hx) -> Printf.sprintf "%d:%d bytes" o (String.length hx / 2)) mws))
          (String.concat " " (Stdlib.List.map (fun (o, hx) -> Printf.sprintf "%d:%d bytes" o (String.length hx / 2)) writes))
      else cmp in
    (* the decoder's count of the DEVICE: needed only when the device's sector claims a count *)
    let devfree = VolFsInfo.fsi_free_word !g !dim in
    Printf.sprintf "ok | %s %s %s %s | %s | %s" (if devfree = VolFsInfo.coq_UNKNOWN32 then "-" else string_of_n (Abs.count_free !g !dim))
      (string_of_n devfree) (string_of_n (VolFsInfo.fsi_next_word !g !dim))
      (string_of_n (Image.img_get !dim (Abs.g_status_off !g))) (latch_s ()) cmp
  | _ -> "bad"
