(* model runner for C06
   mode c06 : same input line as the executor's bulk mode `fmtbs`
       "<bps|-> <total_sectors> <bpc|-> <12|16|32|-> <root_entries|-> <fats|-> <media|-> <volid|-> <label hex11|->"
       -> "ok <fatbits> <hex512>" | "err <Variant>" | "panic" | "outoffuel"
   mode c06v: "<hex512> <total_sectors> <chosen bits> <requested 12|16|32|->"
       -> "valid" | "violated <clause> <clause> ..."       (extracted Spec.FormatSpec.boot_violations on the
          deserialized sector; clause numbers as in FormatSpec.fmt_clauses, 12 = boot frame)
   mode c06g: "<hex512>" -> "<bps> <spc> <reserved> <fats> <root_entries> <total> <spf> <clusters> <meta>"  (decoded geometry) *)
open Conv

let ft_of_string = function
  | "12" -> Some Format.Fat12 | "16" -> Some Format.Fat16 | "32" -> Some Format.Fat32 | _ -> None

let opt f s = if s = "-" then None else Some (f s)

let options_of (t : string list) : (Format.fmt_options * BinNums.coq_N) option =
  match t with
  | [bps; ts; bpc; fat; root; fats; media; volid; label] ->
    let d = Format.default_options in
    let lab = if label = "-" then None else (let b = bytes_of_hex label in if Stdlib.List.length b = 11 then Some b else None) in
    Some ({ Format.o_bytes_per_sector = (match opt n_of_string bps with Some v -> v | None -> d.Format.o_bytes_per_sector);
            Format.o_total_sectors = None;
            Format.o_bytes_per_cluster = opt n_of_string bpc;
            Format.o_fat_type = ft_of_string fat;
            Format.o_max_root_dir_entries = (match opt n_of_string root with Some v -> v | None -> d.Format.o_max_root_dir_entries);
            Format.o_fats = (match opt n_of_string fats with Some v -> v | None -> d.Format.o_fats);
            Format.o_media = (match opt n_of_string media with Some v -> v | None -> d.Format.o_media);
            Format.o_sectors_per_track = d.Format.o_sectors_per_track;
            Format.o_heads = d.Format.o_heads;
            Format.o_drive_num = None;
            Format.o_volume_id = (match opt n_of_string volid with Some v -> v | None -> d.Format.o_volume_id);
            Format.o_volume_label = lab }, n_of_string ts)
  | _ -> None

let line (t : string list) : string =
  match options_of t with
  | None -> "bad"
  | Some (o, ts) ->
    (match Format.format_boot_sector_bytes o ts with
     | Base.Ok (bytes, bits) -> Printf.sprintf "ok %s %s" (string_of_n bits) (hex_of_bytes bytes)
     | Base.Err e -> "err " ^ err_name e
     | Base.Panic -> "panic"
     | Base.OutOfFuel -> "outoffuel")

let vline (t : string list) : string =
  match t with
  | [hx; ts; chosen; req] ->
    (match ft_of_string chosen with
     | None -> "bad"
     | Some ch ->
       let s = Format.fmt_deserialize_boot (bytes_of_hex hx) in
       (match FormatSpec.boot_violations s (n_of_string ts) ch (ft_of_string req) with
        | [] -> "valid"
        | l -> "violated " ^ String.concat " " (Stdlib.List.map string_of_n l)))
  | _ -> "bad"

let gline (t : string list) : string =
  match t with
  | [hx] ->
    let b = (Format.fmt_deserialize_boot (bytes_of_hex hx)).Format.fbs_bpb in
    String.concat " " (Stdlib.List.map string_of_n
      [ b.Format.fb_bytes_per_sector; b.Format.fb_sectors_per_cluster; b.Format.fb_reserved_sectors; b.Format.fb_fats;
        b.Format.fb_root_entries; FormatSpec.sp_total_sectors b; FormatSpec.sp_fat_size b; FormatSpec.sp_clusters b;
        FormatSpec.sp_meta_sectors b ])
  | _ -> "bad"
