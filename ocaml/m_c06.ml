(* model runner for C06
   mode c06 : same input line as the executor's bulk mode `fmtbs`
       "<bps|-> <total_sectors> <bpc|-> <12|16|32|-> <root_entries|-> <fats|-> <media|-> <volid|-> <label hex11|->"
       -> "ok <fatbits> <hex512>" | "err <Variant>" | "panic" | "outoffuel"
   mode c06v: "<hex512> <total_sectors> <chosen bits> <requested 12|16|32|->"
       -> "valid" | "violated <clause> <clause> ..."       (extracted Spec.FormatSpec.boot_violations on the
          deserialized sector; clause numbers as in FormatSpec.fmt_clauses, 12 = boot frame)
   mode c06g: "<hex512>" -> "<bps> <spc> <reserved> <fats> <root_entries> <total> <spf> <clusters> <meta>"  (decoded geometry)
   mode c06i: the c06 request followed by "<fill byte> <off:len:byte,...|->": Model/FormatImage.v format_image on the device
       image `fill` + the listed fillranges
       -> "ok <fatbits> <page off>:<md5> ..." (every 4096-byte page of the resulting image holding a byte other than the fill
          byte, ascending; same notion as the executor's `pages`) | "err <Variant> <pages...>" (pages of the untouched
          image) | "panic" | "outoffuel"
   mode c06ix: the c06i line followed by "<page off>" -> hex of that page of the resulting image (for locating a difference) *)
open Conv

let ft_of_string = function
  | "12" -> Some Format.Fat12 | "16" -> Some Format.Fat16 | "32" -> Some Format.Fat32 | _ -> None

let opt f s = if s = "-" then None else Some (f s)

let options_of (t : string list) : (Format.fmt_options * BinNums.coq_N) option =
  match t with
  | [bps; ts; bpc; fat; root; fats; media; volid; label] ->
    let d = Format.default_options in
    let lab = if label = "-" then None else (let b = bytes_of_hex label in if Stdlib.List.length b = 11 then Some b else None) in
    Some ({ Format.o_bytes_per_sector = (match opt n_of_string bps with Some v -> v | None -> d.Format.o_bytes_per_sector);
            Format.o_total_sectors = None;
            Format.o_bytes_per_cluster = opt n_of_string bpc;
            Format.o_fat_type = ft_of_string fat;
            Format.o_max_root_dir_entries = (match opt n_of_string root with Some v -> v | None -> d.Format.o_max_root_dir_entries);
            Format.o_fats = (match opt n_of_string fats with Some v -> v | None -> d.Format.o_fats);
            Format.o_media = (match opt n_of_string media with Some v -> v | None -> d.Format.o_media);
            Format.o_sectors_per_track = d.Format.o_sectors_per_track;
            Format.o_heads = d.Format.o_heads;
            Format.o_drive_num = None;
            Format.o_volume_id = (match opt n_of_string volid with Some v -> v | None -> d.Format.o_volume_id);
            Format.o_volume_label = lab }, n_of_string ts)
  | _ -> None

let line (t : string list) : string =
  match options_of t with
  | None -> "bad"
  | Some (o, ts) ->
    (match Format.format_boot_sector_bytes o ts with
     | Base.Ok (bytes, bits) -> Printf.sprintf "ok %s %s" (string_of_n bits) (hex_of_bytes bytes)
     | Base.Err e -> "err " ^ err_name e
     | Base.Panic -> "panic"
     | Base.OutOfFuel -> "outoffuel")

let vline (t : string list) : string =
  match t with
  | [hx; ts; chosen; req] ->
    (match ft_of_string chosen with
     | None -> "bad"
     | Some ch ->
       let s = Format.fmt_deserialize_boot (bytes_of_hex hx) in
       (match FormatSpec.boot_violations s (n_of_string ts) ch (ft_of_string req) with
        | [] -> "valid"
        | l -> "violated " ^ String.concat " " (Stdlib.List.map string_of_n l)))
  | _ -> "bad"

let gline (t : string list) : string =
  match t with
  | [hx] ->
    let b = (Format.fmt_deserialize_boot (bytes_of_hex hx)).Format.fbs_bpb in
    String.concat " " (Stdlib.List.map string_of_n
      [ b.Format.fb_bytes_per_sector; b.Format.fb_sectors_per_cluster; b.Format.fb_reserved_sectors; b.Format.fb_fats;
        b.Format.fb_root_entries; FormatSpec.sp_total_sectors b; FormatSpec.sp_fat_size b; FormatSpec.sp_clusters b;
        FormatSpec.sp_meta_sectors b ])
  | _ -> "bad"

(* ---------------------------------------------------------------- format_image *)
let initial_image (fill : string) (ranges : string) : Image.image =
  let im = ref (Image.img_empty (n_of_string fill)) in
  if ranges <> "-" then
    Stdlib.List.iter (fun r ->
      match String.split_on_char ':' r with
      | [off; len; b] -> im := FormatImage.img_fillrange !im (n_of_string off) (n_of_string len) (n_of_string b)
      | _ -> ()) (String.split_on_char ',' ranges);
  !im

(* pages (4096 bytes) of an image that hold at least one byte different from the fill byte *)
let pages_of (im : Image.image) : (int * Bytes.t) list =
  let fill = int_of_n im.Image.img_fill in
  let tbl : (int, Bytes.t) Hashtbl.t = Hashtbl.create 1024 in
  Stdlib.List.iter (fun (k, v) ->
    let off = int_of_pos k - 1 in
    let pg = off / 4096 in
    let b = (match Hashtbl.find_opt tbl pg with
             | Some b -> b
             | None -> let b = Bytes.make 4096 (Char.chr fill) in Hashtbl.add tbl pg b; b) in
    Bytes.set b (off mod 4096) (Char.chr (int_of_n v land 255))) (FormatImage.img_bindings im);
  let l = Hashtbl.fold (fun pg b acc ->
    let differs = ref false in
    Bytes.iter (fun c -> if Char.code c <> fill then differs := true) b;
    if !differs then (pg * 4096, b) :: acc else acc) tbl [] in
  Stdlib.List.sort compare l

let pages_digest (im : Image.image) : string =
  String.concat " " (Stdlib.List.map (fun (off, b) -> Printf.sprintf "%d:%s" off (Digest.to_hex (Digest.bytes b))) (pages_of im))

let split_image_line (t : string list) : (string list * string * string * string list) option =
  match t with
  | a :: b :: c :: d :: e :: f :: g :: h :: i :: fill :: ranges :: rest -> Some ([a; b; c; d; e; f; g; h; i], fill, ranges, rest)
  | _ -> None

let run_image (t : string list) =
  match split_image_line t with
  | None -> None
  | Some (req, fill, ranges, rest) ->
    (match options_of req with
     | None -> None
     | Some (o, ts) ->
       let im0 = initial_image fill ranges in
       Some (o, ts, im0, FormatImage.format_image o ts im0, rest))

let iline (t : string list) : string =
  match run_image t with
  | None -> "bad"
  | Some (o, ts, im0, r, _) ->
    (match r with
     | Base.Ok im ->
       let bits = (match Format.format_boot_sector_validated o ts with
                   | Base.Ok (_, ft) -> string_of_n (Format.bits_per_fat_entry ft) | _ -> "?") in
       Printf.sprintf "ok %s %s" bits (pages_digest im)
     | Base.Err e -> Printf.sprintf "err %s %s" (err_name e) (pages_digest im0)
     | Base.Panic -> "panic"
     | Base.OutOfFuel -> "outoffuel")

let ixline (t : string list) : string =
  match run_image t with
  | None -> "bad"
  | Some (_, _, im0, r, rest) ->
    let im = (match r with Base.Ok im -> im | _ -> im0) in
    (match rest with
     | [pg] ->
       let off = int_of_string pg in
       let fill = int_of_n im.Image.img_fill in
       (match Stdlib.List.assoc_opt off (pages_of im) with
        | Some b -> String.concat "" (Stdlib.List.map (fun c -> Printf.sprintf "%02x" (Char.code c)) (Stdlib.List.of_seq (Bytes.to_seq b)))
        | None -> String.concat "" (Stdlib.List.init 4096 (fun _ -> Printf.sprintf "%02x" fill)))
     | _ -> "bad")
