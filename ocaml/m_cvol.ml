(* model runner for the fixed root directory inside WHOLE IMAGES (Model/VolDir.v), mode "cvol": one input line -> one output
   line; the CURRENT IMAGE is kept between lines (one history = fmt / img, then operations).
   A digest is "<page off>:<md5> ..." over every 4096-byte page holding a byte other than the fill byte (the executor's `pages`).
   "upper <file>"                          load the to_uppercase table (shared with c15 / cdir) -> "ok <n>"
   "fmt <9 format tokens of mode c06> <fill>"   current := Model/FormatImage.format_image on a device filled with <fill>
        -> "ok <fat bits> <digest>" | "err <Variant>" | "panic" | "outoffuel"
   "img <fill> <off> <hex> <off> <hex> ..."     current := exactly these pages over <fill> (re-synchronise on the library's
        device, e.g. after an operation this model does not cover) -> "ok <digest>"
   "imgq <fill> <off> <hex> ..."                as img, answers just "ok" (no digest: cheaper when every call is re-based)
   "create <name> <y> <m> <d> <h> <mi> <s> <ms>"   vol_create_empty_file_root
        -> "ok <first> <last> | exists | err <Variant> | panic | fuel", then " <digest>"
        create / remove / rename run MOUNTED (Model/VolStatus.v): vol_mount_status ; vols_* (the operation, then set_dirty_flag(true)
        exactly when the code passes it) ; vol_unmount; the answer ends with "mark1" when the status byte was written, else "mark0"
   "remove <name>"                          vol_remove_empty_file_root -> "ok | err <Variant> | ... <digest>" | "na"
   "rename <src> <dst>"                     vol_rename_in_root         -> "ok | err <Variant> | ... <digest>" | "na"
        "na": the model answers None (the entry is a directory / owns clusters: the library touches more than the root
        region); the current image is then STALE until the next "img"/"fmt" and every answer is prefixed "stale "
   "root"                                   Spec/Abs.abs of the current image: "<nodes> <issues> <free clusters>: <lfn u16 hex|->,<sfn hex>,<size>,<cluster>;..."
   "page <off>"                             hex of that page of the current image
   chain-backed sub-directory of the root, without growth (Model/VolChainDir.v):
   "cdir <sfn hex, 11 bytes>"               selects the directory: the root node with that raw short name (Spec/Abs.abs of the
        current image) -> "ok <c1,c2,..>" (its chain) | "none"
   "ccreate <name> <y> <m> <d> <h> <mi> <s> <ms>" / "cremove <name>" / "crename <src> <dst>"   vol_*_chain on the selected chain
        -> as create / remove / rename; "na" also when the directory would have to grow
   "poke <off> <hex>"                       current := current with these bytes written (the parent-entry stamp the chain model
        leaves out) -> "ok <digest>"
   "sub"                                    Abs.dir_scan of the selected directory: "<entries> <issues>: <lfn u16 hex|->,<sfn hex>;..."
   chain-backed sub-directory WITH growth (Model/VolChainGrow.v):
   "fi <free|-> <next|->"                   the FS-info latch (FsInfoSector in memory) := these values, clean -> "ok"
        (a FAT12/16 mount starts with "fi - -")
   "cgrow <name> <y> <m> <d> <h> <mi> <s> <ms>"   vol_create_file_grow on the selected chain with the current latch; the chain and
        the latch are kept for the next line -> "ok <first> <last> | exists | err <Variant> | panic | fuel", then
        " chain=<c1,c2,..> fi=<free|->,<next|->" (no digest: the following "poke" prints it)
   directories in the fixed root (Model/VolDirTree.v), mounted as create / remove (status byte marked when something was written,
   cleared by the unmount); the latch of "fi" is used and kept:
   "mkdir <name> <y> <m> <d> <h> <mi> <s> <ms>"   vol_create_dir_root -> "ok <first> <last> <cluster> | exists | err <Variant> | panic | fuel",
        then " fi=<free|->,<next|-> <digest>"
   "rmdir <name>"                           vol_remove_root (a directory: vol_remove_dir_root; a file: Model/VolRemove.v)
        -> "ok | err <Variant> | ..." then " fi=.. <digest>" | "na"
   ROOT DIRECTORY OF A FAT32 VOLUME, without growth (Model/Vol32Root.v: the chain that starts at BPB_RootClus, no parent entry):
   "r32chain"                               root32_chain of the current image -> "ok <c1,c2,..>" | "none" (broken root chain)
   "r32create <name> <y> <m> <d> <h> <mi> <s> <ms>" / "r32remove <name>" / "r32rename <src> <dst>"   vol32_root_create / _remove /
        _rename -> as ccreate / cremove / crename ("na": would grow / entry owns clusters / is a directory / broken root chain)
   "r32grow <name> <y> <m> <d> <h> <mi> <s> <ms>"   create_file in the FAT32 root INCLUDING growth, in its own mount .. unmount bracket,
        starting from the image of the LAST img / imgq (not from the current image, so it can follow an r32create of the same call):
        VolFsInfo.vol32_mount (strict) reads the FS-info latch from the image ; Vol32Root.vol32_root_create_grow ;
        VolFsInfo.vol32_flush_fs_info writes the FS-info sector back when the latch is dirty (what unmount does)
        -> "ok <first> <last> | exists | err <Variant> | panic | fuel", " chain=<root chain after> fi=<free|->,<next|->,<dirty|clean>", digest
        | "na" (broken root chain) | "nomount ..."
   "wf"                                     Spec/Wf.wf_issues (folding: Spec/WfFold.wf_fold with the loaded table) of the current
        image: "<count> <free clusters>: <Issue(..)> ..." *)
open Conv

let cur : Image.image ref = ref (Image.img_empty BinNums.N0)
let stale = ref false
let base : Image.image ref = ref (Image.img_empty BinNums.N0)     (* the image of the last img / imgq (r32grow starts from it) *)
let chain : BinNums.coq_N list ref = ref []
let fi : Table.fsinfo ref = ref { Table.fi_free = None; Table.fi_next = None; Table.fi_dirty = false }
let opt_n (s : string) : BinNums.coq_N option = if s = "-" then None else Some (n_of_string s)
let opt_s (o : BinNums.coq_N option) : string = match o with None -> "-" | Some n -> string_of_n n

let upper c = M_c15.upper_table c
let oem = Name.oem_decode_lossy
let name_of_hex (h : string) : BinNums.coq_N list = Str.utf8_decode (bytes_of_hex h)

let digest () = M_c06.pages_digest !cur
let pre s = if !stale then "stale " ^ s else s

let res_tag (tag : 'a -> string) (r : 'a Base.res) : string =
  match r with
  | Base.Ok a -> tag a
  | Base.Err e -> "err " ^ err_name e
  | Base.Panic -> "panic"
  | Base.OutOfFuel -> "fuel"

let mark_s (s1 : Flags.fstat) : string = if int_of_n s1.Flags.status_writes > 0 then " mark1" else " mark0"

let line (t : string list) : string =
  match t with
  | ["upper"; f] -> Printf.sprintf "ok %d" (M_c15.load_table f)
  | "fmt" :: rest when Stdlib.List.length rest = 10 ->
    let req = Stdlib.List.filteri (fun i _ -> i < 9) rest in
    let fill = Stdlib.List.nth rest 9 in
    (match M_c06.options_of req with
     | None -> "bad"
     | Some (o, ts) ->
       (match FormatImage.format_image o ts (Image.img_empty (n_of_string fill)) with
        | Base.Ok im ->
          cur := im; stale := false;
          let bits = (match Format.format_boot_sector_validated o ts with
                      | Base.Ok (_, ft) -> string_of_n (Format.bits_per_fat_entry ft) | _ -> "?") in
          Printf.sprintf "ok %s %s" bits (digest ())
        | Base.Err e -> "err " ^ err_name e
        | Base.Panic -> "panic"
        | Base.OutOfFuel -> "outoffuel"))
  | ("img" | "imgq" as cmd) :: fill :: pages ->
    let im = ref (Image.img_empty (n_of_string fill)) in
    let rec go l =
      match l with
      | off :: hx :: r -> im := Image.img_write !im (n_of_string off) (bytes_of_hex hx); go r
      | _ -> () in
    go pages;
    cur := !im; base := !im; stale := false;
    if cmd = "imgq" then "ok" else "ok " ^ digest ()
  | ["create"; name; y; m; d; h; mi; s; ms] ->
    (* mounted (Model/VolStatus.v): mount ; the operation with its status write ; unmount.  "mark<0|1>": the status byte was written *)
    let g = Abs.parse_geom !cur in
    let s0 = VolStatus.vol_mount_status g !cur in
    let ((r, im), s1) = VolStatus.vols_create_empty_file_root upper oem !cur s0 (name_of_hex name) (M_c18.mkdt y m d h mi s ms) in
    let (im', _) = VolStatus.vol_unmount g im s1 in
    cur := im';
    pre (res_tag (fun o -> match o with
                           | None -> "exists"
                           | Some (p, q) -> Printf.sprintf "ok %s %s" (string_of_n p) (string_of_n q)) r ^ " " ^ digest () ^ mark_s s1)
  | ["remove"; name] ->
    let g = Abs.parse_geom !cur in
    let s0 = VolStatus.vol_mount_status g !cur in
    (match VolStatus.vols_remove_empty_file_root upper oem !cur s0 (name_of_hex name) with
     | None -> stale := true; "na"
     | Some ((r, im), s1) ->
       let (im', _) = VolStatus.vol_unmount g im s1 in
       cur := im'; pre (res_tag (fun _ -> "ok") r ^ " " ^ digest () ^ mark_s s1))
  | ["rename"; src; dst] ->
    let g = Abs.parse_geom !cur in
    let s0 = VolStatus.vol_mount_status g !cur in
    (match VolStatus.vols_rename_in_root upper oem !cur s0 (name_of_hex src) (name_of_hex dst) with
     | None -> stale := true; "na"
     | Some ((r, im), s1) ->
       let (im', _) = VolStatus.vol_unmount g im s1 in
       cur := im'; pre (res_tag (fun _ -> "ok") r ^ " " ^ digest () ^ mark_s s1))
  | ["root"] ->
    let v = Abs.abs !cur in
    let g = v.Abs.v_geom in
    let ents = Stdlib.List.map (fun n ->
        let e = Abs.node_entry n in
        Printf.sprintf "%s,%s,%s,%s" (hex16_of_words e.Abs.e_lfn) (hex_of_bytes e.Abs.e_sfn) (string_of_n e.Abs.e_size)
          (string_of_n e.Abs.e_cluster)) v.Abs.v_root in
    pre (Printf.sprintf "%d %d %s: %s" (Stdlib.List.length v.Abs.v_root) (Stdlib.List.length v.Abs.v_root_issues)
           (string_of_n (Abs.count_free g !cur)) (String.concat ";" ents))
  | ["cdir"; sfn] ->
    let want = bytes_of_hex sfn in
    let v = Abs.abs !cur in
    let rec find l = match l with
      | Abs.NDir (e, Some ch, _, _, _) :: r -> if e.Abs.e_sfn = want then Some ch else find r
      | _ :: r -> find r
      | [] -> None in
    (match find v.Abs.v_root with
     | Some ch -> chain := ch; "ok " ^ String.concat "," (Stdlib.List.map string_of_n ch)
     | None -> chain := []; "none")
  | ["ccreate"; name; y; m; d; h; mi; s; ms] ->
    (match VolChainDir.vol_create_empty_file_chain upper oem !cur !chain (name_of_hex name) (M_c18.mkdt y m d h mi s ms) with
     | None -> stale := true; "na"
     | Some (r, im) ->
       cur := im;
       pre (res_tag (fun o -> match o with
                              | None -> "exists"
                              | Some (p, q) -> Printf.sprintf "ok %s %s" (string_of_n p) (string_of_n q)) r ^ " " ^ digest ()))
  | ["cremove"; name] ->
    (match VolChainDir.vol_remove_empty_file_chain upper oem !cur !chain (name_of_hex name) with
     | None -> stale := true; "na"
     | Some (r, im) -> cur := im; pre (res_tag (fun _ -> "ok") r ^ " " ^ digest ()))
  | ["crename"; src; dst] ->
    (match VolChainDir.vol_rename_in_chain upper oem !cur !chain (name_of_hex src) (name_of_hex dst) with
     | None -> stale := true; "na"
     | Some (r, im) -> cur := im; pre (res_tag (fun _ -> "ok") r ^ " " ^ digest ()))
  | ["r32chain"] ->
    (match Vol32Root.root32_chain !cur with
     | Some ch -> pre ("ok " ^ String.concat "," (Stdlib.List.map string_of_n ch))
     | None -> pre "none")
  | ["r32create"; name; y; m; d; h; mi; s; ms] ->
    (match Vol32Root.vol32_root_create upper oem !cur (name_of_hex name) (M_c18.mkdt y m d h mi s ms) with
     | None -> stale := true; "na"
     | Some (r, im) ->
       cur := im;
       pre (res_tag (fun o -> match o with
                              | None -> "exists"
                              | Some (p, q) -> Printf.sprintf "ok %s %s" (string_of_n p) (string_of_n q)) r ^ " " ^ digest ()))
  | ["r32grow"; name; y; m; d; h; mi; s; ms] ->
    (match VolFsInfo.vol32_mount true !base with
     | Base.Ok (fi0, _) ->
       (match Vol32Root.vol32_root_create_grow upper oem !base fi0 (name_of_hex name) (M_c18.mkdt y m d h mi s ms) with
        | None -> stale := true; "na"
        | Some (r, ((im, fi'), l')) ->
          let (im2, _) = VolFsInfo.vol32_flush_fs_info (Abs.parse_geom im) im fi' in
          cur := im2; stale := false;
          res_tag (fun o -> match o with
                            | None -> "exists"
                            | Some (p, q) -> Printf.sprintf "ok %s %s" (string_of_n p) (string_of_n q)) r
          ^ " chain=" ^ String.concat "," (Stdlib.List.map string_of_n l')
          ^ " fi=" ^ opt_s fi'.Table.fi_free ^ "," ^ opt_s fi'.Table.fi_next ^ "," ^ (if fi'.Table.fi_dirty then "dirty" else "clean")
          ^ " " ^ digest ())
     | r -> "nomount " ^ res_tag (fun _ -> "ok") r)
  | ["r32remove"; name] ->
    (match Vol32Root.vol32_root_remove upper oem !cur (name_of_hex name) with
     | None -> stale := true; "na"
     | Some (r, im) -> cur := im; pre (res_tag (fun _ -> "ok") r ^ " " ^ digest ()))
  | ["r32rename"; src; dst] ->
    (match Vol32Root.vol32_root_rename upper oem !cur (name_of_hex src) (name_of_hex dst) with
     | None -> stale := true; "na"
     | Some (r, im) -> cur := im; pre (res_tag (fun _ -> "ok") r ^ " " ^ digest ()))
  | ["fi"; fr; nx] ->
    fi := { Table.fi_free = opt_n fr; Table.fi_next = opt_n nx; Table.fi_dirty = false }; "ok"
  | ["cgrow"; name; y; m; d; h; mi; s; ms] ->
    let (r, ((im, fi'), l')) =
      VolChainGrow.vol_create_file_grow upper oem !cur !fi !chain (name_of_hex name) (M_c18.mkdt y m d h mi s ms) in
    cur := im; fi := fi'; chain := l';
    pre (res_tag (fun o -> match o with
                           | None -> "exists"
                           | Some (p, q) -> Printf.sprintf "ok %s %s" (string_of_n p) (string_of_n q)) r
         ^ " chain=" ^ String.concat "," (Stdlib.List.map string_of_n l')
         ^ " fi=" ^ opt_s fi'.Table.fi_free ^ "," ^ opt_s fi'.Table.fi_next)
  | ["mkdir"; name; y; m; d; h; mi; s; ms] ->
    let g = Abs.parse_geom !cur in
    let s0 = VolStatus.vol_mount_status g !cur in
    let (r, (im, fi')) = VolDirTree.vol_create_dir_root upper oem !cur !fi (name_of_hex name) (M_c18.mkdt y m d h mi s ms) in
    let wrote = (match r with Base.Ok None -> false | _ -> not (im == !cur)) in
    let (im1, s1) = VolStatus.marked g wrote im s0 in
    let (im', _) = VolStatus.vol_unmount g im1 s1 in
    cur := im'; fi := fi';
    pre (res_tag (fun o -> match o with
                           | None -> "exists"
                           | Some ((p, q), c) -> Printf.sprintf "ok %s %s %s" (string_of_n p) (string_of_n q) (string_of_n c)) r
         ^ " fi=" ^ opt_s fi'.Table.fi_free ^ "," ^ opt_s fi'.Table.fi_next ^ " " ^ digest ())
  | ["rmdir"; name] ->
    let g = Abs.parse_geom !cur in
    let s0 = VolStatus.vol_mount_status g !cur in
    (match VolDirTree.vol_remove_root upper oem !cur !fi (name_of_hex name) with
     | None -> stale := true; "na"
     | Some ((r, im), fi') ->
       let (im1, s1) = VolStatus.marked g (VolStatus.res_ok r) im s0 in
       let (im', _) = VolStatus.vol_unmount g im1 s1 in
       cur := im'; fi := fi';
       pre (res_tag (fun _ -> "ok") r ^ " fi=" ^ opt_s fi'.Table.fi_free ^ "," ^ opt_s fi'.Table.fi_next ^ " " ^ digest ()))
  | ["wf"] ->
    let iss = Wf.wf_issues (WfFold.wf_fold upper) !cur in
    pre (Printf.sprintf "%d %s: %s" (Stdlib.List.length iss) (string_of_n (Abs.count_free (Abs.parse_geom !cur) !cur))
           (String.concat " " (Stdlib.List.map Judge.issue_name iss)))
  | ["poke"; off; hx] ->
    cur := Image.img_write !cur (n_of_string off) (bytes_of_hex hx);
    pre ("ok " ^ digest ())
  | ["sub"] ->
    let g = Abs.parse_geom !cur in
    let ((es, _), iss) = Abs.dir_scan (VolChainDir.chain_dir_slots g !cur !chain) BinNums.N0 [] false in
    pre (Printf.sprintf "%d %d: %s" (Stdlib.List.length es) (Stdlib.List.length iss)
           (String.concat ";" (Stdlib.List.map (fun e -> hex16_of_words e.Abs.e_lfn ^ "," ^ hex_of_bytes e.Abs.e_sfn) es)))
  | ["page"; pg] ->
    let off = int_of_string pg in
    let fill = int_of_n (!cur).Image.img_fill in
    (match Stdlib.List.assoc_opt off (M_c06.pages_of !cur) with
     | Some b -> String.concat "" (Stdlib.List.map (fun c -> Printf.sprintf "%02x" (Char.code c)) (Stdlib.List.of_seq (Bytes.to_seq b)))
     | None -> String.concat "" (Stdlib.List.init 4096 (fun _ -> Printf.sprintf "%02x" fill)))
  | _ -> "bad"
