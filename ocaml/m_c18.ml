(* model runner for C18: one input line -> one output line
   "d y m d"        -> "ok <word> <y> <m> <d>"      (encode, then decode of the word)   | "panic"
   "t h mi s ms"    -> "<w> <hi> <created: h mi s ms> <modified: h mi s ms>"
   "dd <word>"      -> "<y> <m> <d>"     (decode any word)
   "td <w> <hi>"    -> "<h> <mi> <s> <ms>" *)
open Conv

let line (t : string list) : string =
  match t with
  | ["d"; y; m; d] ->
    let dt = { Time.year = n_of_string y; Time.month = n_of_string m; Time.day = n_of_string d } in
    (match Time.date_encode dt with
     | Base.Ok w ->
       let r = Time.date_decode w in
       Printf.sprintf "ok %s %s %s %s" (string_of_n w) (string_of_n r.Time.year) (string_of_n r.Time.month) (string_of_n r.Time.day)
     | _ -> "panic")
  | ["t"; h; mi; s; ms] ->
    let tm = { Time.hour = n_of_string h; Time.min = n_of_string mi; Time.sec = n_of_string s; Time.millis = n_of_string ms } in
    let (w, hi) = Time.time_encode tm in
    let c = Time.time_decode w hi in
    let m = Time.time_decode w BinNums.N0 in
    Printf.sprintf "%s %s %s %s %s %s %s %s %s %s" (string_of_n w) (string_of_n hi)
      (string_of_n c.Time.hour) (string_of_n c.Time.min) (string_of_n c.Time.sec) (string_of_n c.Time.millis)
      (string_of_n m.Time.hour) (string_of_n m.Time.min) (string_of_n m.Time.sec) (string_of_n m.Time.millis)
  | ["dd"; w] ->
    let r = Time.date_decode (n_of_string w) in
    Printf.sprintf "%s %s %s" (string_of_n r.Time.year) (string_of_n r.Time.month) (string_of_n r.Time.day)
  | ["td"; w; hi] ->
    let c = Time.time_decode (n_of_string w) (n_of_string hi) in
    Printf.sprintf "%s %s %s %s" (string_of_n c.Time.hour) (string_of_n c.Time.min) (string_of_n c.Time.sec) (string_of_n c.Time.millis)
  | _ -> "bad"

(* stamp machine: stateful lines (mode c18s) *)
let st : Time.editor_t option ref = ref None

let mkdt y m d h mi s ms =
  { Time.dt_date = { Time.year = n_of_string y; Time.month = n_of_string m; Time.day = n_of_string d };
    Time.dt_time = { Time.hour = n_of_string h; Time.min = n_of_string mi; Time.sec = n_of_string s; Time.millis = n_of_string ms } }

let fmt_dt (d : Time.datetime) =
  Printf.sprintf "%s-%s-%s/%s:%s:%s.%s" (string_of_n d.Time.dt_date.Time.year) (string_of_n d.Time.dt_date.Time.month)
    (string_of_n d.Time.dt_date.Time.day) (string_of_n d.Time.dt_time.Time.hour) (string_of_n d.Time.dt_time.Time.min)
    (string_of_n d.Time.dt_time.Time.sec) (string_of_n d.Time.dt_time.Time.millis)

let fmt_d (d : Time.date) =
  Printf.sprintf "%s-%s-%s" (string_of_n d.Time.year) (string_of_n d.Time.month) (string_of_n d.Time.day)

let upd (r : Time.editor_t Base.res) : string =
  match r with
  | Base.Ok e -> st := Some e; "ok"
  | _ -> "panic"

let sline (t : string list) : string =
  match t, !st with
  | ["new"], _ -> st := None; "ok"
  | ["nop"], _ -> "ok"
  | ["create"; y; m; d; h; mi; s; ms], _ ->
    (match Time.stamp_create (mkdt y m d h mi s ms) with
     | Base.Ok s -> st := Some { Time.ed_st = s; Time.ed_dirty = false }; "ok"
     | _ -> "panic")
  | ["write"; y; m; d; h; mi; s; ms], Some e -> upd (Time.stamp_write e (mkdt y m d h mi s ms))
  | ["read"; u; y; m; d], Some e ->
    upd (Time.stamp_read e (u = "1") { Time.year = n_of_string y; Time.month = n_of_string m; Time.day = n_of_string d })
  | ["setc"; y; m; d; h; mi; s; ms], Some e -> upd (Time.ed_set_created e (mkdt y m d h mi s ms))
  | ["setm"; y; m; d; h; mi; s; ms], Some e -> upd (Time.ed_set_modified e (mkdt y m d h mi s ms))
  | ["seta"; y; m; d], Some e ->
    upd (Time.ed_set_accessed e { Time.year = n_of_string y; Time.month = n_of_string m; Time.day = n_of_string d })
  | ["show"], Some e ->
    let s = e.Time.ed_st in
    Printf.sprintf "%s %s %s raw %s %s %s %s %s %s" (fmt_dt (Time.st_created s)) (fmt_dt (Time.st_modified s)) (fmt_d (Time.st_accessed s))
      (string_of_n s.Time.create_time_0) (string_of_n s.Time.create_time_1) (string_of_n s.Time.create_date)
      (string_of_n s.Time.access_date) (string_of_n s.Time.modify_time) (string_of_n s.Time.modify_date)
  | _ -> "bad"
