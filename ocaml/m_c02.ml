(* model runner for C02 (mode "c02"): replays a single-file history on the extracted Model/FileM.v over the pure
   FAT store (Table.pfat/pget/pset).  One input line -> one output line:
   "new <cluster_size> <total_clusters>"   fresh volume (every data cluster free, no cached free count, no hint:
                                           what a FAT12/16 mount starts from) and ONE empty file -> "ok | <state>"
   "use <i>"              switch to open file number i (a new empty file the first time) -> "ok | <state>";
                          all files share the world (FAT, free count, data area), as handles of one FileSystem do
   "stats"                FileSystem::stats (caches the free count) -> "ok <free> | <state>"
   "write <hex>"          one File::write   -> "ok <count> | <state>"
   "read <n>"             one File::read    -> "ok <hex|-> | <state>"
   "seek start|end|cur <off>"               -> "ok <pos> | <state>"      (<off> decimal, may be negative)
   "truncate"                               -> "ok | <state>"
   "extents"              File::extents     -> "ok <cluster>:<size> ... | <state>"
   "state"                                  -> "ok | <state>"
   failures: "err <Variant> | <state>", "panic | <state>", "fuel | <state>" (state unchanged).
   <state> = "<offset> <size|-> <first|-> <current|-> <chain clusters from first, comma separated|-> <cached free|-> <hint|->" *)
open Conv

let cs = ref (n_of_int 512)
let total = ref (n_of_int 16)
let fresh_world () : Table.pfat FileM.fworld =
  { FileM.w_fat = (fun _ -> Table.Free);
    FileM.w_fi = { Table.fi_free = None; Table.fi_next = None; Table.fi_dirty = false };
    FileM.w_data = (fun _ -> []) }
let fresh_handle () : FileM.fhandle =
  FileM.file_new None (Some { FileM.ed_first = None; FileM.ed_size = Some (n_of_int 0); FileM.ed_dirty = false })
let w = ref (fresh_world ())
let h = ref (fresh_handle ())
let others : (int, FileM.fhandle) Hashtbl.t = Hashtbl.create 8
let cur = ref 0

let opt_s (o : BinNums.coq_N option) = match o with Some n -> string_of_n n | None -> "-"

let chain_s () : string =
  match !h.FileM.h_first with
  | None -> "-"
  | Some f ->
    let rec go c fuel acc =
      if fuel = 0 then Stdlib.List.rev ("..." :: acc)
      else match !w.FileM.w_fat c with
        | Table.Data n -> go n (fuel - 1) (string_of_n c :: acc)
        | _ -> Stdlib.List.rev (string_of_n c :: acc) in
    String.concat "," (go f (int_of_n !total + 2) [])

let state_s () : string =
  Printf.sprintf "%s %s %s %s %s %s %s" (string_of_n !h.FileM.h_off) (opt_s (FileM.h_size !h)) (opt_s !h.FileM.h_first)
    (opt_s !h.FileM.h_cur) (chain_s ()) (opt_s !w.FileM.w_fi.Table.fi_free) (opt_s !w.FileM.w_fi.Table.fi_next)

let z_of_string (s : string) : BinNums.coq_Z =
  if String.length s > 0 && s.[0] = '-' then FileM.z_of_sign true (n_of_string (String.sub s 1 (String.length s - 1)))
  else FileM.z_of_sign false (n_of_string s)

let finish (r : 'a Base.res) (f : 'a -> string) : string =
  let s = match r with
    | Base.Ok a -> f a
    | Base.Err e -> "err " ^ err_name e
    | Base.Panic -> "panic"
    | Base.OutOfFuel -> "fuel" in
  s ^ " | " ^ state_s ()

let line (t : string list) : string =
  match t with
  | ["new"; c; n] ->
    cs := n_of_string c; total := n_of_string n;
    let zero = Stdlib.List.init (int_of_n !cs) (fun _ -> n_of_int 0) in
    w := { (fresh_world ()) with FileM.w_data = (fun _ -> zero) };
    h := fresh_handle (); Hashtbl.reset others; cur := 0;
    "ok | " ^ state_s ()
  | ["use"; i] ->
    let i = int_of_string i in
    Hashtbl.replace others !cur !h;
    h := (match Hashtbl.find_opt others i with Some x -> x | None -> fresh_handle ());
    cur := i;
    "ok | " ^ state_s ()
  | ["write"; hx] ->
    finish (FileM.file_write Table.pget Table.pset !cs !total !w !h (bytes_of_hex hx))
      (fun ((w', h'), k) -> w := w'; h := h'; "ok " ^ string_of_n k)
  | ["read"; n] ->
    finish (FileM.file_read Table.pget !cs !w !h (n_of_string n))
      (fun ((w', h'), bs) -> w := w'; h := h'; "ok " ^ hex_of_bytes bs)
  | ["seek"; wh; off] ->
    let pos = match wh with
      | "start" -> FileM.FromStart (n_of_string off)
      | "end" -> FileM.FromEnd (z_of_string off)
      | _ -> FileM.FromCurrent (z_of_string off) in
    finish (FileM.file_seek Table.pget !cs !w !h pos)
      (fun ((w', h'), p) -> w := w'; h := h'; "ok " ^ string_of_n p)
  | ["truncate"] ->
    finish (FileM.file_truncate Table.pget Table.pset !total !w !h) (fun (w', h') -> w := w'; h := h'; "ok")
  | ["extents"] ->
    finish (FileM.file_extents Table.pget !cs !total !w !h)
      (fun l -> String.concat " " ("ok" :: Stdlib.List.map (fun (c, s) -> string_of_n c ^ ":" ^ string_of_n s) l))
  | ["stats"] ->
    finish (Table.fs_stats Table.pget !w.FileM.w_fat !w.FileM.w_fi !total)
      (fun (fi', n) -> w := { !w with FileM.w_fi = fi' }; "ok " ^ string_of_n n)
  | ["state"] -> "ok | " ^ state_s ()
  | _ -> "bad"

(* ------------------------------------------------------------------------------------------------------------------
   mode "c02v": the image-level machine of Model/VolFile.v (vol_step: FileM over the byte-level FAT store that IS the
   FAT slice of the device image, data written through into the cluster areas) next to the real library.
   Two images are kept: [mim] = the model's image, advanced by the extracted [VolFile.vol_step] only;
   [dim] = the device, advanced by the library's own device writes (write log of the executor) only.

   "vimg <fill> <off> <hex> <off> <hex> ..."  both images := the device dump (executor `pages`) taken after format and
        before mount; geometry = Abs.parse_geom; FS-info latch = what Bpb.mount (model of FileSystem::new) reads; one new
        empty file  -> "ok <bits> <cluster size> <clusters> <vgeom_okb 0|1> <free|-> <next|-> <base> <mirrors>"
   "vstep <op ...> | <off>:<hex> ..."   op = write <hex> | read <n> | seek start|end|cur <off> | truncate; after '|' the
        device writes the library performed during the call
        -> "<result> | <offset> <size|-> <first|-> <current|-> | same <bytes compared>"   or   "... | DIFF <what>"
        compared after the call, device image vs model image: every byte range the library wrote inside the FAT region or
        inside a cluster of the file's old or new chain (a device write into any other data cluster is a DIFF); the table
        entries (every copy) of every cluster of the old and new chain; the whole cluster the model wrote data into.
   "vend"  -> "ok <hex of Abs-decoded content of the file on the DEVICE image|-> | <model extents off:size ...|-> | same <n>|DIFF .."
        decode_file (Spec/Abs.v chain walk + chain bytes) with the handle's first cluster and size, on the DEVICE image;
        compares the complete FAT region (all copies) and every cluster of the chain of the two images.
   "vranges <off>:<size> ..." -> "ok <hex|->"   the bytes of the DEVICE image at the given ranges (VolFile.read_ranges) *)
let vg : Abs.geom ref = ref (Abs.parse_geom (Image.img_empty N0))
let mim = ref (Image.img_empty N0)
let dim = ref (Image.img_empty N0)
let vfi : Table.fsinfo ref = ref { Table.fi_free = None; Table.fi_next = None; Table.fi_dirty = false }
let vh = ref (fresh_handle ())

let nadd = BinNat.N.add
let nmul = BinNat.N.mul

let vstate_s () : string =
  Printf.sprintf "%s %s %s %s" (string_of_n !vh.FileM.h_off) (opt_s (FileM.h_size !vh)) (opt_s !vh.FileM.h_first)
    (opt_s !vh.FileM.h_cur)

let chain_of (im : Image.image) (h : FileM.fhandle) : int list =
  match h.FileM.h_first with
  | None -> []
  | Some f ->
    (match Abs.chain_from !vg im f (Abs.chain_fuel !vg) with
     | Some l -> Stdlib.List.map int_of_n l
     | None -> [int_of_n f])

(* first offset in [off, off+len) where the two images differ *)
let diff_range (off : int) (len : int) : int option =
  let rec go i = if i >= len then None
    else if Image.img_get !mim (n_of_int (off + i)) <> Image.img_get !dim (n_of_int (off + i)) then Some (off + i)
    else go (i + 1) in
  go 0

let geom_ints () =
  let g = !vg in
  let fat0 = int_of_n (Abs.g_fat_off g N0) in
  let root = int_of_n (Abs.g_root_off g) in
  let fatb = int_of_n (Abs.g_fat_bytes g) in
  let nf = int_of_n g.Abs.g_fats in
  let data0 = int_of_n (Abs.g_cluster_off g (n_of_int 2)) in
  let cs = int_of_n (Abs.g_cluster_size g) in
  let total = int_of_n (Abs.g_clusters g) in
  (fat0, root, fatb, nf, data0, cs, total)

let entry_span (c : int) : int * int =
  match VolFile.ft_of !vg with
  | Fat.Fat12 -> (c + c / 2, 2)
  | Fat.Fat16 -> (2 * c, 2)
  | Fat.Fat32 -> (4 * c, 4)

let describe_diff (what : string) (o : int) : string =
  Printf.sprintf "DIFF %s at %d: model %s device %s" what o (string_of_n (Image.img_get !mim (n_of_int o)))
    (string_of_n (Image.img_get !dim (n_of_int o)))

let vline (t : string list) : string =
  match t with
  | "vimg" :: fill :: rest ->
    let im0 = ref (Image.img_empty (n_of_string fill)) in
    let rec go = function
      | off :: hx :: r -> im0 := Image.img_write !im0 (n_of_string off) (bytes_of_hex hx); go r
      | _ -> () in
    go rest;
    mim := !im0; dim := !im0;
    vg := Abs.parse_geom !im0;
    vh := fresh_handle ();
    let bs = Image.img_read !im0 N0 (nat_of_int 512) in
    let fsi = Image.img_read !im0 (Bpb.fsinfo_offset bs) (nat_of_int 512) in
    (match Bpb.mount Bpb.Debug bs fsi false with
     | Base.Ok m ->
       vfi := { Table.fi_free = m.Bpb.m_free; Table.fi_next = m.Bpb.m_next; Table.fi_dirty = false };
       Printf.sprintf "ok %s %s %s %d %s %s %s %d" (string_of_n (Abs.g_bits !vg)) (string_of_n (Abs.g_cluster_size !vg))
         (string_of_n (Abs.g_clusters !vg)) (if VolFile.vgeom_okb !vg then 1 else 0) (opt_s m.Bpb.m_free) (opt_s m.Bpb.m_next)
         (string_of_n (VolFile.vol_base !vg)) (int_of_n (BinNat.N.of_nat (VolFile.vol_mirrors !vg)))
     | _ -> "err mount")
  | "vstep" :: rest ->
    let rec split acc = function
      | "|" :: r -> (Stdlib.List.rev acc, r)
      | x :: r -> split (x :: acc) r
      | [] -> (Stdlib.List.rev acc, []) in
    let (opt, wr) = split [] rest in
    let op = match opt with
      | ["write"; hx] -> Some (FileM.FWrite (bytes_of_hex hx))
      | ["read"; n] -> Some (FileM.FRead (n_of_string n))
      | ["seek"; "start"; off] -> Some (FileM.FSeek (FileM.FromStart (n_of_string off)))
      | ["seek"; "end"; off] -> Some (FileM.FSeek (FileM.FromEnd (z_of_string off)))
      | ["seek"; "cur"; off] -> Some (FileM.FSeek (FileM.FromCurrent (z_of_string off)))
      | ["truncate"] -> Some FileM.FTruncate
      | _ -> None in
    (match op with
     | None -> "bad"
     | Some op ->
       let (fat0, root, fatb, nf, data0, cs, total) = geom_ints () in
       let old_chain = chain_of !mim !vh in
       let h0 = !vh in
       let (((im', fi'), h'), r) = VolFile.vol_step !vg ((!mim, !vfi), !vh) op in
       mim := im'; vfi := fi'; vh := h';
       let new_chain = chain_of !mim !vh in
       let res = match r with
         | FileM.RBytes bs -> "ok " ^ hex_of_bytes bs
         | FileM.RCount k -> "ok " ^ string_of_n k
         | FileM.RPos p -> "ok " ^ string_of_n p
         | FileM.RDone -> "ok"
         | FileM.RFail e -> "err " ^ err_name e
         | FileM.RPanic -> "panic"
         | FileM.RFuel -> "fuel" in
       (* the device's own writes *)
       let writes = Stdlib.List.filter_map (fun s ->
           match String.index_opt s ':' with
           | Some i -> Some (int_of_string (String.sub s 0 i), String.sub s (i + 1) (String.length s - i - 1))
           | None -> None) wr in
       Stdlib.List.iter (fun (o, hx) -> dim := Image.img_write !dim (n_of_int o) (bytes_of_hex hx)) writes;
       let chain_all = old_chain @ new_chain in
       let problem = ref None in
       let compared = ref 0 in
       let check what off len =
         if !problem = None then begin
           compared := !compared + len;
           match diff_range off len with Some o -> problem := Some (describe_diff what o) | None -> ()
         end in
       Stdlib.List.iter (fun (o, hx) ->
           let len = String.length hx / 2 in
           if o >= fat0 && o < root then check "library write in the FAT region" o len
           else if o >= data0 then begin
             let c = (o - data0) / cs + 2 in
             if Stdlib.List.mem c chain_all then check (Printf.sprintf "library write in cluster %d" c) o len
             else if !problem = None && c < total + 2 then
               problem := Some (Printf.sprintf "DIFF library wrote %d bytes at %d in cluster %d, outside the file's chains" len o c)
           end) writes;
       Stdlib.List.iter (fun c ->
           let (eo, el) = entry_span c in
           for k = 0 to nf - 1 do check (Printf.sprintf "table entry %d copy %d" c k) (fat0 + k * fatb + eo) el done) chain_all;
       (match VolFile.step_write (Abs.g_cluster_size !vg) h0 h' op r with
        | Some ((cc, _), _) -> check (Printf.sprintf "cluster %s (data write)" (string_of_n cc)) (data0 + (int_of_n cc - 2) * cs) cs
        | None -> ());
       Printf.sprintf "%s | %s | %s" res (vstate_s ())
         (match !problem with Some p -> p | None -> Printf.sprintf "same %d" !compared))
  | ["vend"] ->
    let (fat0, root, fatb, nf, data0, cs, total) = geom_ints () in
    let content = VolFile.decode_file !vg !dim (VolFile.first_field !vh)
        (match FileM.h_size !vh with Some s -> s | None -> N0) in
    let ext = match VolFile.vol_extents !vg ((!mim, !vfi), !vh) with
      | Base.Ok l -> if l = [] then "-" else String.concat " " (Stdlib.List.map (fun (o, s) -> string_of_n o ^ ":" ^ string_of_n s) l)
      | _ -> "?" in
    let problem = ref None in
    let compared = ref 0 in
    let check what off len =
      if !problem = None then begin
        compared := !compared + len;
        match diff_range off len with Some o -> problem := Some (describe_diff what o) | None -> ()
      end in
    check "FAT region" fat0 (root - fat0);
    Stdlib.List.iter (fun c -> check (Printf.sprintf "cluster %d" c) (data0 + (c - 2) * cs) cs) (chain_of !mim !vh);
    Printf.sprintf "ok %s | %s | %s" (hex_of_bytes content) ext
      (match !problem with Some p -> p | None -> Printf.sprintf "same %d" !compared)
  | "vranges" :: rest ->
    let rs = Stdlib.List.filter_map (fun s ->
        match String.index_opt s ':' with
        | Some i -> Some (n_of_string (String.sub s 0 i), n_of_string (String.sub s (i + 1) (String.length s - i - 1)))
        | None -> None) rest in
    "ok " ^ hex_of_bytes (VolFile.read_ranges !dim rs)
  | _ -> "bad"
