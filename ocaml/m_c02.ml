(* model runner for C02 (mode "c02"): replays a single-file history on the extracted Model/FileM.v over the pure
   FAT store (Table.pfat/pget/pset).  One input line -> one output line:
   "new <cluster_size> <total_clusters>"   fresh volume (every data cluster free, no cached free count, no hint:
                                           what a FAT12/16 mount starts from) and ONE empty file -> "ok | <state>"
   "use <i>"              switch to open file number i (a new empty file the first time) -> "ok | <state>";
                          all files share the world (FAT, free count, data area), as handles of one FileSystem do
   "stats"                FileSystem::stats (caches the free count) -> "ok <free> | <state>"
   "write <hex>"          one File::write   -> "ok <count> | <state>"
   "read <n>"             one File::read    -> "ok <hex|-> | <state>"
   "seek start|end|cur <off>"               -> "ok <pos> | <state>"      (<off> decimal, may be negative)
   "truncate"                               -> "ok | <state>"
   "extents"              File::extents     -> "ok <cluster>:<size> ... | <state>"
   "state"                                  -> "ok | <state>"
   failures: "err <Variant> | <state>", "panic | <state>", "fuel | <state>" (state unchanged).
   <state> = "<offset> <size|-> <first|-> <current|-> <chain clusters from first, comma separated|-> <cached free|-> <hint|->" *)
open Conv

let cs = ref (n_of_int 512)
let total = ref (n_of_int 16)
let fresh_world () : Table.pfat FileM.fworld =
  { FileM.w_fat = (fun _ -> Table.Free);
    FileM.w_fi = { Table.fi_free = None; Table.fi_next = None; Table.fi_dirty = false };
    FileM.w_data = (fun _ -> []) }
let fresh_handle () : FileM.fhandle =
  FileM.file_new None (Some { FileM.ed_first = None; FileM.ed_size = Some (n_of_int 0); FileM.ed_dirty = false })
let w = ref (fresh_world ())
let h = ref (fresh_handle ())
let others : (int, FileM.fhandle) Hashtbl.t = Hashtbl.create 8
let cur = ref 0

let opt_s (o : BinNums.coq_N option) = match o with Some n -> string_of_n n | None -> "-"

let chain_s () : string =
  match !h.FileM.h_first with
  | None -> "-"
  | Some f ->
    let rec go c fuel acc =
      if fuel = 0 then Stdlib.List.rev ("..." :: acc)
      else match !w.FileM.w_fat c with
        | Table.Data n -> go n (fuel - 1) (string_of_n c :: acc)
        | _ -> Stdlib.List.rev (string_of_n c :: acc) in
    String.concat "," (go f (int_of_n !total + 2) [])

let state_s () : string =
  Printf.sprintf "%s %s %s %s %s %s %s" (string_of_n !h.FileM.h_off) (opt_s (FileM.h_size !h)) (opt_s !h.FileM.h_first)
    (opt_s !h.FileM.h_cur) (chain_s ()) (opt_s !w.FileM.w_fi.Table.fi_free) (opt_s !w.FileM.w_fi.Table.fi_next)

let z_of_string (s : string) : BinNums.coq_Z =
  if String.length s > 0 && s.[0] = '-' then FileM.z_of_sign true (n_of_string (String.sub s 1 (String.length s - 1)))
  else FileM.z_of_sign false (n_of_string s)

let finish (r : 'a Base.res) (f : 'a -> string) : string =
  let s = match r with
    | Base.Ok a -> f a
    | Base.Err e -> "err " ^ err_name e
    | Base.Panic -> "panic"
    | Base.OutOfFuel -> "fuel" in
  s ^ " | " ^ state_s ()

let line (t : string list) : string =
  match t with
  | ["new"; c; n] ->
    cs := n_of_string c; total := n_of_string n;
    let zero = Stdlib.List.init (int_of_n !cs) (fun _ -> n_of_int 0) in
    w := { (fresh_world ()) with FileM.w_data = (fun _ -> zero) };
    h := fresh_handle (); Hashtbl.reset others; cur := 0;
    "ok | " ^ state_s ()
  | ["use"; i] ->
    let i = int_of_string i in
    Hashtbl.replace others !cur !h;
    h := (match Hashtbl.find_opt others i with Some x -> x | None -> fresh_handle ());
    cur := i;
    "ok | " ^ state_s ()
  | ["write"; hx] ->
    finish (FileM.file_write Table.pget Table.pset !cs !total !w !h (bytes_of_hex hx))
      (fun ((w', h'), k) -> w := w'; h := h'; "ok " ^ string_of_n k)
  | ["read"; n] ->
    finish (FileM.file_read Table.pget !cs !w !h (n_of_string n))
      (fun ((w', h'), bs) -> w := w'; h := h'; "ok " ^ hex_of_bytes bs)
  | ["seek"; wh; off] ->
    let pos = match wh with
      | "start" -> FileM.FromStart (n_of_string off)
      | "end" -> FileM.FromEnd (z_of_string off)
      | _ -> FileM.FromCurrent (z_of_string off) in
    finish (FileM.file_seek Table.pget !cs !w !h pos)
      (fun ((w', h'), p) -> w := w'; h := h'; "ok " ^ string_of_n p)
  | ["truncate"] ->
    finish (FileM.file_truncate Table.pget Table.pset !total !w !h) (fun (w', h') -> w := w'; h := h'; "ok")
  | ["extents"] ->
    finish (FileM.file_extents Table.pget !cs !total !w !h)
      (fun l -> String.concat " " ("ok" :: Stdlib.List.map (fun (c, s) -> string_of_n c ^ ":" ^ string_of_n s) l))
  | ["stats"] ->
    finish (Table.fs_stats Table.pget !w.FileM.w_fat !w.FileM.w_fi !total)
      (fun (fi', n) -> w := { !w with FileM.w_fi = fi' }; "ok " ^ string_of_n n)
  | ["state"] -> "ok | " ^ state_s ()
  | _ -> "bad"
