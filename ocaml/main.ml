(* fatfs-model: runs the extracted Coq model / spec.  Usage: main.exe <mode>; one line in, one line out
   (modes that consume whole transcripts read until EOF). *)
let () =
  let mode = if Array.length Sys.argv > 1 then Sys.argv.(1) else "" in
  let per_line (f : string list -> string) =
    (try
       while true do
         let l = input_line stdin in
         let t = Conv.split_ws l in
         if t <> [] then print_endline (f t)
       done
     with End_of_file -> ())
  in
  match mode with
  | "c18" -> per_line M_c18.line
  | "c18s" -> per_line M_c18.sline
  | "c10" -> per_line M_c10.line
  | "judge" -> Judge.main (Array.to_list (Array.sub Sys.argv 2 (Array.length Sys.argv - 2)))
  | "c17" -> per_line M_c17.line
  | "c17u" -> per_line M_c17.uline
  | "c17e" -> per_line M_c17.eline
  | "c07" -> per_line M_c07.line
  | "c06" -> per_line M_c06.line
  | "c06v" -> per_line M_c06.vline
  | "c06g" -> per_line M_c06.gline
  | "c06i" -> per_line M_c06.iline
  | "c06ix" -> per_line M_c06.ixline
  | "c15" -> per_line M_c15.line
  | "c02" -> per_line M_c02.line
  | "c02v" -> per_line M_c02.vline
  | "cdir" -> per_line M_cdir.line
  | "cvol" -> per_line M_cvol.line
  | "csess" -> per_line M_csess.line
  | "csess2" -> per_line M_csess2.line
  | "cfsinfo" -> per_line M_cfsinfo.line
  | _ -> prerr_endline ("unknown mode " ^ mode); exit 2
