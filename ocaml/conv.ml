(* Conversions between OCaml values and the extracted Coq data types. *)
open BinNums

let rec pos_of_int (i : int) : positive =
  if i <= 1 then Coq_xH
  else if i land 1 = 1 then Coq_xI (pos_of_int (i lsr 1))
  else Coq_xO (pos_of_int (i lsr 1))

let n_of_int (i : int) : coq_N = if i <= 0 then N0 else Npos (pos_of_int i)

let rec int_of_pos (p : positive) : int =
  match p with
  | Coq_xH -> 1
  | Coq_xO q -> 2 * int_of_pos q
  | Coq_xI q -> 2 * int_of_pos q + 1

let int_of_n (n : coq_N) : int = match n with N0 -> 0 | Npos p -> int_of_pos p

(* decimal strings for values that may exceed 62 bits are not needed: all model values are < 2^62 *)
let n_of_string (s : string) : coq_N = n_of_int (int_of_string s)
let string_of_n (n : coq_N) : string = string_of_int (int_of_n n)

let rec nat_of_int (i : int) : Datatypes.nat = if i <= 0 then Datatypes.O else Datatypes.S (nat_of_int (i - 1))

let bytes_of_hex (s : string) : coq_N list =
  if s = "-" then []
  else begin
    let n = String.length s / 2 in
    let rec go i acc = if i < 0 then acc else go (i - 1) (n_of_int (int_of_string ("0x" ^ String.sub s (2 * i) 2)) :: acc) in
    go (n - 1) []
  end

let hex_of_bytes (l : coq_N list) : string =
  if l = [] then "-"
  else String.concat "" (Stdlib.List.map (fun b -> Printf.sprintf "%02x" (int_of_n b)) l)

let words_of_hex16 (s : string) : coq_N list =
  if s = "-" then []
  else begin
    let n = String.length s / 4 in
    let rec go i acc = if i < 0 then acc else go (i - 1) (n_of_int (int_of_string ("0x" ^ String.sub s (4 * i) 4)) :: acc) in
    go (n - 1) []
  end

let hex16_of_words (l : coq_N list) : string =
  if l = [] then "-"
  else String.concat "" (Stdlib.List.map (fun b -> Printf.sprintf "%04x" (int_of_n b)) l)

let split_ws (s : string) : string list =
  Stdlib.List.filter (fun x -> x <> "") (String.split_on_char ' ' s)

let err_name (e : Base.error) : string =
  match e with
  | Base.EIo -> "Io" | Base.EUnexpectedEof -> "UnexpectedEof" | Base.EWriteZero -> "WriteZero"
  | Base.EInvalidInput -> "InvalidInput" | Base.ENotFound -> "NotFound" | Base.EAlreadyExists -> "AlreadyExists"
  | Base.EDirectoryIsNotEmpty -> "DirectoryIsNotEmpty" | Base.ECorruptedFileSystem -> "CorruptedFileSystem"
  | Base.ENotEnoughSpace -> "NotEnoughSpace" | Base.EInvalidFileNameLength -> "InvalidFileNameLength"
  | Base.EUnsupportedFileNameCharacter -> "UnsupportedFileNameCharacter"
