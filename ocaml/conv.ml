(* Conversions between OCaml values and the extracted Coq data types. *)
open BinNums

let rec pos_of_int (i : int) : positive =
  if i <= 1 then Coq_xH
  else if i land 1 = 1 then Coq_xI (pos_of_int (i lsr 1))
  else Coq_xO (pos_of_int (i lsr 1))

let n_of_int (i : int) : coq_N = if i <= 0 then N0 else Npos (pos_of_int i)

let rec int_of_pos (p : positive) : int =
  match p with
  | Coq_xH -> 1
  | Coq_xO q -> 2 * int_of_pos q
  | Coq_xI q -> 2 * int_of_pos q + 1

let int_of_n (n : coq_N) : int = match n with N0 -> 0 | Npos p -> int_of_pos p

(* decimal strings for values that may exceed 62 bits are not needed: all model values are < 2^62 *)
(* arbitrary-size decimal conversion through Coq's own N arithmetic *)
let n_of_string (s : string) : coq_N =
  if String.length s <= 17 then n_of_int (int_of_string s)
  else begin
    let acc = ref N0 in
    String.iter (fun c -> acc := BinNat.N.add (BinNat.N.mul !acc (n_of_int 10)) (n_of_int (Char.code c - 48))) s;
    !acc
  end
let rec string_of_n (n : coq_N) : string =
  match BinNat.N.compare n (n_of_int 1000000000000000) with
  | Datatypes.Lt -> string_of_int (int_of_n n)
  | _ ->
    let q = BinNat.N.div n (n_of_int 1000000000) and r = BinNat.N.modulo n (n_of_int 1000000000) in
    string_of_n q ^ Printf.sprintf "%09d" (int_of_n r)

let rec nat_of_int (i : int) : Datatypes.nat = if i <= 0 then Datatypes.O else Datatypes.S (nat_of_int (i - 1))

let bytes_of_hex (s : string) : coq_N list =
  if s = "-" then []
  else begin
    let n = String.length s / 2 in
    let rec go i acc = if i < 0 then acc else go (i - 1) (n_of_int (int_of_string ("0x" ^ String.sub s (2 * i) 2)) :: acc) in
    go (n - 1) []
  end

let hex_of_bytes (l : coq_N list) : string =
  if l = [] then "-"
  else String.concat "" (Stdlib.List.map (fun b -> Printf.sprintf "%02x" (int_of_n b)) l)

let words_of_hex16 (s : string) : coq_N list =
  if s = "-" then []
  else begin
    let n = String.length s / 4 in
    let rec go i acc = if i < 0 then acc else go (i - 1) (n_of_int (int_of_string ("0x" ^ String.sub s (4 * i) 4)) :: acc) in
    go (n - 1) []
  end

let hex16_of_words (l : coq_N list) : string =
  if l = [] then "-"
  else String.concat "" (Stdlib.List.map (fun b -> Printf.sprintf "%04x" (int_of_n b)) l)

let split_ws (s : string) : string list =
  Stdlib.List.filter (fun x -> x <> "") (String.split_on_char ' ' s)

let err_name (e : Base.error) : string =
  match e with
  | Base.EIo -> "Io" | Base.EUnexpectedEof -> "UnexpectedEof" | Base.EWriteZero -> "WriteZero"
  | Base.EInvalidInput -> "InvalidInput" | Base.ENotFound -> "NotFound" | Base.EAlreadyExists -> "AlreadyExists"
  | Base.EDirectoryIsNotEmpty -> "DirectoryIsNotEmpty" | Base.ECorruptedFileSystem -> "CorruptedFileSystem"
  | Base.ENotEnoughSpace -> "NotEnoughSpace" | Base.EInvalidFileNameLength -> "InvalidFileNameLength"
  | Base.EUnsupportedFileNameCharacter -> "UnsupportedFileNameCharacter"

let error_of_name (s : string) : Base.error option =
  match s with
  | "Io" -> Some Base.EIo | "UnexpectedEof" -> Some Base.EUnexpectedEof | "WriteZero" -> Some Base.EWriteZero
  | "InvalidInput" -> Some Base.EInvalidInput | "NotFound" -> Some Base.ENotFound | "AlreadyExists" -> Some Base.EAlreadyExists
  | "DirectoryIsNotEmpty" -> Some Base.EDirectoryIsNotEmpty | "CorruptedFileSystem" -> Some Base.ECorruptedFileSystem
  | "NotEnoughSpace" -> Some Base.ENotEnoughSpace | "InvalidFileNameLength" -> Some Base.EInvalidFileNameLength
  | "UnsupportedFileNameCharacter" -> Some Base.EUnsupportedFileNameCharacter
  | _ -> None

(* to_uppercase table: lines "<cp> <u1> [<u2> <u3>]" *)
let upper_tbl : (int, coq_N list) Hashtbl.t = Hashtbl.create 2048
let load_upper (path : string) : unit =
  let ic = open_in path in
  (try
     while true do
       let l = input_line ic in
       match split_ws l with
       | cp :: ups -> Hashtbl.replace upper_tbl (int_of_string cp) (Stdlib.List.map n_of_string ups)
       | [] -> ()
     done
   with End_of_file -> ());
  close_in ic
let upper (c : coq_N) : coq_N list =
  match Hashtbl.find_opt upper_tbl (int_of_n c) with Some l -> l | None -> [c]
let oem_lossy (b : coq_N) : coq_N = if int_of_n b <= 127 then b else n_of_int 0xFFFD
let oem_table (b : coq_N) : coq_N = let i = int_of_n b in if i <= 127 then b else n_of_int (0x100 + i - 0x80)
