(* model runner for C07 (mode "c07"): one input line -> one output line.

   full form      "<strict 0/1> <boot sector hex> <fs-info sector hex | ->"
   compact form   "img <devlen> <off>:<hex> <off>:<hex> ..."   sets the base image (rest = 0), answers "ok"
                  "p <strict 0/1> <off>:<hex>,<off>:<hex>,... | - [devlen]"   base image with these bytes poked:
                     boot sector = device bytes [0,512), FS-info bytes = device bytes at the extracted
                     [Bpb.fsinfo_offset] of the poked boot sector (cut at the device end)
   output         "<debug outcome> | <release outcome> | <coherent 0/1> <spec bits> <spec cluster size> <spec clusters>"
   outcome        "ok <fatbits> <cluster_size> <total_clusters> <free|-> <next|-> <first_data_sector>
                      <root_dir_sectors> <dirty> <io_error> <volume_id>"  |  "err <Variant>"  |  "panic" | "fuel"
   the third part is the extracted specification (Spec/BpbSpec.v) evaluated on the same boot sector bytes. *)
open Conv

let ntab : BinNums.coq_N array = Array.init 256 n_of_int

let rec int_of_z (z : BinNums.coq_Z) : int =
  match z with
  | BinNums.Z0 -> 0
  | BinNums.Zpos p -> int_of_pos p
  | BinNums.Zneg p -> - (int_of_pos p)

let outcome (r : Bpb.mounted Base.res) : string =
  match r with
  | Base.Ok g ->
    let o = function None -> "-" | Some n -> string_of_n n in
    let bits = match g.Bpb.m_fat_type with Bpb.Fat12 -> 12 | Bpb.Fat16 -> 16 | Bpb.Fat32 -> 32 in
    Printf.sprintf "ok %d %s %s %s %s %s %s %d %d %s" bits (string_of_n g.Bpb.m_cluster_size)
      (string_of_n g.Bpb.m_total_clusters) (o g.Bpb.m_free) (o g.Bpb.m_next)
      (string_of_n g.Bpb.m_first_data_sector) (string_of_n g.Bpb.m_root_dir_sectors)
      (if g.Bpb.m_dirty then 1 else 0) (if g.Bpb.m_io_error then 1 else 0) (string_of_n g.Bpb.m_volume_id)
  | Base.Err e -> "err " ^ err_name e
  | Base.Panic -> "panic"
  | Base.OutOfFuel -> "fuel"

let judge (strict : bool) (bs : BinNums.coq_N list) (fsi : BinNums.coq_N list) : string =
  let d = outcome (Bpb.mount Bpb.Debug bs fsi strict) in
  let r = outcome (Bpb.mount Bpb.Release bs fsi strict) in
  let ((bits, cs), cnt) = BpbSpec.spec_geometry bs in
  Printf.sprintf "%s | %s | %d %d %d %d" d r (if BpbSpec.coherentb bs then 1 else 0)
    (int_of_z bits) (int_of_z cs) (int_of_z cnt)

(* compact form: sparse base image *)
let base : (int, int) Hashtbl.t = Hashtbl.create 4096
let devlen = ref 0

let parse_chunk (s : string) : int * string =
  match String.index_opt s ':' with
  | Some i -> (int_of_string (String.sub s 0 i), String.sub s (i + 1) (String.length s - i - 1))
  | None -> failwith "chunk"

let hexbyte (h : string) (i : int) : int = int_of_string ("0x" ^ String.sub h (2 * i) 2)

let line (t : string list) : string =
  match t with
  | "img" :: len :: chunks ->
    Hashtbl.reset base;
    devlen := int_of_string len;
    Stdlib.List.iter (fun c ->
        let (off, h) = parse_chunk c in
        for i = 0 to String.length h / 2 - 1 do
          let b = hexbyte h i in
          if b <> 0 then Hashtbl.replace base (off + i) b
        done) chunks;
    "ok"
  | "p" :: strict :: pokes :: rest ->
    let dl = (match rest with [l] -> int_of_string l | _ -> !devlen) in
    let pk : (int, int) Hashtbl.t = Hashtbl.create 16 in
    if pokes <> "-" then
      Stdlib.List.iter (fun c ->
          let (off, h) = parse_chunk c in
          for i = 0 to String.length h / 2 - 1 do Hashtbl.replace pk (off + i) (hexbyte h i) done)
        (String.split_on_char ',' pokes);
    let get (i : int) : int =
      match Hashtbl.find_opt pk i with
      | Some b -> b
      | None -> (match Hashtbl.find_opt base i with Some b -> b | None -> 0) in
    let range (off : int) (n : int) : BinNums.coq_N list =
      let hi = min (off + n) dl in
      let rec go i acc = if i < off then acc else go (i - 1) (ntab.(get i) :: acc) in
      if off >= hi then [] else go (hi - 1) [] in
    let bs = range 0 512 in
    let off = int_of_n (Bpb.fsinfo_offset bs) in
    judge (strict = "1") bs (range off 512)
  | [strict; bs; fsi] ->
    judge (strict = "1") (bytes_of_hex bs) (bytes_of_hex fsi)
  | _ -> "bad"
