(* model runner for SEVERAL FILES PER SESSION on a whole device image (Model/VolSession2.v: k handles created by create_file in
   the fixed root of one FAT12/16 image, calls on the handles in any interleaving under a scripted clock, File::flush / drop
   of the handles in any order), mode "csess2": one input line -> one output line.  As in mode csess (m_csess.ml, whose image
   pair, comparison and decode functions are reused) [M_csess.mim] is the MODEL's image, produced only by extracted Coq
   functions, and [M_csess.dim] the DEVICE: the same formatted image advanced only by the library's own logged writes.
   "upper <file>" / "fmt ..." / "digest" / "decp ..." / "dec" / "decm" / "sync m|x | <writes>"   as in mode csess
   "create <name hex> <y m d h mi s ms> | <off>:<hex> ..."   VolSession2.s2_create (create_file while other handles are open)
        -> "ok <handle index> <slot> | <states> | <cmp>"  |  "none | <states> | <cmp>"
   "step <i> <y m d h mi s ms> <op ...> | <off>:<hex> ..."   VolSession2.s2_step (SOp i op now)
        -> "<result> | <states> | <cmp>"   (result "skip" when handle i does not exist)
   "flush <i> | <off>:<hex> ..."               VolSession2.s2_step (SFlush i): File::flush on handle i, or its drop
        -> "ok <dirty before 0|1> | <states> | <cmp>"
   "decf" / "decfd"                            Spec/Abs.abs of the DEVICE image / of the device image as of the library's last
                                               device flush [ddur], root nodes only (no well-formedness pass)
        -> "<nodes> <root issues> : <lfn u16 hex|->,<size>,<cluster>,<chain len|x>,<content hex|->;..."
   The event tokens after "|" are the library's device events of the call IN ORDER: "<off>:<hex>" a write, "F" a device flush.
   Two more images are kept: [dur] = the extracted VolSession2.s2_durable, applied step by step (the model image right after
   its last flush / drop step), [ddur] = the device image as of the last device flush the library issued.  Every create / step / flush /
   sync answer ends with " | <durable cmp>": the whole-image comparison of the two (status byte masked like <cmp>).
   states = "<offset> <size|-> <first|-> <dirty 0|1>" per handle, joined by ";" *)
open Conv

let st : VolSession2.s2state ref =
  ref { VolSession2.s2_im = Image.img_empty BinNums.N0;
        VolSession2.s2_fi = { Table.fi_free = None; Table.fi_next = None; Table.fi_dirty = false };
        VolSession2.s2_hs = [] }
let dur : Image.image ref = ref (Image.img_empty BinNums.N0)
let ddur : Image.image ref = ref (Image.img_empty BinNums.N0)

(* the library's device events of one call, in order *)
let apply_events (wr : string list) : unit =
  Stdlib.List.iter (fun tok -> if tok = "F" then ddur := !M_csess.dim else M_csess.apply_writes [tok]) wr

let cmp_durable (mask : int) : string = M_csess.compare_two !dur !ddur mask

let decode_light (im : Image.image) : string =
  let v = Abs.abs im in
  let ents = Stdlib.List.map (fun n ->
      let e = Abs.node_entry n in
      let (cl, content) = match n with
        | Abs.NFile (_, Some l, c) -> (string_of_int (Stdlib.List.length l), hex_of_bytes c)
        | Abs.NFile (_, None, c) -> ("x", hex_of_bytes c)
        | _ -> ("d", "-") in
      Printf.sprintf "%s,%s,%s,%s,%s" (hex16_of_words e.Abs.e_lfn) (string_of_n e.Abs.e_size) (string_of_n e.Abs.e_cluster) cl
        (if content = "" then "-" else content)) v.Abs.v_root in
  Printf.sprintf "%d %d : %s" (Stdlib.List.length v.Abs.v_root) (Stdlib.List.length v.Abs.v_root_issues) (String.concat ";" ents)

let states_s () : string =
  match (!st).VolSession2.s2_hs with
  | [] -> "-"
  | hs ->
    String.concat ";" (Stdlib.List.map (fun x ->
        let h = x.VolSession2.sh_h in
        Printf.sprintf "%s %s %s %d" (string_of_n h.FileM.h_off) (M_csess.opt_s (FileM.h_size h)) (M_csess.opt_s h.FileM.h_first)
          (if VolSession2.s2_dirty x then 1 else 0)) hs)

let cmp (mask : int) : string =
  M_csess.mim := (!st).VolSession2.s2_im;
  M_csess.compare_two !M_csess.mim !M_csess.dim mask

let line (t : string list) : string =
  match t with
  | "fmt" :: _ ->
    let r = M_csess.line t in
    st := { VolSession2.s2_im = !M_csess.mim; VolSession2.s2_fi = !M_csess.fi; VolSession2.s2_hs = [] };
    dur := !M_csess.mim; ddur := !M_csess.mim;
    r
  | "create" :: name :: y :: m :: d :: h :: mi :: s :: ms :: rest ->
    let (_, wr) = M_csess.split_bar [] rest in
    apply_events wr;
    (match VolSession2.s2_create M_csess.upper M_csess.oem !st (M_csess.name_of_hex name) (M_c18.mkdt y m d h mi s ms) with
     | Some s1 ->
       st := s1;
       let k = Stdlib.List.length s1.VolSession2.s2_hs - 1 in
       let x = Stdlib.List.nth s1.VolSession2.s2_hs k in
       Printf.sprintf "ok %d %s | %s | %s | %s" k (string_of_n x.VolSession2.sh_en.VolSession.en_slot) (states_s ())
         (cmp (M_csess.status_off ())) (cmp_durable (M_csess.status_off ()))
     | None -> Printf.sprintf "none | %s | %s | %s" (states_s ()) (cmp (M_csess.status_off ())) (cmp_durable (M_csess.status_off ())))
  | "step" :: i :: y :: m :: d :: h :: mi :: s :: ms :: rest ->
    let (opt, wr) = M_csess.split_bar [] rest in
    let op = match opt with
      | ["write"; hx] -> Some (FileM.FWrite (bytes_of_hex hx))
      | ["read"; n] -> Some (FileM.FRead (n_of_string n))
      | ["seek"; "start"; off] -> Some (FileM.FSeek (FileM.FromStart (n_of_string off)))
      | ["seek"; "end"; off] -> Some (FileM.FSeek (FileM.FromEnd (M_c02.z_of_string off)))
      | ["seek"; "cur"; off] -> Some (FileM.FSeek (FileM.FromCurrent (M_c02.z_of_string off)))
      | ["truncate"] -> Some FileM.FTruncate
      | _ -> None in
    (match op with
     | Some op ->
       apply_events wr;
       let sop = VolSession2.SOp (nat_of_int (int_of_string i), op, M_c18.mkdt y m d h mi s ms) in
       let (s1, r) = VolSession2.s2_step !M_csess.g !M_csess.acc !st sop in
       dur := VolSession2.s2_durable !M_csess.g !M_csess.acc !st !dur [sop];
       st := s1;
       Printf.sprintf "%s | %s | %s | %s" (match r with Some r -> M_csess.res_s r | None -> "skip") (states_s ())
         (cmp (M_csess.status_off ())) (cmp_durable (M_csess.status_off ()))
     | None -> "bad")
  | "flush" :: i :: rest ->
    let (_, wr) = M_csess.split_bar [] rest in
    apply_events wr;
    let k = int_of_string i in
    let dirty = match Stdlib.List.nth_opt (!st).VolSession2.s2_hs k with
      | Some x -> if VolSession2.s2_dirty x then 1 else 0
      | None -> -1 in
    let (s1, _) = VolSession2.s2_step !M_csess.g !M_csess.acc !st (VolSession2.SFlush (nat_of_int k)) in
    dur := VolSession2.s2_durable !M_csess.g !M_csess.acc !st !dur [VolSession2.SFlush (nat_of_int k)];
    st := s1;
    Printf.sprintf "ok %d | %s | %s | %s" dirty (states_s ()) (cmp (M_csess.status_off ())) (cmp_durable (M_csess.status_off ()))
  | "sync" :: how :: rest ->
    let (_, wr) = M_csess.split_bar [] rest in
    apply_events wr;
    (* a call the model does nothing for: when it flushed the device (a second flush, a drop after a flush, unmount) the
       session's image - unchanged - is the durable one *)
    if Stdlib.List.mem "F" wr then dur := (!st).VolSession2.s2_im;
    let mask = if how = "m" then M_csess.status_off () else -1 in
    Printf.sprintf "ok | %s | %s | %s" (states_s ()) (cmp mask) (cmp_durable (M_csess.status_off ()))
  | ["decf"] -> decode_light !M_csess.dim
  | ["decfd"] -> decode_light !ddur
  | ["decm"] -> M_csess.mim := (!st).VolSession2.s2_im; M_csess.decode !M_csess.mim
  | ["digest"] -> M_csess.mim := (!st).VolSession2.s2_im; M_csess.line t
  | _ -> M_csess.line t
