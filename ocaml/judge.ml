(* judge: replays an executor transcript (stdin) against the extracted specification:
   - keeps the raw image up to date from the logged device writes,
   - after every operation evaluates the independent decoder (Spec/Abs), the structural invariants
     (Spec/Wf) and the abstract tree/file machine (Spec/Tree),
   and prints one line per finding.  Output (one script after another):
     S <script#>
     O <op#> ok|skip|bad <code>          verdict of Tree.tree_step for the implementation's outcome
     W <op#> <issue> ...                 violated structural clauses after this op
     M <op#>                             decoded image differs from the abstract tree
     I <op#> rootroom=<slots|-1> free=<n> copies=<0|1> status=<byte> fsfree=<n> fsnext=<n> bits=<n> clusters=<n> res0=<raw,..> res1=<raw,..>
                                        (res0/res1: raw FAT entries 0 and 1 of every copy)
     X <op#> <text>                      judge could not interpret the transcript line
*)
open Conv
open BinNums

type opblock = { toks : string list; mutable rkind : string; mutable rpayload : string;
                 mutable elines : string list list; mutable events : string list list }

let read_transcript () : opblock list list =
  let scripts = ref [] and cur = ref [] and blk = ref None in
  let flush_script () = scripts := Stdlib.List.rev !cur :: !scripts; cur := []; blk := None in
  (try
     while true do
       let l = input_line stdin in
       if l = "---" then flush_script ()
       else if String.length l > 0 then begin
         match l.[0] with
         | '>' ->
           (match String.split_on_char ' ' l with
            | _ :: _ :: rest ->
              let b = { toks = rest; rkind = ""; rpayload = ""; elines = []; events = [] } in
              blk := Some b; cur := b :: !cur
            | _ -> ())
         | 'r' ->
           (match !blk with
            | Some b when b.rkind = "" ->
              (match String.split_on_char ' ' l with
               | _ :: k :: rest -> b.rkind <- k; b.rpayload <- String.concat " " rest
               | _ -> ())
            | _ -> ())
         | 'e' -> (match !blk with Some b -> b.elines <- b.elines @ [Stdlib.List.tl (String.split_on_char ' ' l)] | None -> ())
         | 'w' | 'f' | 'x' | 'c' | 'b' -> (match !blk with Some b -> b.events <- String.split_on_char ' ' l :: b.events | None -> ())
         | _ -> ()
       end
     done
   with End_of_file -> ());
  flush_script ();
  Stdlib.List.rev !scripts

let str_of_hex (h : string) : coq_N list = Str.utf8_decode (bytes_of_hex h)

let issue_name (i : Wf.issue) : string =
  let s = string_of_n in
  match i with
  | Wf.WOrphanLfn (d, k) -> Printf.sprintf "OrphanLfn(%s,%s)" (s d) (s k)
  | Wf.WAfterEnd (d, k) -> Printf.sprintf "AfterEnd(%s,%s)" (s d) (s k)
  | Wf.WChainBroken c -> "ChainBroken(" ^ s c ^ ")"
  | Wf.WCrossLink c -> "CrossLink(" ^ s c ^ ")"
  | Wf.WLost c -> "Lost(" ^ s c ^ ")"
  | Wf.WSizeChain (c, sz, l) -> Printf.sprintf "SizeChain(%s,%s,%s)" (s c) (s sz) (s l)
  | Wf.WEmptyOwns c -> "EmptyOwns(" ^ s c ^ ")"
  | Wf.WSizeNoCluster sz -> "SizeNoCluster(" ^ s sz ^ ")"
  | Wf.WDirNoCluster -> "DirNoCluster"
  | Wf.WDot c -> "Dot(" ^ s c ^ ")"
  | Wf.WDotDot c -> "DotDot(" ^ s c ^ ")"
  | Wf.WDupShort c -> "DupShort(" ^ s c ^ ")"
  | Wf.WDupLong c -> "DupLong(" ^ s c ^ ")"
  | Wf.WDepth -> "Depth"
  | Wf.WRootChain -> "RootChain"

let fold_units (us : coq_N list) : coq_N list =
  (* case folding of a long name given as UTF-16 units: the extracted Spec/WfFold.wf_fold with the loaded table - the
     very term Proofs/DupLongProofs.wf_fold_agrees relates to the library's matching (eq_name_lfn with the same table) *)
  WfFold.wf_fold upper us

(* locate the abs children of the directory whose abstract node id is [d] *)
let rec names_to_root (s : Tree.tstate) (d : coq_N) (acc : coq_N list list) : coq_N list list =
  if int_of_n d = 0 then acc
  else match Tree.find_node s d with
    | Some n -> names_to_root s n.Tree.t_parent (n.Tree.t_name :: acc)
    | None -> acc

let rec abs_dir_children (ns : Abs.node list) (path : coq_N list list) : Abs.node list option =
  match path with
  | [] -> Some ns
  | name :: rest ->
    let u = Str.utf16_encode name in
    let rec find = function
      | [] -> None
      | Abs.NDir (e, _, ch, _, _) :: _ when e.Abs.e_lfn = u -> abs_dir_children ch rest
      | _ :: r -> find r in
    find ns

let find_alias (v : Abs.volume) (s : Tree.tstate) (d : coq_N) (name : coq_N list) : coq_N list =
  match abs_dir_children v.Abs.v_root (names_to_root s d []) with
  | None -> []
  | Some ch ->
    let u = Str.utf16_encode name in
    let rec find = function
      | [] -> []
      | n :: r -> let e = Abs.node_entry n in if e.Abs.e_lfn = u then e.Abs.e_sfn else find r in
    find ch

let pattern (n : int) (seed : int) : coq_N list =
  Stdlib.List.init n (fun i -> n_of_int ((seed + i * 7 + i / 251) mod 256))

let run_script (si : int) (ops : opblock list) (do_wf : bool) (do_tree : bool) (do_info : bool) (do_regions : bool) (sparse_info : bool) (do_crash : bool) (crash_stride : int) (sparse_wf : bool) : unit =
  Printf.printf "S %d\n" si;
  let im = ref (Image.img_empty N0) in
  let ts = ref Tree.ts_init in
  let formatted = ref false in
  let oem = ref oem_lossy in
  let stop = ref false in
  (* C14: facts established by a successful flush/drop: (node id, names from the root, content) *)
  let facts : (coq_N * coq_N list list * coq_N list) list ref = ref [] in
  let crash_checks = ref 0 in
  (* the image as of the last device flush (write-back cache that honours flush): what survives a power cut that
     loses every write issued after that flush *)
  let durable = ref (Image.img_empty N0) in
  let check_facts_on (image : Image.image) (which : (coq_N * coq_N list list * coq_N list) list) oi wi =
    if which <> [] then begin
      let v = Abs.abs image in
      Stdlib.List.iter (fun (_, path, content) ->
        incr crash_checks;
        let rec split = function [] -> ([], []) | [x] -> ([], x) | x :: r -> let (a, b) = split r in (x :: a, b) in
        let (dirs, name) = split path in
        let found =
          match abs_dir_children v.Abs.v_root dirs with
          | None -> false
          | Some ch ->
            let u = Str.utf16_encode name in
            Stdlib.List.exists (fun n -> match n with
              | Abs.NFile (e, _, c) -> e.Abs.e_lfn = u && c = content
              | _ -> false) ch in
        if not found then
          Printf.printf "C %d %d %s\n" oi wi (hex_of_bytes (Str.utf8_encode (Stdlib.List.concat (Stdlib.List.map (fun x -> n_of_int 47 :: x) path))))
      ) which
    end in
  let check_facts oi wi = check_facts_on !im !facts oi wi in
  Stdlib.List.iteri (fun oi b ->
    if not !stop then begin
      (* 0. classification of the writes of this op against the volume as it was before the op *)
      if do_regions && !formatted && Stdlib.List.exists (fun ev -> match ev with "w" :: _ -> true | _ -> false) b.events then begin
        let vpre = Abs.abs !im in
        let g = vpre.Abs.v_geom in
        let own = Regions.owners vpre in
        let own_name = function
          | Regions.OFree -> "free:0" | Regions.OBad -> "bad:0" | Regions.OUnowned -> "unowned:0"
          | Regions.ODir f -> "dir:" ^ string_of_n f | Regions.OFile f -> "file:" ^ string_of_n f in
        let reg_name = function
          | Regions.RStatus -> "status" | Regions.RBoot -> "boot" | Regions.RFsInfo -> "fsinfo"
          | Regions.RFat k -> "fat" ^ string_of_n k | Regions.RRoot -> "root"
          | Regions.RCluster (c, o) -> "cl:" ^ string_of_n c ^ ":" ^ own_name o
          | Regions.RTail -> "tail" | Regions.ROutside -> "outside" in
        (* the file a handle op refers to: first cluster of its entry in the pre-image *)
        (match b.toks with
         | op :: fh :: _ when Stdlib.List.mem op ["write"; "write_all"; "write_pat"; "truncate"; "flush"; "drop_file"; "read"; "read_all"] ->
           (match Tree.file_of_handle !ts (n_of_string fh) with
            | Some f ->
              (match Tree.find_node !ts f.Tree.fh_node with
               | Some nd ->
                 (match abs_dir_children vpre.Abs.v_root (names_to_root !ts nd.Tree.t_parent []) with
                  | Some ch ->
                    let u = Str.utf16_encode nd.Tree.t_name in
                    Stdlib.List.iter (fun n -> let e = Abs.node_entry n in
                                       if e.Abs.e_lfn = u then Printf.printf "F %d %s\n" oi (string_of_n e.Abs.e_cluster)) ch
                  | None -> ())
               | None -> ())
            | None -> ())
         | _ -> ());
        let cur = ref !im in
        Stdlib.List.iter (fun ev ->
          match ev with
          | "w" :: off :: hx :: depth :: _ ->
            let o = n_of_string off and bs = bytes_of_hex hx in
            let len = Stdlib.List.length bs in
            let r1 = Regions.classify g !im own o in
            let r2 = Regions.classify g !im own (BinNat.N.add o (n_of_int (max 0 (len - 1)))) in
            let ch = Regions.changed_offsets !cur o bs in
            let in_dir = (match r1 with Regions.RRoot -> true | Regions.RCluster (_, Regions.ODir _) -> true | _ -> false) in
            let time_only = in_dir && Stdlib.List.for_all (fun x -> Regions.is_time_field (BinNat.N.modulo x (n_of_int 32))) ch in
            let structural = (match r1 with Regions.RStatus | Regions.RFsInfo -> false | _ -> ch <> [] && not time_only) in
            Printf.printf "R %d %s %s %d %s %d %s\n" oi (reg_name r1) (reg_name r2) (if structural then 1 else 0) off len depth;
            cur := Image.img_write !cur o bs
          | _ -> ()) (Stdlib.List.rev b.events)
      end;
      (* 1. device writes of this op; with "crash": after every single write the image is a possible post-crash state *)
      (if do_crash then begin
         (* facts about the file this op modifies (or about anything, for remove/rename) are withdrawn first *)
         (match b.toks with
          | op :: fh :: _ when Stdlib.List.mem op ["write"; "write_all"; "write_pat"; "truncate"] ->
            (match Tree.file_of_handle !ts (n_of_string fh) with
             | Some f -> facts := Stdlib.List.filter (fun (id, _, _) -> id <> f.Tree.fh_node) !facts
             | None -> ())
          | ("remove" | "rename") :: _ -> facts := []
          | _ -> ())
       end);
      let wi = ref 0 in
      Stdlib.List.iter (fun ev ->
        match ev with
        | "w" :: off :: hx :: _ ->
          im := Image.img_write !im (n_of_string off) (bytes_of_hex hx);
          incr wi;
          if do_crash && !formatted && (crash_stride <= 1 || !wi mod crash_stride = 0) then check_facts oi !wi
        | "f" :: _ -> durable := !im
        | _ -> ()) (Stdlib.List.rev b.events);
      let t = b.toks in
      let okp = b.rkind = "ok" in
      (* outside a session (device set-up, format, mount) the device content counts as durable *)
      let sync_durable = (match t with ("dev" | "poke" | "fillrange" | "pages" | "format" | "mount" | "load" | "loadraw") :: _ -> true | _ -> false) in
      (match t with
       | ["dev"; _; fill] -> im := Image.img_empty (n_of_string fill); formatted := false; ts := Tree.ts_init
       | "poke" :: off :: hx :: _ -> im := Image.img_write !im (n_of_string off) (bytes_of_hex hx)
       | ["fillrange"; off; len; bt] ->
         im := Image.img_write !im (n_of_string off) (Stdlib.List.init (int_of_string len) (fun _ -> n_of_string bt))
       | ["pages"] when okp ->
         let rec go = function
           | off :: hx :: r -> im := Image.img_write !im (n_of_string off) (bytes_of_hex hx); go r
           | _ -> () in
         go (split_ws b.rpayload); formatted := true
       | "format" :: _ when okp && Stdlib.List.exists (fun ev -> match ev with "w" :: _ -> true | _ -> false) b.events -> formatted := true
       | "mount" :: _ :: _ :: o :: _ -> oem := (if o = "table" then oem_table else oem_lossy)
       | _ -> ());
      if sync_durable then durable := !im;
      if b.rkind = "bad" then ()
      else if b.rkind = "panic" || b.rkind = "hang" || b.rkind = "skipped" then stop := true
      else begin
        (* 2. abstract machine *)
        let v = lazy (Abs.abs !im) in
        if do_tree then begin
          let ts_before = !ts in
          let res_err () = match split_ws b.rpayload with
            | name :: _ -> (match error_of_name name with Some e -> Some (Tree.RErr e) | None -> None)
            | [] -> None in
          let simple () = if okp then Some Tree.ROk else res_err () in
          let alias_for dh path =
            if not okp then [] else
            match Tree.dir_of_handle !ts (n_of_string dh) with
            | None -> []
            | Some d0 ->
              let (pre, final) = Tree.split_last (Tree.path_comps path) in
              (match Tree.walk_dirs upper !oem !ts d0 pre with
               | Tree.WDir d -> find_alias (Lazy.force v) !ts d final
               | _ -> []) in
          let step =
            match t with
            | ["open_dir"; dh; p; nh] -> Some (Tree.TOpenDir (n_of_string dh, str_of_hex p, n_of_string nh), simple ())
            | ["open_file"; dh; p; nh] -> Some (Tree.TOpenFile (n_of_string dh, str_of_hex p, n_of_string nh), simple ())
            | ["create_dir"; dh; p; nh] ->
              let path = str_of_hex p in
              Some (Tree.TCreateDir (n_of_string dh, path, n_of_string nh, alias_for dh path), simple ())
            | ["create_file"; dh; p; nh] ->
              let path = str_of_hex p in
              Some (Tree.TCreateFile (n_of_string dh, path, n_of_string nh, alias_for dh path), simple ())
            | ["remove"; dh; p] -> Some (Tree.TRemove (n_of_string dh, str_of_hex p), simple ())
            | ["rename"; dh; sp; dh2; dp] ->
              let dst = str_of_hex dp in
              (* marker for the known class "rename to another spelling of the entry's own name" *)
              (match Tree.dir_of_handle !ts (n_of_string dh), Tree.dir_of_handle !ts (n_of_string dh2) with
               | Some d0, Some e0 ->
                 let (spre, sfin) = Tree.split_last (Tree.path_comps (str_of_hex sp)) in
                 let (dpre, dfin) = Tree.split_last (Tree.path_comps dst) in
                 (match Tree.walk_dirs upper !oem !ts d0 spre, Tree.walk_dirs upper !oem !ts e0 dpre with
                  | Tree.WDir sd, Tree.WDir dd ->
                    (match Tree.lookup_in upper !oem !ts sd sfin, Tree.lookup_in upper !oem !ts dd dfin with
                     | Tree.LNode n, Tree.LNode m when n.Tree.t_id = m.Tree.t_id && n.Tree.t_name <> dfin ->
                       Printf.printf "K %d respell\n" oi
                     | _ -> ())
                  | _ -> ())
               | _ -> ());
              Some (Tree.TRename (n_of_string dh, str_of_hex sp, n_of_string dh2, dst, alias_for dh2 dst), simple ())
            | ["list"; dh] ->
              let r = if okp then
                  Some (Tree.RList (Stdlib.List.map (fun e ->
                    match e with
                    | _ :: _ :: _ :: len :: isdir :: _ :: _ :: _ :: fname :: _ ->
                      ((str_of_hex fname, isdir = "1"), n_of_string len)
                    | _ -> (([], false), N0)) b.elines))
                else res_err () in
              Some (Tree.TList (n_of_string dh), r)
            | ["read"; fh; n] ->
              Some (Tree.TRead (n_of_string fh, n_of_string n), if okp then Some (Tree.RData (bytes_of_hex (if b.rpayload = "" then "-" else b.rpayload))) else res_err ())
            | ["read_all"; fh; n] ->
              Some (Tree.TReadAll (n_of_string fh, n_of_string n), if okp then Some (Tree.RData (bytes_of_hex (if b.rpayload = "" then "-" else b.rpayload))) else res_err ())
            | ["extents"; fh] ->
              let dev = if okp then
                  Stdlib.List.concat_map (fun x ->
                    match String.split_on_char ':' x with
                    | [off; sz] -> Image.img_read !im (n_of_string off) (nat_of_int (int_of_string sz))
                    | _ -> []) (split_ws b.rpayload)
                else [] in
              Some (Tree.TExtents (n_of_string fh, dev), simple ())
            | ["write"; fh; hx] ->
              Some (Tree.TWrite (n_of_string fh, bytes_of_hex hx), if okp then Some (Tree.RCount (n_of_string b.rpayload)) else res_err ())
            | ["write_all"; fh; hx] ->
              let data = bytes_of_hex hx in
              let r = if okp then Some (Tree.RCount (n_of_int (Stdlib.List.length data)))
                else (match split_ws b.rpayload with
                    | ["NotEnoughSpace"; w] when w <> "0" -> Some (Tree.RCount (n_of_string w))
                    | _ -> res_err ()) in
              Some (Tree.TWrite (n_of_string fh, data), r)
            | ["write_pat"; fh; n; seed] ->
              let data = pattern (int_of_string n) (int_of_string seed) in
              let r = if okp then Some (Tree.RCount (n_of_int (Stdlib.List.length data)))
                else (match split_ws b.rpayload with
                    | ["NotEnoughSpace"; w] when w <> "0" -> Some (Tree.RCount (n_of_string w))
                    | _ -> res_err ()) in
              Some (Tree.TWrite (n_of_string fh, data), r)
            | ["seek"; fh; w; off] ->
              let neg = String.length off > 0 && off.[0] = '-' in
              let mag = if neg then String.sub off 1 (String.length off - 1) else off in
              let wh = (match w with "start" -> Tree.SeekStart | "end" -> Tree.SeekEnd | _ -> Tree.SeekCur) in
              Some (Tree.TSeek (n_of_string fh, wh, n_of_string mag, neg), if okp then Some (Tree.RCount (n_of_string b.rpayload)) else res_err ())
            | ["truncate"; fh] -> Some (Tree.TTruncate (n_of_string fh), simple ())
            | ["flush"; fh] -> Some (Tree.TFlush (n_of_string fh), simple ())
            | ["drop_file"; fh] -> Some (Tree.TDropFile (n_of_string fh), Some Tree.ROk)
            | ["drop_dir"; dh] -> Some (Tree.TDropDir (n_of_string dh), Some Tree.ROk)
            | ["drop_all"] | ["unmount"] | ["dropfs"] | ["forget"] -> Some (Tree.TDropAll, Some Tree.ROk)
            | _ -> None in
          (match step with
           | Some (o, Some r) ->
             let (vd, ts') = Tree.tree_step upper !oem !ts o r in
             ts := ts';
             (match vd with
              | Tree.VOk -> Printf.printf "O %d ok\n" oi
              | Tree.VSkip -> Printf.printf "O %d skip\n" oi
              | Tree.VBad c -> Printf.printf "O %d bad %s\n" oi (string_of_n c))
           | Some (_, None) -> Printf.printf "X %d unparsed-result %s %s\n" oi b.rkind b.rpayload
           | None -> ());
          (if do_crash && okp then
             match b.toks with
             | ("flush" | "drop_file") :: fh :: _ ->
               (match Tree.file_of_handle ts_before (n_of_string fh) with
                | Some f ->
                  (match Tree.find_node !ts f.Tree.fh_node with
                   | Some nd when Tree.node_dirty !ts nd.Tree.t_id ->
                     (* another handle on the same file still has unflushed metadata: nothing is established *)
                     ()
                   | Some nd ->
                     let path = names_to_root !ts nd.Tree.t_parent [] @ [nd.Tree.t_name] in
                     let fact = (nd.Tree.t_id, path, nd.Tree.t_content) in
                     facts := fact :: Stdlib.List.filter (fun (id, _, _) -> id <> nd.Tree.t_id) !facts;
                     check_facts oi 0;
                     (* "... and the storage has been flushed": the fact must hold on what the last device flush made durable
                        (reported with write index -1) *)
                     check_facts_on !durable [fact] oi (-1)
                   | None -> ())
                | None -> ())
             | _ -> ());
          if (!ts).Tree.ts_tainted then (Printf.printf "T %d\n" oi; stop := true)
          else if !formatted && step <> None then
            if not (Tree.tree_matches_abs !ts (Lazy.force v)) then Printf.printf "M %d\n" oi
        end;
        (* 3. structural invariants on the raw image *)
        if do_wf && !formatted && not !stop && (not sparse_wf || (match b.toks with ("stats" | "unmount" | "dropfs" | "label_root") :: _ -> true | _ -> false)) then begin
          match Wf.wf_issues fold_units !im with
          | [] -> ()
          | l -> Printf.printf "W %d %s\n" oi (String.concat " " (Stdlib.List.map issue_name l))
        end;
        if do_tree then
          Printf.printf "D %d %d\n" oi (Stdlib.List.length (Stdlib.List.filter (fun (_, f) -> f.Tree.fh_dirty) (!ts).Tree.ts_files));
        if do_info && !formatted && (not sparse_info || (match b.toks with ("stats" | "unmount" | "dropfs" | "forget") :: _ -> true | _ -> b.rkind = "err")) then begin
          let g = Abs.parse_geom !im in
          let fsi = BinNat.N.mul g.Abs.g_fsinfo_sector g.Abs.g_bps in
          let is32 = int_of_n (Abs.g_bits g) = 32 in
          (* raw reserved FAT entries 0 and 1 of every copy (FAT32: all 32 bits), comma separated *)
          let raw_entry copy c =
            let bits = int_of_n (Abs.g_bits g) in
            let base = Abs.g_fat_off g (n_of_int copy) in
            if bits = 12 then Abs.fat_raw g !im (n_of_int copy) (n_of_int c)
            else if bits = 16 then Image.img_u16 !im (BinNat.N.add base (n_of_int (2 * c)))
            else Image.img_u32 !im (BinNat.N.add base (n_of_int (4 * c))) in
          let raws c = String.concat "," (Stdlib.List.init (max 1 (int_of_n g.Abs.g_fats)) (fun k -> string_of_n (raw_entry k c))) in
          (* fixed root (FAT12/16): the largest number of consecutive slots a new entry could take - a run of deleted
             slots, or the deleted slots directly before the end marker plus everything from the marker to the end *)
          let rootroom =
            if is32 then -1 else begin
              let (_, ss) = Abs.root_slots g !im in
              let best = ref 0 and run = ref 0 and ended = ref false in
              Stdlib.List.iter (fun sl ->
                if not !ended then begin
                  let b0 = (match sl with x :: _ -> int_of_n x | [] -> 0) in
                  if b0 = 0 then ended := true
                  else if b0 = 229 then (incr run; if !run > !best then best := !run)
                  else run := 0
                end;
                if !ended then (incr run; if !run > !best then best := !run)) ss;
              !best
            end in
          Printf.printf "I %d rootroom=%d free=%s copies=%d status=%s fsfree=%s fsnext=%s bits=%s clusters=%s res0=%s res1=%s\n" oi rootroom
            (string_of_n (Abs.count_free g !im)) (if Abs.fat_copies_equal g !im then 1 else 0)
            (string_of_n (Image.img_get !im (Abs.g_status_off g)))
            (if is32 then string_of_n (Image.img_u32 !im (BinNat.N.add fsi (n_of_int 488))) else "0")
            (if is32 then string_of_n (Image.img_u32 !im (BinNat.N.add fsi (n_of_int 492))) else "0")
            (string_of_n (Abs.g_bits g)) (string_of_n (Abs.g_clusters g)) (raws 0) (raws 1)
        end
      end
    end) ops;
  if do_crash then Printf.printf "N 0 %d\n" !crash_checks

let main (flags : string list) : unit =
  let has f = Stdlib.List.mem f flags in
  (match Sys.getenv_opt "FATFS_UPPER_TABLE" with Some p -> load_upper p | None -> ());
  let scripts = read_transcript () in
  Stdlib.List.iteri (fun si ops -> run_script si ops (has "wf" || has "wfs") (has "tree") (has "info" || has "infos") (has "regions") (has "infos") (has "crash" || has "crash4") (if has "crash4" then 4 else 1) (has "wfs")) scripts
