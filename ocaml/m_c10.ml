(* model runner for C10 (Model/Fat.v byte-level FAT stores over a mirrored slice, Model/Table.v alloc_cluster).
   One input line -> one output line.  The store is given sparsely:
     <bits> <base> <size> <mirrors> <chunks>     chunks = "off:hex;off:hex;..." (absolute image offsets, "-" = none), fill 0
   "sets  <store> <ops> <ranges>"   ops = "c:v,c:v,..." (v = F | B | E | D<n>) applied in order with fat_set;
                                    ranges = "off:len;..." -> "ok <hex>;<hex>;..." (image bytes of each range afterwards)
   "get   <store> <c>"              -> "ok <v>"
   "alloc <store> <prev|-> <hint|-> <total> <ranges>" -> "ok <cluster> <hex>;..."
   failures: "err <ErrorName>" | "panic" | "fuel" *)
open Conv

let split_on c s = if s = "-" || s = "" then [] else String.split_on_char c s

let ft_of = function "12" -> Fat.Fat12 | "16" -> Fat.Fat16 | _ -> Fat.Fat32

let store base size mirrors chunks : Fat.fstore =
  let im = Stdlib.List.fold_left (fun im ch ->
      match String.split_on_char ':' ch with
      | [off; hx] -> Image.img_write im (n_of_string off) (bytes_of_hex hx)
      | _ -> im) (Image.img_empty BinNums.N0) (split_on ';' chunks) in
  { Fat.fs_img = im; Fat.fs_base = n_of_string base; Fat.fs_size = n_of_string size;
    Fat.fs_mirrors = nat_of_int (int_of_string mirrors) }

let val_of (s : string) : Table.fatv =
  match s with
  | "F" -> Table.Free | "B" -> Table.Bad | "E" -> Table.Eoc
  | _ -> Table.Data (n_of_string (String.sub s 1 (String.length s - 1)))

let val_str (v : Table.fatv) : string =
  match v with Table.Free -> "F" | Table.Bad -> "B" | Table.Eoc -> "E" | Table.Data n -> "D" ^ string_of_n n

let ranges_out (s : Fat.fstore) (ranges : string) : string =
  String.concat ";" (Stdlib.List.map (fun r ->
      match String.split_on_char ':' r with
      | [off; len] -> hex_of_bytes (Image.img_read s.Fat.fs_img (n_of_string off) (nat_of_int (int_of_string len)))
      | _ -> "?") (split_on ';' ranges))

let res_str (r : 'a Base.res) (f : 'a -> string) : string =
  match r with
  | Base.Ok a -> "ok " ^ f a
  | Base.Err e -> "err " ^ err_name e
  | Base.Panic -> "panic"
  | Base.OutOfFuel -> "fuel"

let opt_n (s : string) : BinNums.coq_N option = if s = "-" then None else Some (n_of_string s)

let line (t : string list) : string =
  match t with
  | ["sets"; bits; base; size; mirrors; chunks; ops; ranges] ->
    let ft = ft_of bits in
    let s0 = store base size mirrors chunks in
    let r = Stdlib.List.fold_left (fun acc op ->
        match acc with
        | Base.Ok s ->
          (match String.split_on_char ':' op with
           | [c; v] -> Fat.fat_set ft s (n_of_string c) (val_of v)
           | _ -> acc)
        | _ -> acc) (Base.Ok s0) (split_on ',' ops) in
    res_str r (fun s -> ranges_out s ranges)
  | ["get"; bits; base; size; mirrors; chunks; c] ->
    res_str (Fat.fat_get (ft_of bits) (store base size mirrors chunks) (n_of_string c)) val_str
  | ["alloc"; bits; base; size; mirrors; chunks; prev; hint; total; ranges] ->
    let ft = ft_of bits in
    let r = Table.alloc_cluster (Fat.fat_get ft) (Fat.fat_set ft) (store base size mirrors chunks)
        (opt_n prev) (opt_n hint) (n_of_string total) in
    res_str r (fun (s, c) -> string_of_n c ^ " " ^ ranges_out s ranges)
  | _ -> "bad"
