(* model runner for ONE FILE SESSION on a whole device image (Model/VolSession.v: create_file in the fixed root, calls on
   the handle under a scripted clock, File::flush / drop writing the directory entry back), mode "csess": one input line ->
   one output line.  Two images are kept between lines: [mim] = the MODEL's image, produced only by the extracted Coq
   functions (FormatImage.format_image, VolSession.sess_create / sess_step / vol_flush_entry); [dim] = the DEVICE, the same
   formatted image advanced only by the library's own logged device writes.  After every line the WHOLE images are compared
   (every offset either map holds) - EXACTLY, including the status byte (0x25 on FAT12/16: the volume dirty flag): the model
   runs the MOUNTED operations of Model/VolStatus.v (sesss_create / sesss_step / vols_remove_file_root: the operation, then
   set_dirty_flag(true) exactly when the code passes it; flush never; "sync x" = unmount = set_dirty_flag(false)), with the
   status latch (Flags.fstat) taken at "fmt" (= mount of the formatted volume).
   "upper <file>"                              load the to_uppercase table (shared with c15 / cdir / cvol) -> "ok <n>"
   "fmt <9 format tokens of mode c06> <fill> <acc 0|1>"   both images := Model/FormatImage.format_image on a device of <fill>
        -> "ok <bits> <cluster size> <clusters> <fixed_root+vgeom precondition 0|1> <page digest>" | "err .." | "panic"
   "poke <off> <hex>"                          bytes written by hand into the unmounted device (the mount-time status byte) -> "ok"
   "create <name hex> <y m d h mi s ms> | <off>:<hex> ..."    VolSession.sess_create; the writes the library did
        -> "ok <slot> | <state> | <cmp>"  |  "none | - | <cmp>"
   "step <y m d h mi s ms> <op ...> | <off>:<hex> ..."   op = write <hex> | read <n> | seek start|end|cur <off> | truncate
        -> "<result> | <state> | <cmp>"
   "flush | <off>:<hex> ..."                   VolSession.vol_flush_entry (File::flush, or the drop of the handle)
        -> "ok <dirty before 0|1> | <state> | <cmp>"
   "remove <name hex> | <off>:<hex> ..."        VolRemove.vol_remove_file_root on the model image with the latch of the (dropped) handle's
        session: lookup, free_cluster_chain on the FAT copies, deletion loop -> "ok | - | <cmp>" | "err <kind> | - | <cmp>" | "none | - | <cmp>"
   "sync m|x | <off>:<hex> ..."                "m": device writes of a call the model does nothing for (second flush, drop after
        flush); "x": unmount = VolStatus.vol_unmount (the mount-time status byte comes back) -> "ok | <state> | <cmp>"
   "digest"                                    -> "ok <page digest of the MODEL image>" (executor `pages` format, md5 per page)
   "decp <fill> <off> <hex> ..."               the decode line (below) of exactly these pages (the library's own final dump)
   "dec"                                       Spec/Abs.abs + Spec/Wf.wf_issues (identity folding) of the DEVICE image
        -> "<nodes> <root issues> <wf issues> <free clusters> <lost clusters> : <lfn u16 hex|->,<size>,<cluster>,<chain len|x>,<content hex|->;..."
   "decm"                                      the same of the MODEL image
   state = "<offset> <size|-> <first|-> <handle dirty 0|1>";  cmp = "same <offsets compared>" | "DIFF at <off>: model <b> device <b>" *)
open Conv

let mim = ref (Image.img_empty BinNums.N0)
let dim = ref (Image.img_empty BinNums.N0)
let g : Abs.geom ref = ref (Abs.parse_geom (Image.img_empty BinNums.N0))
let fi : Table.fsinfo ref = ref { Table.fi_free = None; Table.fi_next = None; Table.fi_dirty = false }
let st : VolSession.sstate option ref = ref None
let acc = ref false
let stat : Flags.fstat ref = ref (Flags.st_mount BinNums.N0)

let upper c = M_c15.upper_table c
let oem = Name.oem_decode_lossy
let name_of_hex (h : string) : BinNums.coq_N list = Str.utf8_decode (bytes_of_hex h)
let opt_s = M_c02.opt_s

(* whole-image comparison by a simultaneous walk of the two tries (every offset
   either map holds, a missing binding reads as the fill byte; [mask] = offset whose bit 0 is ignored).  The key
   of a node reached by [depth] branchings with branch bits [path] (least significant first) is path + 2^depth; offset = key - 1 *)
let compare_two (a : Image.image) (b : Image.image) (mask : int) : string =
  let afill = int_of_n a.Image.img_fill and bfill = int_of_n b.Image.img_fill in
  let bad = ref None and n = ref 0 in
  let note off x y =
    incr n;
    let x, y = if off = mask then (x lor 1, y lor 1) else (x, y) in
    if x <> y then (match !bad with Some (o, _, _) when o <= off -> () | _ -> bad := Some (off, x, y)) in
  let rec go ta tb path depth =
    match ta, tb with
    | FMapPositive.PositiveMap.Leaf, FMapPositive.PositiveMap.Leaf -> ()
    | _ ->
      let (la, va, ra) = match ta with
        | FMapPositive.PositiveMap.Leaf -> (FMapPositive.PositiveMap.Leaf, None, FMapPositive.PositiveMap.Leaf)
        | FMapPositive.PositiveMap.Node (l, v, r) -> (l, v, r) in
      let (lb, vb, rb) = match tb with
        | FMapPositive.PositiveMap.Leaf -> (FMapPositive.PositiveMap.Leaf, None, FMapPositive.PositiveMap.Leaf)
        | FMapPositive.PositiveMap.Node (l, v, r) -> (l, v, r) in
      (match va, vb with
       | None, None -> ()
       | _ ->
         let off = path + (1 lsl depth) - 1 in
         note off (match va with Some x -> int_of_n x | None -> afill) (match vb with Some y -> int_of_n y | None -> bfill));
      go la lb path (depth + 1);
      go ra rb (path + (1 lsl depth)) (depth + 1) in
  go a.Image.img_map b.Image.img_map 0 0;
  if afill <> bfill then "DIFF fill byte"
  else match !bad with
    | Some (o, x, y) -> Printf.sprintf "DIFF at %d: model %d device %d" o x y
    | None -> Printf.sprintf "same %d" !n

let compare_images (mask : int) : string = compare_two !mim !dim mask

let apply_writes (wr : string list) : unit =
  Stdlib.List.iter (fun s ->
      match String.index_opt s ':' with
      | Some i ->
        let o = int_of_string (String.sub s 0 i) and hx = String.sub s (i + 1) (String.length s - i - 1) in
        dim := Image.img_write !dim (n_of_int o) (bytes_of_hex hx)
      | None -> ()) wr

let rec split_bar acc = function
  | "|" :: r -> (Stdlib.List.rev acc, r)
  | x :: r -> split_bar (x :: acc) r
  | [] -> (Stdlib.List.rev acc, [])

let state_s () : string =
  match !st with
  | None -> "-"
  | Some s ->
    let h = s.VolSession.s_h in
    Printf.sprintf "%s %s %s %d" (string_of_n h.FileM.h_off) (opt_s (FileM.h_size h)) (opt_s h.FileM.h_first)
      (if VolSession.sess_dirty h s.VolSession.s_en then 1 else 0)

let status_off () : int = int_of_n (Abs.g_status_off !g)

(* the preconditions of the session theorems: Proofs/VolDirProofs.fixed_root_geom (as a boolean) and VolFile.vgeom_okb *)
let precondition () : bool =
  let gg = !g in
  let i x = int_of_n x in
  let bits = i (Abs.g_bits gg) and bps = i gg.Abs.g_bps and clusters = i (Abs.g_clusters gg) in
  let needed = if bits = 12 then ((clusters + 2) * 3 + 1) / 2 else (clusters + 2) * 2 in
  bits <> 32 && bps >= 512 && i gg.Abs.g_spc >= 1 && i gg.Abs.g_reserved >= 1 && i gg.Abs.g_fats >= 1
  && i gg.Abs.g_root_entries < 65536 && (i gg.Abs.g_root_entries * 32) mod bps = 0
  && needed <= i (Abs.g_fat_bytes gg) && i (Abs.g_first_data gg) <= i gg.Abs.g_total_sectors
  && VolFile.vgeom_okb gg

let decode (im : Image.image) : string =
  let v = Abs.abs im in
  let gg = v.Abs.v_geom in
  let wf = Wf.wf_issues (fun l -> l) im in
  let lost = Stdlib.List.length (Stdlib.List.filter (fun i -> match i with Wf.WLost _ -> true | _ -> false) wf) in
  let ents = Stdlib.List.map (fun n ->
      let e = Abs.node_entry n in
      let (cl, content) = match n with
        | Abs.NFile (_, Some l, c) -> (string_of_int (Stdlib.List.length l), hex_of_bytes c)
        | Abs.NFile (_, None, c) -> ("x", hex_of_bytes c)
        | _ -> ("d", "-") in
      Printf.sprintf "%s,%s,%s,%s,%s" (hex16_of_words e.Abs.e_lfn) (string_of_n e.Abs.e_size) (string_of_n e.Abs.e_cluster) cl
        (if content = "" then "-" else content)) v.Abs.v_root in
  Printf.sprintf "%d %d %d %s %d : %s" (Stdlib.List.length v.Abs.v_root) (Stdlib.List.length v.Abs.v_root_issues)
    (Stdlib.List.length wf) (string_of_n (Abs.count_free gg im)) lost (String.concat ";" ents)

let res_s (r : FileM.fresult) : string =
  match r with
  | FileM.RBytes bs -> "ok " ^ hex_of_bytes bs
  | FileM.RCount k -> "ok " ^ string_of_n k
  | FileM.RPos p -> "ok " ^ string_of_n p
  | FileM.RDone -> "ok"
  | FileM.RFail e -> "err " ^ err_name e
  | FileM.RPanic -> "panic"
  | FileM.RFuel -> "fuel"

let line (t : string list) : string =
  match t with
  | ["upper"; f] -> Printf.sprintf "ok %d" (M_c15.load_table f)
  | "fmt" :: rest when Stdlib.List.length rest = 11 ->
    let req = Stdlib.List.filteri (fun i _ -> i < 9) rest in
    let fill = Stdlib.List.nth rest 9 in
    acc := (Stdlib.List.nth rest 10 = "1");
    st := None;
    (match M_c06.options_of req with
     | None -> "bad"
     | Some (o, ts) ->
       (match FormatImage.format_image o ts (Image.img_empty (n_of_string fill)) with
        | Base.Ok im ->
          mim := im; dim := im; g := Abs.parse_geom im;
          stat := VolStatus.vol_mount_status !g im;
          let bs = Image.img_read im BinNums.N0 (nat_of_int 512) in
          let fsi = Image.img_read im (Bpb.fsinfo_offset bs) (nat_of_int 512) in
          (match Bpb.mount Bpb.Debug bs fsi false with
           | Base.Ok m ->
             fi := { Table.fi_free = m.Bpb.m_free; Table.fi_next = m.Bpb.m_next; Table.fi_dirty = false };
             Printf.sprintf "ok %s %s %s %d %s" (string_of_n (Abs.g_bits !g)) (string_of_n (Abs.g_cluster_size !g))
               (string_of_n (Abs.g_clusters !g)) (if precondition () then 1 else 0) (M_c06.pages_digest im)
           | _ -> "err mount")
        | Base.Err e -> "err " ^ err_name e
        | Base.Panic -> "panic"
        | Base.OutOfFuel -> "outoffuel"))
  | ["poke"; off; hx] ->
    (* the status byte of the unmounted volume set by hand on the device (before the mount): both images, and the mount latch *)
    mim := Image.img_write !mim (n_of_string off) (bytes_of_hex hx);
    dim := Image.img_write !dim (n_of_string off) (bytes_of_hex hx);
    stat := VolStatus.vol_mount_status !g !mim;
    "ok"
  | "create" :: name :: y :: m :: d :: h :: mi :: s :: ms :: rest ->
    let (_, wr) = split_bar [] rest in
    apply_writes wr;
    (* the FS-info latch lives in the FileSystem: a later create_file sees what the earlier handles left *)
    (match !st with Some s0 -> fi := s0.VolSession.s_fi | None -> ());
    (match VolStatus.sesss_create upper oem !mim !fi !stat (name_of_hex name) (M_c18.mkdt y m d h mi s ms) with
     | Some (s0, stat') ->
       st := Some s0; mim := s0.VolSession.s_im; fi := s0.VolSession.s_fi; stat := stat';
       Printf.sprintf "ok %s | %s | %s" (string_of_n s0.VolSession.s_en.VolSession.en_slot) (state_s ()) (compare_images (-1))
     | None -> st := None; Printf.sprintf "none | - | %s" (compare_images (-1)))
  | "step" :: y :: m :: d :: h :: mi :: s :: ms :: rest ->
    let (opt, wr) = split_bar [] rest in
    let op = match opt with
      | ["write"; hx] -> Some (FileM.FWrite (bytes_of_hex hx))
      | ["read"; n] -> Some (FileM.FRead (n_of_string n))
      | ["seek"; "start"; off] -> Some (FileM.FSeek (FileM.FromStart (n_of_string off)))
      | ["seek"; "end"; off] -> Some (FileM.FSeek (FileM.FromEnd (M_c02.z_of_string off)))
      | ["seek"; "cur"; off] -> Some (FileM.FSeek (FileM.FromCurrent (M_c02.z_of_string off)))
      | ["truncate"] -> Some FileM.FTruncate
      | _ -> None in
    (match op, !st with
     | Some op, Some s0 ->
       apply_writes wr;
       let ((s1, stat'), r) = VolStatus.sesss_step !g !acc s0 !stat (op, M_c18.mkdt y m d h mi s ms) in
       st := Some s1; mim := s1.VolSession.s_im; stat := stat';
       Printf.sprintf "%s | %s | %s" (res_s r) (state_s ()) (compare_images (-1))
     | _ -> "bad")
  | "flush" :: rest ->
    let (_, wr) = split_bar [] rest in
    (match !st with
     | Some s0 ->
       apply_writes wr;
       let dirty = VolSession.sess_dirty s0.VolSession.s_h s0.VolSession.s_en in
       let s1 = VolSession.vol_flush_entry !g s0 in
       st := Some s1; mim := s1.VolSession.s_im;
       Printf.sprintf "ok %d | %s | %s" (if dirty then 1 else 0) (state_s ()) (compare_images (-1))
     | None -> "bad")
  | "remove" :: name :: rest ->
    let (_, wr) = split_bar [] rest in
    apply_writes wr;
    let fi0 = (match !st with Some s0 -> s0.VolSession.s_fi | None -> !fi) in
    st := None;
    (match VolStatus.vols_remove_file_root upper oem !mim fi0 !stat (name_of_hex name) with
     | Some (((r, im'), fi'), stat') ->
       mim := im'; fi := fi'; stat := stat';
       Printf.sprintf "%s | - | %s" (match r with Base.Ok _ -> "ok" | Base.Err e -> "err " ^ err_name e | Base.Panic -> "panic" | Base.OutOfFuel -> "fuel")
         (compare_images (-1))
     | None -> fi := fi0; Printf.sprintf "none | - | %s" (compare_images (-1)))
  | "sync" :: how :: rest ->
    let (_, wr) = split_bar [] rest in
    apply_writes wr;
    (* "x": unmount (Model/VolStatus.vol_unmount: set_dirty_flag(false)); "m": a call the model does nothing for *)
    if how = "x" then begin
      let (im', stat') = VolStatus.vol_unmount !g !mim !stat in
      mim := im'; stat := stat'
    end;
    Printf.sprintf "ok | %s | %s" (state_s ()) (compare_images (-1))
  | ["dec"] -> decode !dim
  | ["decm"] -> decode !mim
  | ["digest"] -> "ok " ^ M_c06.pages_digest !mim
  | "decp" :: fill :: pages ->
    let im = ref (Image.img_empty (n_of_string fill)) in
    let rec go l =
      match l with
      | off :: hx :: r -> im := Image.img_write !im (n_of_string off) (bytes_of_hex hx); go r
      | _ -> () in
    go pages;
    decode !im
  | _ -> "bad"
