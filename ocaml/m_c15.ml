(* model runner for C15/C16 (mode "c15"): one input line -> one output line.  Names travel as hex of UTF-8,
   UTF-16 unit lists as 4-hex-digit groups, raw short names as 22 hex digits, slots as 64 hex digits.
   "upper <file>"                      load the to_uppercase table ("cp: cp cp.." lines) -> "ok <n>"
   "v <name>"                          validate_long_name -> "ok" | "err <Variant>"
   "u16 <name>"                        utf16_encode -> units
   "le <units|-> <ck>"                 lfn_entries, serialised -> "<n> <slot hex> ..."
   "la <sfn11> <slot hex> ..."         lfn_assemble of the decoded slots -> "ok <units>" | "panic"
   "ck <sfn11>"                        lfn_checksum
   "sn <sfn11>"                        short_name_string -> bytes hex
   "al <name> <fuel> <sfn11> ..."      alias_for -> "ok <sfn11>" | "err <Variant>" | "panic" | "fuel"
   "dreset" / "drespell <old> <new>" (same entry, same alias, new spelling) / "dadd <sfn11>" / "ddel <sfn11>" / "dal <name> <fuel>"   the same against a stored directory
   "dcreate <name> <fuel>"             alias_for against the stored directory; an Ok alias is added under that name
   "ddelname <name>"                   forget the entry stored under that name -> "ok" | "missing"
   "gen <name>"                        sng_new -> "ok <chksum> <fits> <lossy> <basename_len> <short11>" | "panic"
   "eq <u|a> <lfn units|-> <sfn11> <name>"   eq_name with the loaded table (u) or ASCII folding (a), lossy OEM -> 0|1
   "legal <sfn11>"                     the legality predicate of C16 -> 0|1 *)
open Conv

let table : (int, BinNums.coq_N list) Hashtbl.t = Hashtbl.create 2048

let load_table (f : string) : int =
  Hashtbl.reset table;
  let ic = open_in f in
  (try
     while true do
       let l = input_line ic in
       match String.split_on_char ':' l with
       | [a; b] ->
         let cp = int_of_string (String.trim a) in
         let ups = Stdlib.List.map (fun x -> n_of_int (int_of_string x)) (split_ws b) in
         Hashtbl.replace table cp ups
       | _ -> ()
     done
   with End_of_file -> close_in ic);
  Hashtbl.length table

let upper_table (c : BinNums.coq_N) : BinNums.coq_N list =
  match Hashtbl.find_opt table (int_of_n c) with Some l -> l | None -> [c]

let name_of_hex (h : string) : BinNums.coq_N list = Str.utf8_decode (bytes_of_hex h)

let res_alias (r : BinNums.coq_N list Base.res) : string =
  match r with
  | Base.Ok a -> "ok " ^ hex_of_bytes a
  | Base.Err e -> "err " ^ err_name e
  | Base.Panic -> "panic"
  | Base.OutOfFuel -> "fuel"

let dir : BinNums.coq_N list list ref = ref []
let dnames : (string * BinNums.coq_N list) list ref = ref []

let b01 (b : bool) = if b then "1" else "0"

let line (t : string list) : string =
  match t with
  | ["upper"; f] -> Printf.sprintf "ok %d" (load_table f)
  | ["v"; n] ->
    (match Name.validate_long_name (name_of_hex n) with
     | Base.Ok _ -> "ok"
     | Base.Err e -> "err " ^ err_name e
     | Base.Panic -> "panic"
     | Base.OutOfFuel -> "fuel")
  | ["u16"; n] -> hex16_of_words (Str.utf16_encode (name_of_hex n))
  | ["le"; u; ck] ->
    let es = Name.lfn_entries (words_of_hex16 u) (n_of_string ck) in
    String.concat " " (string_of_int (Stdlib.List.length es) :: Stdlib.List.map (fun e -> hex_of_bytes (Slot.lfn_encode e)) es)
  | "la" :: sfn :: slots ->
    let es = Stdlib.List.filter_map (fun h -> match Slot.slot_decode (bytes_of_hex h) with Slot.SLfn e -> Some e | _ -> None) slots in
    if Stdlib.List.length es <> Stdlib.List.length slots then "notlfn"
    else
      (match Name.lfn_assemble es (bytes_of_hex sfn) with
       | Base.Ok u -> "ok " ^ hex16_of_words u
       | _ -> "panic")
  | ["ck"; sfn] -> string_of_n (Slot.lfn_checksum (bytes_of_hex sfn))
  | ["sn"; sfn] -> hex_of_bytes (Name.short_name_string (bytes_of_hex sfn))
  | "al" :: n :: fuel :: ex ->
    res_alias (ShortName.alias_for (name_of_hex n) (Stdlib.List.map bytes_of_hex ex) (nat_of_int (int_of_string fuel)))
  | ["dreset"] -> dir := []; dnames := []; "ok"
  | ["dcreate"; n; fuel] ->
    let r = ShortName.alias_for (name_of_hex n) !dir (nat_of_int (int_of_string fuel)) in
    (match r with Base.Ok a -> dir := a :: !dir; dnames := (n, a) :: !dnames | _ -> ());
    res_alias r
  | ["ddelname"; n] ->
    (match Stdlib.List.assoc_opt n !dnames with
     | Some a ->
       let rec rm l = match l with [] -> [] | x :: r -> if x = a then r else x :: rm r in
       dir := rm !dir; dnames := Stdlib.List.remove_assoc n !dnames; "ok"
     | None -> "missing")
  | ["drespell"; o; n] ->
    (match Stdlib.List.assoc_opt o !dnames with
     | Some a -> dnames := (n, a) :: Stdlib.List.remove_assoc o !dnames; "ok"
     | None -> "missing")
  | ["dadd"; s] -> dir := bytes_of_hex s :: !dir; "ok"
  | ["ddel"; s] ->
    let b = bytes_of_hex s in
    let rec rm l = match l with [] -> [] | x :: r -> if x = b then r else x :: rm r in
    dir := rm !dir; "ok"
  | ["dal"; n; fuel] -> res_alias (ShortName.alias_for (name_of_hex n) !dir (nat_of_int (int_of_string fuel)))
  | ["gen"; n] ->
    (match ShortName.sng_new (name_of_hex n) with
     | Base.Ok g ->
       Printf.sprintf "ok %s %s %s %s %s" (string_of_n g.ShortName.g_chksum) (b01 g.ShortName.g_name_fits) (b01 g.ShortName.g_lossy)
         (string_of_n g.ShortName.g_basename_len) (hex_of_bytes g.ShortName.g_short)
     | _ -> "panic")
  | ["eq"; k; lfn; sfn; n] ->
    let up = if k = "u" then upper_table else Name.upper_ascii in
    b01 (Name.eq_name up Name.oem_decode_lossy (words_of_hex16 lfn) (bytes_of_hex sfn) (name_of_hex n))
  | ["legal"; sfn] -> b01 (ShortName.sfn_legal_b (bytes_of_hex sfn))
  | _ -> "bad"
